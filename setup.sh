#!/bin/sh
cd "$(dirname "$0")" || exit 1
exec env PYTHONPATH="$(pwd)/qv/shim:$(pwd)" PYTHONDONTWRITEBYTECODE=1 "${QV_PYTHON:-/venv/bin/python}" -m qv.setup
