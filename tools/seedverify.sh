#!/bin/sh
# tools/seedverify.sh <seeded-dir>
# Confirms a seeded change independently: demo passes on /repo HEAD, fails with the
# patch; the pinned suite still gives the baseline pass count with the patch.
D="$(realpath "$1")"
W="$(mktemp -d /tmp/qv_sv.XXXXXX)"; rmdir "$W"
git -C /repo worktree add --detach "$W" HEAD >/dev/null 2>&1 || exit 2
cd "$W"
PYTHONPATH=/verif/qv/shim:"$W" OMP_NUM_THREADS=1 timeout 900 /venv/bin/python "$D/demo.py" >/tmp/sv_before.txt 2>&1; B=$?
git apply --whitespace=nowarn "$D/patch.diff" || { echo "PATCH DOES NOT APPLY"; cd /; git -C /repo worktree remove --force "$W"; exit 2; }
PYTHONPATH=/verif/qv/shim:"$W" OMP_NUM_THREADS=1 timeout 900 /venv/bin/python "$D/demo.py" >/tmp/sv_after.txt 2>&1; A=$?
T="$(/venv/bin/python -m pytest -q -p no:cacheprovider --timeout=900 --continue-on-collection-errors 2>&1 | tail -1)"
echo "demo_exit_original=$B demo_exit_patched=$A pinned_suite_patched='$T' diffstat='$(git diff --shortstat)'"
cd /; git -C /repo worktree remove --force "$W"
