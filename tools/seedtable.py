#!/usr/bin/env python3
"""Prints the markdown table of seeded changes and which checks caught them (from seeded/*/meta.json)."""
import glob, json, os
V = os.path.dirname(os.path.dirname(os.path.abspath(__file__)))
print("| seeded change | property | what was changed | caught by (tier: check -> first keys) |")
print("|---|---|---|---|")
for d in sorted(glob.glob(os.path.join(V, "seeded", "*"))):
    mp = os.path.join(d, "meta.json")
    if not os.path.exists(mp):
        continue
    m = json.load(open(mp))
    cells = []
    for tier, res in sorted(m.get("detected_by", {}).items()):
        for pid, r in res.items():
            if not isinstance(r, dict):
                cells.append(f"{tier}: {pid} {r}")
                continue
            if r.get("exit") == 1:
                ks = "; ".join(f"`{k}`" for k in r.get("keys", [])[:2])
                more = r.get("n_keys", 0) - 2
                cells.append(f"{tier}: **{pid}** ({r.get('n_keys')} keys) {ks}" + (f" +{more}" if more > 0 else ""))
            else:
                cells.append(f"{tier}: {pid} not caught (exit {r.get('exit')})")
    note = m.get("note", "")
    print(f"| `{os.path.basename(d)}` | {m['property']} | {m['change']}" + (f" — *{note}*" if note else "") + f" | {'<br>'.join(cells)} |")
