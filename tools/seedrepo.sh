#!/bin/sh
# tools/seedrepo.sh <seeded-dir> [tier]
# The literal protocol: apply a seeded change to /repo itself, run the property's check(s), undo it straight away.
# Only use when nothing else is running against /repo (tools/seedrun.sh / seedall.py do the same through QV_REPO
# on a scratch worktree and can run concurrently).
D="$(realpath "$1")"; TIER="${2:-quick}"
[ -z "$(git -C /repo status --porcelain --untracked-files=no)" ] || { echo "/repo has uncommitted tracked changes: refusing"; exit 2; }
IDS="$(python3 -c "import json; m=json.load(open('$D/meta.json')); print(' '.join(m.get('checks') or [m['property']]))")"
git -C /repo apply --whitespace=nowarn "$D/patch.diff" || { echo "PATCH DOES NOT APPLY"; exit 2; }
trap 'git -C /repo checkout -- .' EXIT INT TERM
cd /verif
for ID in $IDS; do
  # evidence of a run on a deliberately broken tree must not replace the committed-tree evidence
  cp "evidence/$ID.json" "/tmp/qv_evidence_$ID.bak" 2>/dev/null
  ./check "$ID" "$TIER" 2>&1 | grep -E "VIOLATION|KNOWN-FINDING|INCONCLUSIVE|status=" | cut -c1-240 | head -8
  [ -f "/tmp/qv_evidence_$ID.bak" ] && mv "/tmp/qv_evidence_$ID.bak" "evidence/$ID.json"
done
