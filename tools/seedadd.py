#!/usr/bin/env python3
"""tools/seedadd.py <name e.g. C05-2> <src dir with patch.diff demo.py notes.md> <change> <needs> [extra-check-ids...]
Copies a seeded change into seeded/<name>, confirms it independently (seedverify), writes meta.json and runs the
property's check(s) against it (seedall quick)."""
import json, os, shutil, subprocess, sys
V = os.path.dirname(os.path.dirname(os.path.abspath(__file__)))
name, src, change, needs = sys.argv[1:5]
extra = sys.argv[5:]
prop = name.split("-")[0]
d = os.path.join(V, "seeded", name)
os.makedirs(d, exist_ok=True)
for f in ("patch.diff", "demo.py", "notes.md"):
    shutil.copy(os.path.join(src, f), os.path.join(d, f))
r = subprocess.run([os.path.join(V, "tools", "seedverify.sh"), d], capture_output=True, text=True)
print(r.stdout.strip(), r.stderr.strip()[-300:])
ok = "demo_exit_original=0 demo_exit_patched=1" in r.stdout and "113 passed" in r.stdout
meta = {"property": prop, "checks": [prop] + extra, "change": change, "needs_to_manifest": needs,
        "origin": "fresh sub-agent given only the property text (plus a one-line focus hint naming clauses of that text) and its own scratch worktree (nothing from /verif)",
        "confirmed": "tools/seedverify.sh: " + r.stdout.strip(),
        "ran": "tools/seedall.py quick (checks run with QV_REPO pointing at a scratch worktree with the patch applied)",
        "detected_by": {}}
json.dump(meta, open(os.path.join(d, "meta.json"), "w"), indent=1)
if not ok:
    print("NOT CONFIRMED - keep out of seeded/ until understood")
    sys.exit(1)
subprocess.run([sys.executable, os.path.join(V, "tools", "seedall.py"), "quick", d])
