#!/bin/sh
# tools/seedrun.sh <seeded-dir> [tier] [ID ...]
# Applies seeded/<name>/patch.diff to a scratch worktree of /repo's HEAD, runs the
# demonstration and the named checks (default: the property in meta.json) against
# it via QV_REPO, prints the verdict lines, and removes the worktree.
D="$(realpath "$1")"; TIER="${2:-quick}"; shift; shift 2>/dev/null
[ -f "$D/patch.diff" ] || { echo "no patch in $D"; exit 2; }
IDS="$*"
[ -n "$IDS" ] || IDS="$(python3 -c "import json,sys; print(json.load(open('$D/meta.json'))['property'])")"
W="$(mktemp -d /tmp/qv_seed.XXXXXX)"; rmdir "$W"
git -C /repo worktree add --detach "$W" HEAD >/dev/null 2>&1 || exit 2
if ! git -C "$W" apply --whitespace=nowarn "$(realpath "$D/patch.diff")"; then echo "PATCH DOES NOT APPLY"; git -C /repo worktree remove --force "$W"; exit 2; fi
if [ -f "$D/demo.py" ]; then
  (cd "$W" && PYTHONPATH=/verif/qv/shim:"$W" OMP_NUM_THREADS=1 timeout 600 /venv/bin/python "$(realpath "$D/demo.py")" >/dev/null 2>&1; echo "demo exit with patch: $?")
fi
cd /verif
for ID in $IDS; do
  QV_REPO="$W" QV_JOBS="${QV_JOBS:-16}" ./check "$ID" "$TIER" 2>&1 | grep -E "VIOLATION|KNOWN-FINDING|INCONCLUSIVE|status=" | cut -c1-260 | head -12
done
git -C /repo worktree remove --force "$W"
