#!/usr/bin/env python3
"""tools/benignall.py [tier] [benign-dir ...]
Runs every property-PRESERVING change kept under benign/ (or the named ones)
against its property's check(s) via a scratch worktree (QV_REPO). Every check
must stay silent (exit 0; exit 2 = inconclusive is reported separately).
Records the outcome in benign/<name>/meta.json ("outcome")."""
import json, os, subprocess, sys, tempfile, glob

V = os.path.dirname(os.path.dirname(os.path.abspath(__file__)))
tier = sys.argv[1] if len(sys.argv) > 1 and sys.argv[1] in ("quick", "thorough") else "quick"
dirs = [a for a in sys.argv[1:] if a not in ("quick", "thorough")] or sorted(glob.glob(os.path.join(V, "benign", "*")))
bad = 0
for d in dirs:
    d = os.path.abspath(d)
    if not os.path.exists(os.path.join(d, "patch.diff")):
        continue
    meta = json.load(open(os.path.join(d, "meta.json")))
    props = meta.get("checks") or [meta["property"]]
    w = tempfile.mkdtemp(prefix="qv_benign.", dir="/tmp"); os.rmdir(w)
    subprocess.run(["git", "-C", "/repo", "worktree", "add", "--detach", w, "HEAD"], capture_output=True)
    ap = subprocess.run(["git", "-C", w, "apply", "--whitespace=nowarn", os.path.join(d, "patch.diff")], capture_output=True, text=True)
    res = {}
    if ap.returncode != 0:
        res = {"error": "patch does not apply: " + ap.stderr[:200]}
    else:
        for pid in props:
            env = dict(os.environ, QV_REPO=w)
            r = subprocess.run([os.path.join(V, "check"), pid, tier], capture_output=True, text=True, env=env, cwd=V)
            ev = os.path.join(V, ".work", "scratch_out", "evidence", f"{pid}.json")
            keys = []
            if os.path.exists(ev):
                keys = json.load(open(ev))["coverage"].get("unlisted_violation_keys", [])
            last = [l for l in r.stdout.splitlines() if "status=" in l or "INCONCLUSIVE" in l][-1:]
            res[pid] = {"exit": r.returncode, "n_keys": len(keys), "keys": keys[:12], "summary": (last[0][:200] if last else "")}
    subprocess.run(["git", "-C", "/repo", "worktree", "remove", "--force", w], capture_output=True)
    meta.setdefault("outcome", {})[tier] = res
    json.dump(meta, open(os.path.join(d, "meta.json"), "w"), indent=1)
    ok = all(isinstance(v, dict) and v.get("exit") == 0 for v in res.values())
    bad += 0 if ok else 1
    print(os.path.basename(d), "silent" if ok else "ALARM/INCONCLUSIVE", {k: (v.get("exit"), v.get("n_keys")) if isinstance(v, dict) else v for k, v in res.items()}, flush=True)
sys.exit(1 if bad else 0)
