"""Regenerates MANIFEST.json from the table below (keeps it schema-valid)."""
import json, os, sys
HERE = os.path.dirname(os.path.dirname(os.path.abspath(__file__)))
sys.path.insert(0, HERE)
from tools.manifest_table import CHECKS, NOT_APPLICABLE, HOOK_COMMITS  # noqa: E402

m = {
    "version": 1,
    "setup_cmd": "./setup.sh",
    "hooks": {
        "guard": "QUARA_VERIF",
        "enable": "no source hooks: monitors are attached at run time by qv/monitor.py (function wrapping + sys.monitoring) to quara imported from /repo's working tree; checks export QUARA_VERIF=1 for symmetry",
        "baseline_off_cmd": "cd /repo && env -u QUARA_VERIF /venv/bin/python -m pytest -ra -q -p no:cacheprovider --timeout=900 --continue-on-collection-errors",
        "source_commits": HOOK_COMMITS,
        "add_only": True,
    },
    "engines": [{"name": "qv", "path": "qv/", "serves_properties": [c["id"] for c in CHECKS],
                 "kind_free_text": "runtime monitoring: contracts with reference-model oracles hooked onto the real quara functions, purity (byte digest) monitor, offline checkers over recorded event logs, sys.monitoring reach accounting; sharded hostile workloads"}],
    "checks": [],
    "not_applicable": NOT_APPLICABLE,
    "notes": "All checks: ./check <ID> <quick|thorough>; exit 0 held / 1 violation / 2 inconclusive. VERIF_SEED selects the workload seed. known_findings.json lists recorded defects.",
}
for c in CHECKS:
    m["checks"].append({
        "property_id": c["id"],
        "quick_cmd": f"./check {c['id']} quick",
        "thorough_cmd": f"./check {c['id']} thorough",
        "evidence_file": f"evidence/{c['id']}.json",
        "replay_cmd_template": f"./check {c['id']} --replay {{path}}",
        "engine": "qv",
        "level_claimed": {"category": "exploration", "text": c["text"], "design_ref": c["design"]},
        "level_note": c["note"],
        "technique": c["technique"],
    })
json.dump(m, open(os.path.join(HERE, "MANIFEST.json"), "w"), indent=1)
import jsonschema  # type: ignore
jsonschema.validate(m, json.load(open("/root/.vp/MANIFEST.schema.json")))
print("MANIFEST.json written:", len(m["checks"]), "checks,", len(NOT_APPLICABLE), "not applicable")
