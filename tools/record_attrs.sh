#!/bin/sh
# tools/record_attrs.sh : records, on the CURRENT (pinned + fix commits) tree, the attribute names that make up the
# state of every quara class the purity digests ever see, by running every check's quick tier once with
# QV_RECORD_ATTRS set, and merges them into qv/observable_attrs.json (see qv/monitor.py, _OBS).
# Only to be run on the unchanged tree; the table is committed and read-only at check time.
cd "$(dirname "$0")/.."
D="$(mktemp -d /tmp/qv_attrs.XXXXXX)"
for c in C01 C02 C03 C04 C05 C06 C07 C08 C09 C10 C11 C12 C13 C14 C15 C16 C17 C18 C19 C20; do
  QV_RECORD_ATTRS="$D/rec" QV_JOBS="${QV_JOBS:-12}" ./check $c quick 2>&1 | tail -1 | cut -c1-90
done
python3 - "$D" <<'PY'
import glob, json, sys, os
d = sys.argv[1]
tab = {}
p = os.path.join("qv", "observable_attrs.json")
if os.path.exists(p) and os.environ.get("QV_ATTRS_MERGE"):
    tab = {k: set(v) for k, v in json.load(open(p)).items()}
for f in glob.glob(os.path.join(d, "rec.*.json")):
    for k, v in json.load(open(f)).items():
        tab.setdefault(k, set()).update(v)
json.dump({k: sorted(v) for k, v in sorted(tab.items())}, open(p, "w"), indent=0)
print(len(tab), "classes,", sum(len(v) for v in tab.values()), "attributes ->", p)
PY
rm -rf "$D"
