#!/usr/bin/env python3
"""tools/benignadd.py <name e.g. B-C05-1> <src dir with patch.diff demo.py notes.md> <change> [extra-check-ids...]
Copies a property-PRESERVING change into benign/<name>, confirms it (demo exits 0 on both trees, pinned suite passes
with the patch; tools/seedverify.sh) and runs the property's check(s) against it (benignall quick): they must stay silent."""
import json, os, shutil, subprocess, sys
V = os.path.dirname(os.path.dirname(os.path.abspath(__file__)))
name, src, change = sys.argv[1:4]
extra = sys.argv[4:]
prop = [p for p in name.split("-") if p.startswith("C")][0]
d = os.path.join(V, "benign", name)
os.makedirs(d, exist_ok=True)
for f in ("patch.diff", "demo.py", "notes.md"):
    shutil.copy(os.path.join(src, f), os.path.join(d, f))
r = subprocess.run([os.path.join(V, "tools", "seedverify.sh"), d], capture_output=True, text=True)
print(r.stdout.strip(), r.stderr.strip()[-300:])
ok = "demo_exit_original=0 demo_exit_patched=0" in r.stdout and "113 passed" in r.stdout
meta = {"property": prop, "checks": [prop] + extra, "change": change,
        "origin": "fresh sub-agent given only the property text and its own scratch worktree, asked for a legitimate change that keeps the property true",
        "confirmed": "tools/seedverify.sh: " + r.stdout.strip(),
        "outcome": {}}
json.dump(meta, open(os.path.join(d, "meta.json"), "w"), indent=1)
if not ok:
    print("NOT CONFIRMED (demo must exit 0 on both trees, suite must pass)")
    sys.exit(1)
sys.exit(subprocess.run([sys.executable, os.path.join(V, "tools", "benignall.py"), "quick", d]).returncode)
