#!/usr/bin/env python3
"""tools/seedall.py [tier] [seed-dir ...]
Runs every seeded change (or the named ones) against its property's check via a
scratch worktree (QV_REPO), records which violation keys fired in
seeded/<name>/meta.json ("detected_by") and prints a table for DESIGN.md."""
import json, os, subprocess, sys, tempfile, glob

V = os.path.dirname(os.path.dirname(os.path.abspath(__file__)))
tier = sys.argv[1] if len(sys.argv) > 1 and sys.argv[1] in ("quick", "thorough") else "quick"
dirs = [a for a in sys.argv[1:] if a not in ("quick", "thorough")] or sorted(glob.glob(os.path.join(V, "seeded", "*")))
rows = []
for d in dirs:
    d = os.path.abspath(d)
    if not os.path.exists(os.path.join(d, "patch.diff")):
        continue
    meta = json.load(open(os.path.join(d, "meta.json")))
    props = meta.get("checks") or [meta["property"]]
    w = tempfile.mkdtemp(prefix="qv_seed.", dir="/tmp"); os.rmdir(w)
    subprocess.run(["git", "-C", "/repo", "worktree", "add", "--detach", w, "HEAD"], capture_output=True)
    ap = subprocess.run(["git", "-C", w, "apply", "--whitespace=nowarn", os.path.join(d, "patch.diff")], capture_output=True, text=True)
    res = {}
    if ap.returncode != 0:
        res = {"error": "patch does not apply: " + ap.stderr[:200]}
    else:
        for pid in props:
            env = dict(os.environ, QV_REPO=w)
            r = subprocess.run([os.path.join(V, "check"), pid, tier], capture_output=True, text=True, env=env, cwd=V)
            ev = os.path.join(V, ".work", "scratch_out", "evidence", f"{pid}.json")
            keys = []
            if os.path.exists(ev):
                keys = json.load(open(ev))["coverage"].get("unlisted_violation_keys", [])
            res[pid] = {"exit": r.returncode, "n_keys": len(keys), "keys": keys[:12]}
    subprocess.run(["git", "-C", "/repo", "worktree", "remove", "--force", w], capture_output=True)
    meta.setdefault("detected_by", {})[tier] = res
    json.dump(meta, open(os.path.join(d, "meta.json"), "w"), indent=1)
    caught = any(isinstance(v, dict) and v.get("exit") == 1 for v in res.values())
    rows.append((os.path.basename(d), meta["property"], "caught" if caught else "MISSED", res))
    print(os.path.basename(d), "caught" if caught else "MISSED", {k: (v.get("exit"), v.get("n_keys")) if isinstance(v, dict) else v for k, v in res.items()}, flush=True)
