#!/bin/sh
# Runs the WHOLE upstream quara test-suite (not only the 113 pinned tests) under
# the kron shim on a scratch worktree of /repo's current HEAD plus uncommitted
# tracked changes, and writes the sorted list of passed test ids to $1.
# Used to judge whether a candidate "fix:" is safe (no new upstream failure):
#   tools/upstream.sh /tmp/after.txt && comm -23 tools/upstream_baseline.txt /tmp/after.txt
set -e
OUT="${1:?output file}"
W="$(mktemp -d /tmp/qv_up.XXXXXX)"
rmdir "$W"
git -C /repo worktree add --detach "$W" HEAD >/dev/null 2>&1
git -C /repo diff HEAD | (cd "$W" && git apply --allow-empty 2>/dev/null || true)
cd "$W"
PYTHONPATH="/verif/qv/shim:$W" OMP_NUM_THREADS=1 OPENBLAS_NUM_THREADS=1 MPLBACKEND=Agg /venv/bin/python -m pytest -q -p no:cacheprovider \
   --timeout=900 --continue-on-collection-errors -rA -n 14 > "$W/.out.txt" 2>&1 || true
grep '^PASSED ' "$W/.out.txt" | sed 's/^PASSED //' | sort > "$OUT.tmp" || true
tail -1 "$W/.out.txt" >&2
mv "$OUT.tmp" "$OUT"
cd /
git -C /repo worktree remove --force "$W"
