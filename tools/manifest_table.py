HOOK_COMMITS = []
_NOTE = ("held on the executions observed only; trusted base: numpy/scipy linear algebra, the independent reference model qv/ref.py "
         "(self-tested by setup), the inert kron shim, CPython sys.monitoring")
CHECKS = [
    {"id": "C01", "design": "DESIGN.md#c01-physicality-verdicts",
     "technique": "runtime contracts on the verdict functions with a reference-model oracle (three-zone tolerance rule)",
     "text": "Every execution of every physicality verdict function (object and matrix level, incl. calls made inside constructors) is judged by a post-condition that recomputes the violation sizes of the denoted operators from raw parameters with an independent dense reference; workloads cover 4 types x 4 shapes x 5 bases x boundary/non-physical ladders x atol ladder. Exploration: says 'held on N observed executions'.",
     "note": _NOTE},
]
_TODO = "check not built yet in this session (planned, see DESIGN.md section 4)"
NOT_APPLICABLE = [{"property_id": f"C{n:02d}", "reason": _TODO} for n in range(2, 21)]

CHECKS += [
    {"id": "C05", "design": "DESIGN.md#c05-physical-projection",
     "technique": "runtime contracts on calc_proj_physical(_with_var) with reference oracles: feasibility, variational inequality, independent SDP (Clarabel) and independent reference Dykstra, iteration-history trace checker",
     "text": "Every execution of the object- and variable-level physical projection (driven with the iteration history on, 4 types x S1,S3,S2 x both flags x both orders x eps 1e-6..1e-14, near/far/physical/boundary inputs) is judged for termination by criterion, feasibility and optimality to the accuracy sqrt(eps) implied by the stopping threshold (nearest point certified three independent ways), fixed points, and consistency of the recorded p,q,x,y,error_value trace with the Dykstra recurrences and with reference projections; cross-form agreement (orders, object/variable/closure forms) by the driver.",
     "note": _NOTE + "; cvxpy+Clarabel as oracle solver only; accuracy claims only to the sigma=sqrt(eps) scaled tolerances (30 sigma pass, 3000 sigma violation)"},
    {"id": "C09", "design": "DESIGN.md#c09-linear-estimation",
     "technique": "runtime contracts on LinearEstimator.calc_estimate(_sequence) and result accessors: normal-equation residual, exact-data recovery, bitwise sequence/one-at-a-time and sample-count independence",
     "text": "Every execution of the linear estimator on informationally complete tester sets (4 tomography types x both flags x S1,S3,S2; interior/boundary/pure truths; exact, sampled, non-normalised and negative data) is judged by a post-condition: least-squares normal equations with A,b read from the tomography, recovery of the true object from exact data (tolerance scaled by cond(A)^2), bitwise equality of sequence vs single estimates and under replaced sample counts, and the library's own consistency check. Behaviour on non-IC tester sets is recorded, not judged (the statement quantifies over IC sets only).",
     "note": _NOTE + "; executions with cond(A) > 1e4 are not judged"},
    {"id": "C14", "design": "DESIGN.md#c14-sampled-data-and-empirical-distributions",
     "technique": "runtime contracts on the data generators and empirical-distribution functions (integer-count and prefix oracles, inversion-interval oracle with recorded uniform numbers), history checker for seed reproducibility under interleaved random draws, adversarial generator stubs, fixed-bound distribution test",
     "text": "Every execution of the data-generation / empirical-distribution entry points (data_generator, Experiment, MultinomialDistribution sampling, the four tomography classes) is judged: data in range with non-zero probability, empirical distributions = integer counts / n of exactly the requested prefix, cumulative consistency; seeded calls reproduced bitwise after arbitrary interleavings of other random draws; shared generators advance; adversarial uniform streams at every cumulative boundary +-1ulp; 200k-draw distribution agreement with an astronomically safe three-zone bound.",
     "note": _NOTE + "; statistical oracles use fixed bounds (|z|>=12, chi-square twice the 1e-12 quantile) so that chance firing is negligible; side effects on numpy's global state are recorded, not judged"},
    {"id": "C16", "design": "DESIGN.md#c16-probability-bookkeeping",
     "technique": "runtime contracts on index_util, MultinomialDistribution (constructor, indexing, marginalize, conditionalize), StateEnsemble.state, validate_prob_dist, ProbDist indexing against explicit-loop reference; exhaustive enumeration of index maps",
     "text": "Index maps are enumerated exhaustively (780 shapes, 54240 pairs) against numpy's row-major definition; every constructor / marginalize / conditionalize execution is judged against explicit-loop sums, renormalised slices and joint = marginal x conditional cell by cell (all ordered subsets and assignments in the thorough tier); ensembles from MProcess o State and MProcess o StateEnsemble (different outcome counts per step, zero-probability branches) are checked against Kraus-operator histories of the reference model.",
     "note": _NOTE},
]
NOT_APPLICABLE = [x for x in NOT_APPLICABLE if x["property_id"] not in {c["id"] for c in CHECKS}]
