HOOK_COMMITS = []
_NOTE = ("held on the executions observed only; trusted base: numpy/scipy linear algebra, the independent reference model qv/ref.py "
         "(self-tested by setup), the inert kron shim, CPython sys.monitoring")
CHECKS = [
    {"id": "C01", "design": "DESIGN.md#c01-physicality-verdicts",
     "technique": "runtime contracts on the verdict functions with a reference-model oracle (three-zone tolerance rule)",
     "text": "Every execution of every physicality verdict function (object and matrix level, incl. calls made inside constructors) is judged by a post-condition that recomputes the violation sizes of the denoted operators from raw parameters with an independent dense reference; workloads cover 4 types x 4 shapes x 5 bases x boundary/non-physical ladders x atol ladder. Exploration: says 'held on N observed executions'.",
     "note": _NOTE},
]
_TODO = "check not built yet in this session (planned, see DESIGN.md section 4)"
NOT_APPLICABLE = [{"property_id": f"C{n:02d}", "reason": _TODO} for n in range(2, 21)]
