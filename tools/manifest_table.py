HOOK_COMMITS = []
_NOTE = ("held on the executions observed only; trusted base: numpy/scipy linear algebra, the independent reference model qv/ref.py "
         "(self-tested by setup), the inert kron shim, CPython sys.monitoring")
CHECKS = [
    {"id": "C01", "design": "DESIGN.md#c01-physicality-verdicts",
     "technique": "runtime contracts on the verdict functions with a reference-model oracle (three-zone tolerance rule)",
     "text": "Every execution of every physicality verdict function (object and matrix level, incl. calls made inside constructors) is judged by a post-condition that recomputes the violation sizes of the denoted operators from raw parameters with an independent dense reference; workloads cover 4 types x 4 shapes x 5 bases x boundary/non-physical ladders x atol ladder. Exploration: says 'held on N observed executions'.",
     "note": _NOTE},
]
_TODO = "check not built yet in this session (planned, see DESIGN.md section 4)"
NOT_APPLICABLE = [{"property_id": f"C{n:02d}", "reason": _TODO} for n in range(2, 21)]

CHECKS += [
    {"id": "C05", "design": "DESIGN.md#c05-physical-projection",
     "technique": "runtime contracts on calc_proj_physical(_with_var) with reference oracles: feasibility, variational inequality, independent SDP (Clarabel) and independent reference Dykstra, iteration-history trace checker",
     "text": "Every execution of the object- and variable-level physical projection (driven with the iteration history on, 4 types x S1,S3,S2 x both flags x both orders x eps 1e-6..1e-14, near/far/physical/boundary inputs) is judged for termination by criterion, feasibility and optimality to the accuracy sqrt(eps) implied by the stopping threshold (nearest point certified three independent ways), fixed points, and consistency of the recorded p,q,x,y,error_value trace with the Dykstra recurrences and with reference projections; cross-form agreement (orders, object/variable/closure forms) by the driver.",
     "note": _NOTE + "; cvxpy+Clarabel as oracle solver only; accuracy claims only to the sigma=sqrt(eps) scaled tolerances (30 sigma pass, 3000 sigma violation)"},
    {"id": "C09", "design": "DESIGN.md#c09-linear-estimation",
     "technique": "runtime contracts on LinearEstimator.calc_estimate(_sequence) and result accessors: normal-equation residual, exact-data recovery, bitwise sequence/one-at-a-time and sample-count independence",
     "text": "Every execution of the linear estimator on informationally complete tester sets (4 tomography types x both flags x S1,S3,S2; interior/boundary/pure truths; exact, sampled, non-normalised and negative data) is judged by a post-condition: least-squares normal equations with A,b read from the tomography, recovery of the true object from exact data (tolerance scaled by cond(A)^2), bitwise equality of sequence vs single estimates and under replaced sample counts, and the library's own consistency check. Behaviour on non-IC tester sets is recorded, not judged (the statement quantifies over IC sets only).",
     "note": _NOTE + "; executions with cond(A) > 1e4 are not judged"},
    {"id": "C14", "design": "DESIGN.md#c14-sampled-data-and-empirical-distributions",
     "technique": "runtime contracts on the data generators and empirical-distribution functions (integer-count and prefix oracles, inversion-interval oracle with recorded uniform numbers), history checker for seed reproducibility under interleaved random draws, adversarial generator stubs, fixed-bound distribution test",
     "text": "Every execution of the data-generation / empirical-distribution entry points (data_generator, Experiment, MultinomialDistribution sampling, the four tomography classes) is judged: data in range with non-zero probability, empirical distributions = integer counts / n of exactly the requested prefix, cumulative consistency; seeded calls reproduced bitwise after arbitrary interleavings of other random draws; shared generators advance; adversarial uniform streams at every cumulative boundary +-1ulp; 200k-draw distribution agreement with an astronomically safe three-zone bound.",
     "note": _NOTE + "; statistical oracles use fixed bounds (|z|>=12, chi-square twice the 1e-12 quantile) so that chance firing is negligible; side effects on numpy's global state are recorded, not judged"},
    {"id": "C16", "design": "DESIGN.md#c16-probability-bookkeeping",
     "technique": "runtime contracts on index_util, MultinomialDistribution (constructor, indexing, marginalize, conditionalize), StateEnsemble.state, validate_prob_dist, ProbDist indexing against explicit-loop reference; exhaustive enumeration of index maps",
     "text": "Index maps are enumerated exhaustively (780 shapes, 54240 pairs) against numpy's row-major definition; every constructor / marginalize / conditionalize execution is judged against explicit-loop sums, renormalised slices and joint = marginal x conditional cell by cell (all ordered subsets and assignments in the thorough tier); ensembles from MProcess o State and MProcess o StateEnsemble (different outcome counts per step, zero-probability branches) are checked against Kraus-operator histories of the reference model.",
     "note": _NOTE},
]
NOT_APPLICABLE = [x for x in NOT_APPLICABLE if x["property_id"] not in {c["id"] for c in CHECKS}]

CHECKS += [
    {"id": "C03", "design": "DESIGN.md#c03-variables--objects",
     "technique": "runtime contracts on every var/object/stacked-vector converter and index map with a constraint-derived reference; exhaustive enumeration of variable indices per configuration",
     "text": "All variable <-> object <-> stacked-vector conversions of the four classes, the eight index converters, calc_gradient, SetQOperations total/local index maps and rebuild, and num_variables of the four tomography classes are hooked; post-conditions compare with implied entries derived independently from the constraints and with an all-distinct probe vector that identifies which entry holds which variable. Index parts are exhaustive over all 80 configurations (4 types x flags x m 2..5 x S1,S3,S2,S23; 50,831 indices).",
     "note": _NOTE},
    {"id": "C04", "design": "DESIGN.md#c04-constraint-projections-are-nearest-points",
     "technique": "runtime contracts on the eq/ineq projections (object, static and closure forms) with reference orthogonal projection / eigen-clipping, variational-inequality oracle, byte-digest purity monitor",
     "text": "Every execution of calc_proj_eq/ineq_constraint, their _with_var forms and the four func_calc_proj_* closures for the four classes is judged: reference feasibility, equality with the independently derived nearest point (affine projection / PSD clipping), variational inequality against 50 feasible points, idempotence, fixed points, agreement of all forms under both flags, and byte-identical operands afterwards. Inputs: Gaussian parameters at scales 1e-3,1,1e3, degenerate spectra, feasible and boundary points, m 2..5, S1,S3,S2,S23.",
     "note": _NOTE + "; one known finding (projection raises at scale 1e3 through an absolute imaginary-part threshold) is listed in known_findings.json"},
    {"id": "C08", "design": "DESIGN.md#c08-forward-model",
     "technique": "runtime contracts on calc_matA/calc_vecB/calc_prob_dist(s)/generate_prob_dists_sequence/num_variables/num_outcomes/is_fullrank_matA; affine maps compared on an affine basis against the real circuit and a reference Born rule",
     "text": "The affine model (A,b) of the four tomography classes is compared column by column (var=0 and all unit vectors) with a reference Born rule built from raw arrays, and on an affine basis of physical objects with the distribution the real Experiment circuit returns, including outcome order; column count, num_outcomes, full column rank for informationally complete tester sets (IC judged independently from the testers' operator span). Tester sets with mixed outcome counts, IC and non-IC, schedule subsets/repetitions/permutations, both flags, S1,S3,S2.",
     "note": _NOTE + "; is_fullrank_matA on non-IC (under-determined) sets is recorded, not judged"},
    {"id": "C12", "design": "DESIGN.md#c12-loss-values-derivatives-fast-paths",
     "technique": "runtime contracts on value/gradient/hessian of all loss classes and entropy helpers: defining-formula reference, exact second-difference / Romberg finite-difference derivative oracles, fast-vs-generic comparison, weighting-mode effect oracle",
     "text": "Every value/gradient/hessian execution of the generic and tomography-specialised losses (freshly constructed per configuration) is compared with the defining formula on p=A var+b, the data and the weights the option asked for; gradients and Hessians with finite differences of the reported value; fast with generic; every accepted weighting mode must take effect (m 2..5 outcomes, 4 tomography types x flags, zero entries, custom SPD weights, all modes).",
     "note": _NOTE + "; inverse-covariance weights are accepted in the textbook or the implementation's ridge-regularised form (docstrings do not fix it)"},
    {"id": "C20", "design": "DESIGN.md#c20-schedule-validation",
     "technique": "runtime contracts on Experiment constructor/setters/calc_prob_dist and the tomography constructors against an independent well-formedness predicate; exhaustive enumeration of schedules",
     "text": "All 475,255 schedules of length 0..4 over a 26-item alphabet (4 kinds x in/out-of-range indices + malformed items) x 3 list-size configurations (thorough: more configurations and all length-5 well-typed schedules) are constructed; acceptance must equal a 25-line predicate transcribed from the statement, rejections must be the schedule-item/order error, rejected setters leave the experiment unchanged, accepted schedules ending in their only POVM execute to a normalised distribution; every custom schedule of length <= 4 for the four tomography classes.",
     "note": _NOTE + "; bool / numpy-integer indices and tuple/str subclasses are left unjudged as the statement does not settle them"},
]
NOT_APPLICABLE = [x for x in NOT_APPLICABLE if x["property_id"] not in {c["id"] for c in CHECKS}]

CHECKS += [
    {"id": "C06", "design": "DESIGN.md#c06-composition",
     "technique": "runtime contracts on compose_qoperations (every binary step and every n-ary fold), MProcess.to_povm and Povm.generate_mprocess with a reference super-operator algebra; exhaustive enumeration of type patterns and bracketings of chains",
     "text": "Every binary composition step (12 type pairs) and n-ary fold is judged against the same chain evaluated on operators by the reference (Kraus action, Born rule, Heisenberg picture, probabilities with normalised post-states, eps_zero truncation accepted either way); every type-valid chain [S](G|M)*[P] of length 2..4 (thorough 5) is evaluated through every Catalan bracketing plus flat/list calls and all must agree as arrays with the reference joint distribution laid out earliest-measurement-first (factors have pairwise different outcome counts); results of physical operands must be physical; generate_mprocess modes 0/1/2 induce the POVM and the prescribed post-states.",
     "note": _NOTE + "; one known finding (post-state of an outcome with eps_zero < p <~ 1e-3 fails the physicality validation through amplified round-off) is listed in known_findings.json"},
    {"id": "C07", "design": "DESIGN.md#c07-tensor-products-and-embeddings",
     "technique": "runtime contracts on tensor_product (all type pairs, inner recursive calls included) and embed_qoperation_from_qutrits_to_qubits against Kronecker products arranged by subsystem name; enumeration of argument orders and groupings",
     "text": "Every tensor_product execution is judged: sorted subsystem union, operator = Kronecker product of the factors arranged by name (channels as Liouville matrices), reported outcome shape a permutation of the factors' pairwise different counts with each multi-index element equal to the Kronecker product of the factors' elements; product states stay product, product gates act factor-wise, product measurements give product statistics; all argument orders x grouping trees for 2-4 named subsystems of dimensions 2/3 with non-contiguous names. Embedding: physicality preserved and Born statistics of embedded (state, gate|mprocess, povm) chains unchanged.",
     "note": _NOTE + "; two known findings (MProcess (x) MProcess element layout vs reported shape; joint POVM factor on non-adjacent subsystems raises) are listed in known_findings.json; channel products limited to <= 3 qubits / 2 qutrits by memory"},
]
NOT_APPLICABLE = [x for x in NOT_APPLICABLE if x["property_id"] not in {c["id"] for c in CHECKS}]

CHECKS += [
    {"id": "C02", "design": "DESIGN.md#c02-representations-denote-one-operator",
     "technique": "runtime contracts on 50 conversion functions/methods comparing input and output as operators / super-operators with the reference model; linear conversions decided per configuration on a complete real basis of the input space plus linearity",
     "text": "Every hooked conversion (vec/density/POVM matrices, HS, Choi x3 implementations, Kraus, process matrix, computational-basis forms row/column major, convert_hs / convert_vec / convert_basis, truncate_hs) is compared with its defining formula evaluated by the reference; alternative implementations, round trips and linearity are checked by the driver. Linear conversions are evaluated on a complete real basis of their input space per (type, shape, Hermitian orthonormal basis) configuration - two linear maps agreeing on a basis agree everywhere - and the non-linear ones (Kraus extraction, truncation) on random CP maps of every Kraus rank and on matrices straddling the thresholds.",
     "note": _NOTE + "; shapes beyond 2 qubits / qubit x qutrit are not driven; non-orthonormal or non-Hermitian bases are not judged"},
    {"id": "C18", "design": "DESIGN.md#c18-lindbladian-generators",
     "technique": "runtime contracts on the EffectiveLindbladian generators, extractors, part functions, verdicts, projections and to_gate against the GKSL right-hand side and a Choi/process-matrix decomposition of the reference; three-zone rule for verdicts",
     "text": "Generators built from H, K and jump operators (1..d^2, non-zero trace) are compared in their action on a complete set of states with the GKSL equation; extracted H,J,K (incl. the identity component of J) with the unique decomposition derived from the Choi matrix; parts sum to the whole in both bases; extraction->rebuild reproduces hs; is_physical <=> first row zero and K PSD (three zones, indefinite K of controlled negativity); to_gate equals expm and is physical; eq projection zeroes exactly the first row; ineq projection gives PSD K and fixes physical generators; sparse tables equal their dense definitions. S1, S3, S2; strengths over 4 decades.",
     "note": _NOTE + "; one known finding (jump-operator J part uses c instead of c^dagger c; six keys of one mechanism, each verified to equal exactly that formula) is listed in known_findings.json"},
    {"id": "C19", "design": "DESIGN.md#c19-analytical-error-formulas",
     "technique": "runtime contracts on the analytical covariance / MSE / Fisher / Cramer-Rao functions against exact expectations by complete enumeration of multinomial outcomes (running the real LinearEstimator on every count vector); helper functions against explicit-loop definitions",
     "text": "For every schedule all count vectors are enumerated with integer multinomial weights; covariance = E[(f-p)(f-p)^T], MSE of the linear estimate in variable and object parametrisation = enumeration over one schedule at a time (decomposition proved in the module) through the real estimator, Fisher = E[score score^T], CRB = Tr F^-1/N (+ documented implied-element term for POVMs), scaling law beyond enumerable sizes; boundary truths against the documented eps rule; calc_se, calc_mse_prob_dists (mean, ddof=1 std), calc_direct_sum, calc_left_inv, calc_conjugate, compare_to_analytical against explicit definitions. 4 tomography types x flags x both modes, testers with 2..4 outcomes, n_j <= 8.",
     "note": _NOTE + "; cases with cond(F) > 1e13 or probabilities in (1e-10,1e-6) are not judged"},
]
NOT_APPLICABLE = [x for x in NOT_APPLICABLE if x["property_id"] not in {c["id"] for c in CHECKS}]
