# Harness shim (never part of /repo): scipy >= 1.14 removed scipy.linalg.kron,
# which quara/objects/composite_system.py imports but never calls.  Restoring
# the name lets the object modules import; see DESIGN.md section 1.
try:
    import scipy.linalg as _sl

    if not hasattr(_sl, "kron"):
        import numpy as _np

        _sl.kron = _np.kron
except Exception:  # pragma: no cover - scipy absent: nothing to shim
    pass
