"""Entry point of one shard process:  python -m qv.shard <spec.json> <out.json>"""
import faulthandler
import importlib
import json
import os
import sys
import time


def main():
    spec = json.load(open(sys.argv[1]))
    out = sys.argv[2]
    from qv import env

    env.bootstrap()
    faulthandler.enable()
    if spec.get("watchdog_s"):
        # where was a hung shard? (the parent's timeout decides, not this)
        faulthandler.dump_traceback_later(max(5, spec["watchdog_s"] - 5), exit=False)
    import numpy as np

    np.seterr(all="ignore")
    import warnings

    warnings.filterwarnings("ignore")
    from qv.rec import Ctx
    from qv.monitor import Reach

    mod = importlib.import_module(f"qv.checks.{spec['prop'].lower()}")
    ctx = Ctx(spec["prop"], spec["tier"], spec["seed"], spec["shard_index"], spec["params"], only_case=spec.get("only_case"))
    if spec.get("replay"):
        ctx.verbose = True
    anchors = list(getattr(mod, "ANCHORS", []))
    reach = Reach(env.REPO, anchors)
    use_reach = not os.environ.get("QV_NO_REACH")
    if use_reach:
        reach.start()
    try:
        mod.run_shard(ctx)
    except Exception as e:  # harness/check bug or unexpected quara crash outside attempt()
        import traceback

        ctx.mark_inconclusive(f"shard crashed: {type(e).__name__}: {e}\n{traceback.format_exc(limit=12)}")
    finally:
        if use_reach:
            reach.stop()
    ctx.dump(out, reach=reach.table() if use_reach else {})


if __name__ == "__main__":
    main()
