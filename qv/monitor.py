"""Monitors attached to the *real* quara functions.

hook()     wraps a function / method / staticmethod / property-less attribute
           in place; pre() takes a snapshot, post() is an oracle that records
           into the Ctx and never raises into quara's control flow.
Reach      sys.monitoring based entry counter for quara code objects.
digest()   byte-level digest of everything observable about a value (purity
           monitor): arrays, sparse matrices, quara objects' public data.
"""
import functools
import hashlib
import inspect
import json
import os
import sys
import types

import numpy as np

# --------------------------------------------------------------------- hooks


class HookSet:
    """A set of installed hooks with evaluation counters; uninstallable."""

    def __init__(self, ctx=None):
        self.ctx = ctx
        self.counts = {}
        self._undo = []
        self.enabled = True
        self.depth = 0  # oracles may call quara; do not observe those calls

    def _wrap(self, label, orig, pre, post, on_exc):
        hs = self
        hs.counts.setdefault(label, 0)

        @functools.wraps(orig)
        def wrapper(*args, **kwargs):
            if not hs.enabled or hs.depth > 0:
                return orig(*args, **kwargs)
            snap = None
            if pre is not None:
                hs.depth += 1
                try:
                    snap = pre(*args, **kwargs)
                except Exception as e:  # monitor bug: inconclusive, not a verdict
                    if hs.ctx is not None:
                        hs.ctx.mark_inconclusive(f"pre-hook {label} raised {type(e).__name__}: {e}")
                finally:
                    hs.depth -= 1
            try:
                result = orig(*args, **kwargs)
            except Exception as exc:
                hs.counts[label] += 1
                if on_exc is not None:
                    hs.depth += 1
                    try:
                        on_exc(exc, snap, *args, **kwargs)
                    except Exception as e:
                        if hs.ctx is not None:
                            hs.ctx.mark_inconclusive(f"exc-hook {label} raised {type(e).__name__}: {e}")
                    finally:
                        hs.depth -= 1
                raise
            hs.counts[label] += 1
            if post is not None:
                hs.depth += 1
                try:
                    post(result, snap, *args, **kwargs)
                except Exception as e:
                    if hs.ctx is not None:
                        import traceback

                        tb = traceback.format_exc(limit=6)
                        hs.ctx.mark_inconclusive(f"post-hook {label} raised {type(e).__name__}: {e}\n{tb}")
                finally:
                    hs.depth -= 1
            return result

        wrapper.__qv_orig__ = orig
        return wrapper

    def method(self, cls, name, post=None, pre=None, on_exc=None, label=None):
        """Hook cls.name (instance method, staticmethod or classmethod)."""
        label = label or f"{cls.__name__}.{name}"
        try:
            raw = inspect.getattr_static(cls, name)
        except AttributeError:
            if self._private_missing(label, name):
                return label
            raise
        if isinstance(raw, staticmethod):
            new = staticmethod(self._wrap(label, raw.__func__, pre, post, on_exc))
        elif isinstance(raw, classmethod):
            new = classmethod(self._wrap(label, raw.__func__, pre, post, on_exc))
        elif isinstance(raw, property):
            new = property(self._wrap(label, raw.fget, pre, post, on_exc), raw.fset, raw.fdel, raw.__doc__)
        else:
            new = self._wrap(label, raw, pre, post, on_exc)
        had_own = name in cls.__dict__
        setattr(cls, name, new)
        self._undo.append((cls, name, raw if had_own else None))
        return label

    def function(self, module, name, post=None, pre=None, on_exc=None, label=None):
        """Hook module.name and every quara module namespace that holds the
        same function object (quara uses `from m import f` heavily)."""
        label = label or f"{module.__name__.split('.')[-1]}.{name}"
        try:
            orig = getattr(module, name)
        except AttributeError:
            if self._private_missing(label, name):
                return label
            raise
        new = self._wrap(label, orig, pre, post, on_exc)
        for mname, mod in list(sys.modules.items()):
            if mod is None or not (mname == "quara" or mname.startswith("quara.")):
                continue
            d = getattr(mod, "__dict__", None)
            if not d:
                continue
            for k, v in list(d.items()):
                if v is orig:
                    setattr(mod, k, new)
                    self._undo.append((mod, k, orig))
        return label

    def _private_missing(self, label, name):
        """a private helper (single leading underscore) that no longer exists was renamed or inlined by a refactoring:
        the hook is skipped with a note (its oracles then observe nothing; an oracle listed in REQUIRED_ORACLES makes the
        run inconclusive, the others are optional observation points)"""
        if not (name.startswith("_") and not name.startswith("__")):
            return False
        self.counts.setdefault(label, 0)
        if self.ctx is not None:
            self.ctx.note(f"hook target {label} does not exist (private helper renamed or inlined?): hook skipped")
        return True

    def uninstall(self):
        for owner, name, raw in reversed(self._undo):
            if raw is None:
                try:
                    delattr(owner, name)
                except AttributeError:
                    pass
            else:
                setattr(owner, name, raw)
        self._undo = []

    class _Paused:
        def __init__(self, hs):
            self.hs = hs

        def __enter__(self):
            self.hs.depth += 1

        def __exit__(self, *a):
            self.hs.depth -= 1

    def paused(self):
        """Context in which hooked functions run unobserved (oracle code)."""
        return HookSet._Paused(self)

    def require(self, labels, ctx=None):
        ctx = ctx or self.ctx
        for lab in labels:
            if self.counts.get(lab, 0) == 0 and ctx is not None:
                ctx.mark_inconclusive(f"hook never evaluated: {lab}")


# --------------------------------------------------------------------- reach


class Reach:
    """Counts entries of quara code objects (sys.monitoring, PY_START).
    Code outside the repository is disabled after its first event; quara code
    whose qualified name is not in `anchors` is counted once and disabled."""

    TOOL = 4

    def __init__(self, repo_root, anchors=()):
        self.root = os.path.realpath(repo_root).rstrip("/") + "/quara/"
        self.anchors = set(anchors)
        self.counts = {}
        self.active = False

    def _key(self, code):
        fn = code.co_filename
        if not fn.startswith(self.root):
            rp = os.path.realpath(fn)
            if not rp.startswith(self.root):
                return None
            fn = rp
        return f"quara/{fn[len(self.root):]}:{code.co_qualname}"

    def start(self):
        mon = sys.monitoring
        try:
            mon.use_tool_id(self.TOOL, "qv-reach")
        except ValueError:
            return False
        ev = mon.events.PY_START

        def cb(code, offset):
            k = self._key(code)
            if k is None:
                return mon.DISABLE
            self.counts[k] = self.counts.get(k, 0) + 1
            if k in self.anchors:
                return None
            return mon.DISABLE

        mon.register_callback(self.TOOL, ev, cb)
        mon.set_events(self.TOOL, ev)
        self.active = True
        return True

    def stop(self):
        if not self.active:
            return
        mon = sys.monitoring
        mon.set_events(self.TOOL, 0)
        mon.register_callback(self.TOOL, mon.events.PY_START, None)
        mon.free_tool_id(self.TOOL)
        self.active = False

    def table(self):
        return dict(self.counts)


# -------------------------------------------------------------------- digest

_CSYS_CACHE_ATTRS = {
    "_basis_basisconjugate", "_dict_from_hs_to_choi", "_dict_from_choi_to_hs",
    "_basis_T_sparse", "_basisconjugate_sparse", "_basisconjugate_basis_sparse",
    "_basis_basisconjugate_T_sparse", "_basis_basisconjugate_T_sparse_from_1",
    "_basishermitian_basis_T_from_1",
}


# Observable state of quara objects.  A purity verdict ("operand modified") is about the observable value of an object,
# not about private caches / memos that a legitimate implementation may fill lazily during a query.  The attribute
# names that make up the state of every quara class ON THE PINNED TREE were recorded once (tools/record_attrs.sh ->
# qv/observable_attrs.json); for a class in that table only those attributes are digested, so an attribute that a later
# change of the library introduces (a memo, a lazily built table) does not turn a query into a "mutation".  A change of
# observable value still shows: the public accessors of the pinned tree read exactly the recorded attributes, and a
# change that re-routes them is judged by the value oracles (reference model / twin), not by the purity digest.
_OBS_PATH = os.path.join(os.path.dirname(os.path.abspath(__file__)), "observable_attrs.json")
try:
    with open(_OBS_PATH) as _f:
        _OBS = {k: frozenset(v) for k, v in json.load(_f).items()}
except Exception:  # noqa: BLE001
    _OBS = {}
_REC_PATH = os.environ.get("QV_RECORD_ATTRS")
_REC = {}
if _REC_PATH:
    import atexit

    def _dump_rec():
        try:
            with open(f"{_REC_PATH}.{os.getpid()}.json", "w") as f:
                json.dump({k: sorted(v) for k, v in _REC.items()}, f)
        except Exception:  # noqa: BLE001
            pass

    atexit.register(_dump_rec)


def _feed_array(h, a):
    a = np.asarray(a)
    h.update(str(a.dtype).encode())
    h.update(str(a.shape).encode())
    if a.dtype == object:
        for v in a.ravel():
            _feed(h, v, set())
    else:
        h.update(np.ascontiguousarray(a).tobytes())


def _feed(h, x, seen, depth=0):
    if depth > 12:
        h.update(b"<deep>")
        return
    if x is None or isinstance(x, (bool, int, float, complex, str, bytes)):
        h.update(repr(x).encode())
        return
    if isinstance(x, (np.generic,)):
        h.update(repr(x.item()).encode())
        return
    if isinstance(x, np.ndarray):
        _feed_array(h, x)
        return
    if hasattr(x, "tocsr") and hasattr(x, "toarray"):
        c = x.tocsr()
        h.update(b"csr")
        h.update(str(c.shape).encode())
        _feed_array(h, c.toarray())
        return
    if isinstance(x, (list, tuple)):
        h.update(b"(" if isinstance(x, tuple) else b"[")
        for v in x:
            _feed(h, v, seen, depth + 1)
            h.update(b",")
        h.update(b")")
        return
    if isinstance(x, dict):
        h.update(b"{")
        for k in sorted(x, key=repr):
            h.update(repr(k).encode())
            _feed(h, x[k], seen, depth + 1)
        h.update(b"}")
        return
    if isinstance(x, (types.FunctionType, types.MethodType, types.BuiltinFunctionType, type)):
        h.update(getattr(x, "__qualname__", repr(type(x))).encode())
        return
    if id(x) in seen:
        h.update(b"<cycle>")
        return
    seen = seen | {id(x)}
    mod = type(x).__module__ or ""
    h.update(type(x).__qualname__.encode())
    if isinstance(x, np.random.Generator):
        h.update(repr(x.bit_generator.state).encode())
        return
    d = getattr(x, "__dict__", None)
    if d is None:
        h.update(repr(x).encode())
        return
    is_csys = type(x).__name__ == "CompositeSystem"
    cname = f"{mod}.{type(x).__qualname__}"
    known = _OBS.get(cname) if mod.startswith("quara") else None
    if _REC_PATH and mod.startswith("quara"):
        _REC.setdefault(cname, set()).update(d)
    for k in sorted(d):
        if is_csys and k in _CSYS_CACHE_ATTRS:
            continue  # lazily built tables: legitimately filled/dropped
        if k.startswith("__"):
            continue
        if known is not None and k not in known:
            continue  # not part of the state of this class on the pinned tree (see _OBS above)
        h.update(k.encode())
        _feed(h, d[k], seen, depth + 1)
    return


def digest(x):
    """Digest of the observable value of x (arrays by bytes, quara objects by
    their attribute dictionaries, CompositeSystem caches excluded)."""
    h = hashlib.blake2b(digest_size=16)
    _feed(h, x, set())
    return h.hexdigest()


def digest_args(args, kwargs=None):
    return tuple(digest(a) for a in args) + tuple((k, digest(v)) for k, v in sorted((kwargs or {}).items()))
