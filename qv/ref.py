"""Independent reference model.  Plain dense numpy written from the textbook
definitions; never imports quara.  Conventions (stated once):

* an operator X is represented in a matrix basis {B_a} by the coefficient
  vector x with  X = sum_a x_a B_a  (found by a Gram solve, so the basis need
  not be orthonormal);
* a linear map E on operators is represented by the matrix HS with
  E(B_b) = sum_a HS[a,b] B_a ;
* Choi(E) = sum_{ij} E(|i><j|) (x) |i><j|   (output factor first);
* vec() is row-major.
"""
import itertools
import math

import numpy as np

# ------------------------------------------------------------------ basics


def dense(m):
    if hasattr(m, "toarray"):
        m = m.toarray()
    return np.asarray(m, dtype=np.complex128)


def basis_list(basis):
    """list of dense matrices from anything iterable over matrices"""
    return [dense(b) for b in basis]


def dag(m):
    return np.conjugate(np.transpose(m))


def gram(basis):
    n = len(basis)
    F = np.array([b.reshape(-1) for b in basis])  # rows = vec(B_a)
    return F.conj() @ F.T, F


def coeffs(basis, X):
    """x with X = sum x_a B_a (least squares; exact if basis spans)."""
    G, F = gram(basis)
    rhs = F.conj() @ np.asarray(X, dtype=np.complex128).reshape(-1)
    return np.linalg.solve(G, rhs)


def op(basis, x):
    x = np.asarray(x)
    out = np.zeros_like(basis[0], dtype=np.complex128)
    for c, b in zip(x, basis):
        out = out + c * b
    return out


def herm_part(M):
    return (M + dag(M)) / 2


def herm_violation(M):
    return float(np.max(np.abs(M - dag(M)))) if M.size else 0.0


def lambda_min(M):
    return float(np.linalg.eigvalsh(herm_part(M))[0])


def psd_violation(M):
    """size by which M fails to be PSD (0 if PSD): max(-lambda_min, 0)"""
    return max(0.0, -lambda_min(M))


def proj_psd(M):
    w, v = np.linalg.eigh(herm_part(M))
    return (v * np.clip(w, 0, None)) @ dag(v)


def sqrtm_psd(M):
    w, v = np.linalg.eigh(herm_part(M))
    return (v * np.sqrt(np.clip(w, 0, None))) @ dag(v)


def matrix_units(d):
    out = []
    for i in range(d):
        for j in range(d):
            e = np.zeros((d, d), dtype=np.complex128)
            e[i, j] = 1
            out.append(e)
    return out


def hermitian_units(d):
    """a real-linear basis of the Hermitian d x d matrices"""
    out = []
    for i in range(d):
        e = np.zeros((d, d), dtype=np.complex128)
        e[i, i] = 1
        out.append(e)
    for i in range(d):
        for j in range(i + 1, d):
            e = np.zeros((d, d), dtype=np.complex128)
            e[i, j] = e[j, i] = 1
            out.append(e)
            f = np.zeros((d, d), dtype=np.complex128)
            f[i, j] = -1j
            f[j, i] = 1j
            out.append(f)
    return out


# ------------------------------------------------------------ super-operators


def apply_hs(basis, hs, X):
    """E(X) for the map with matrix hs in `basis`."""
    return op(basis, np.asarray(hs) @ coeffs(basis, X))


def hs_of_map(basis, fn):
    """matrix of the linear map fn in `basis`"""
    cols = [coeffs(basis, fn(b)) for b in basis]
    return np.array(cols).T


def kraus_map(ks):
    def fn(X):
        return sum(k @ X @ dag(k) for k in ks)

    return fn


def hs_of_kraus(basis, ks):
    return hs_of_map(basis, kraus_map(ks))


def choi_of_map(fn, d):
    C = np.zeros((d * d, d * d), dtype=np.complex128)
    for i in range(d):
        for j in range(d):
            e = np.zeros((d, d), dtype=np.complex128)
            e[i, j] = 1
            C += np.kron(fn(e), e)
    return C


def choi_of_hs(basis, hs):
    d = basis[0].shape[0]
    return choi_of_map(lambda X: apply_hs(basis, hs, X), d)


def map_of_choi(C, d):
    """E(X) = Tr_2[ C (I (x) X^T) ]"""
    C4 = np.asarray(C).reshape(d, d, d, d)  # C[(a,i),(b,j)] = E(|i><j|)[a,b]

    def fn(X):
        return np.einsum("aibj,ij->ab", C4, X)

    return fn


def hs_of_choi(basis, C):
    d = basis[0].shape[0]
    return hs_of_map(basis, map_of_choi(C, d))


def tp_violation(basis, hs):
    """max_b |Tr E(B_b) - Tr B_b| / normaliser-free, and via E^dagger(I)-I"""
    v = 0.0
    for b in basis:
        v = max(v, abs(np.trace(apply_hs(basis, hs, b)) - np.trace(b)))
    return float(v)


def dual_identity(basis, hs):
    """E^dagger(I): the operator M with Tr[M X] = Tr E(X) for all X"""
    d = basis[0].shape[0]
    units = matrix_units(d)
    M = np.zeros((d, d), dtype=np.complex128)
    for e in units:
        # Tr[M e_ij] = M[j,i]
        i, j = np.argwhere(e == 1)[0]
        M[j, i] = np.trace(apply_hs(basis, hs, e))
    return M


def dual_apply(basis, hs, M):
    """E^dagger(M): Tr[E^dagger(M) X] = Tr[M E(X)]"""
    d = basis[0].shape[0]
    out = np.zeros((d, d), dtype=np.complex128)
    for i in range(d):
        for j in range(d):
            e = np.zeros((d, d), dtype=np.complex128)
            e[i, j] = 1
            out[j, i] = np.trace(M @ apply_hs(basis, hs, e))
    return out


def cp_violation(basis, hs):
    return psd_violation(choi_of_hs(basis, hs))


# -------------------------------------------------------------- object views


def state_op(basis, vec):
    return op(basis, vec)


def povm_ops(basis, vecs):
    return [op(basis, v) for v in vecs]


def state_violations(basis, vec):
    rho = op(basis, vec)
    return {"eq": float(abs(np.trace(rho) - 1)), "ineq": max(psd_violation(rho), herm_violation(rho) / 2)}


def povm_violations(basis, vecs):
    ms = povm_ops(basis, vecs)
    d = ms[0].shape[0]
    return {"eq": float(np.max(np.abs(sum(ms) - np.eye(d)))), "ineq": max(max(psd_violation(m) for m in ms), max(herm_violation(m) for m in ms) / 2)}


def gate_violations(basis, hs):
    return {"eq": tp_violation(basis, hs), "ineq": cp_violation(basis, hs)}


def mprocess_violations(basis, hss):
    return {"eq": tp_violation(basis, sum(np.asarray(h) for h in hss)), "ineq": max(cp_violation(basis, h) for h in hss)}


# ------------------------------------------------------------ kron utilities


def kron_all(mats):
    out = np.eye(1, dtype=np.complex128)
    for m in mats:
        out = np.kron(out, m)
    return out


def partial_trace(rho, dims, keep):
    """trace out all subsystems not in keep (positions)"""
    n = len(dims)
    t = np.asarray(rho).reshape(list(dims) + list(dims))
    keep = list(keep)
    drop = [i for i in range(n) if i not in keep]
    # contract dropped axes
    for k, i in enumerate(sorted(drop, reverse=True)):
        t = np.trace(t, axis1=i, axis2=i + (n - k))
    dk = int(np.prod([dims[i] for i in keep])) if keep else 1
    return t.reshape(dk, dk)


def permute_subsystems(M, dims, perm):
    """operator on sys_0 x ... x sys_{n-1} -> operator on sys_perm[0] x ..."""
    n = len(dims)
    t = np.asarray(M).reshape(list(dims) + list(dims))
    axes = list(perm) + [n + p for p in perm]
    t = np.transpose(t, axes)
    D = int(np.prod(dims))
    return t.reshape(D, D)


# ---------------------------------------------------------------- probability


def born(ms, rho):
    return np.array([np.trace(m @ rho).real for m in ms])


def multinomial_pmf(counts, p):
    n = sum(counts)
    coef = math.factorial(n)
    for c in counts:
        coef //= math.factorial(c)
    val = float(coef)
    for c, q in zip(counts, p):
        val *= q ** c if c else 1.0
    return val


def compositions(n, m):
    """all count vectors of length m summing to n"""
    if m == 1:
        yield (n,)
        return
    for k in range(n + 1):
        for rest in compositions(n - k, m - 1):
            yield (k,) + rest


# --------------------------------------------------------------------- GKSL


def gksl_rhs(H, cs, rho):
    out = -1j * (H @ rho - rho @ H)
    for c in cs:
        cd = dag(c)
        out = out + c @ rho @ cd - 0.5 * (cd @ c @ rho + rho @ cd @ c)
    return out


# ----------------------------------------------------------- random objects


def rand_herm(d, rng, scale=1.0):
    a = rng.standard_normal((d, d)) + 1j * rng.standard_normal((d, d))
    return scale * (a + dag(a)) / 2


def rand_density(d, rng, rank=None):
    rank = rank or d
    a = rng.standard_normal((d, rank)) + 1j * rng.standard_normal((d, rank))
    r = a @ dag(a)
    return r / np.trace(r).real


def rand_unitary(d, rng):
    a = rng.standard_normal((d, d)) + 1j * rng.standard_normal((d, d))
    q, r = np.linalg.qr(a)
    ph = np.diag(r) / np.abs(np.diag(r))
    return q * ph


def rand_povm(d, m, rng, rank=None):
    """m PSD operators of the given rank summing to the identity.  The rank is
    raised to ceil(d/m) when m*rank < d (otherwise no such POVM exists)."""
    rank = rank or d
    rank = max(rank, -(-d // m))
    for _ in range(200):
        As = []
        for _ in range(m):
            a = rng.standard_normal((d, rank)) + 1j * rng.standard_normal((d, rank))
            As.append(a @ dag(a))
        S = sum(As)
        w, v = np.linalg.eigh(S)
        if w[0] > 1e-6 * w[-1]:
            break
    else:
        raise RuntimeError("rand_povm: could not draw a well-conditioned POVM")
    for _ in range(2):  # second pass removes the O(cond*eps) defect of the first
        S = sum(As)
        w, v = np.linalg.eigh(herm_part(S))
        Sm = (v * w ** -0.5) @ dag(v)
        As = [herm_part(Sm @ A @ Sm) for A in As]
    return As


def rand_kraus(d, r, rng):
    """r Kraus operators of a random CPTP map (columns of an isometry)"""
    a = rng.standard_normal((r * d, d)) + 1j * rng.standard_normal((r * d, d))
    q, _ = np.linalg.qr(a)
    return [q[i * d:(i + 1) * d, :] for i in range(r)]


def rand_instrument(d, m, rng, ranks=None):
    """m Kraus *sets* whose union is trace preserving (a random instrument)."""
    ranks = ranks or [1] * m
    tot = sum(ranks)
    ks = rand_kraus(d, tot, rng)
    out, i = [], 0
    for r in ranks:
        out.append(ks[i:i + r])
        i += r
    return out


# ----------------------------------------------------------------- self test


def self_test(rng=None):
    """A handful of identities tying the conventions together. Returns the list of
    failures (empty = fine)."""
    rng = rng or np.random.default_rng(12345)
    bad = []

    def chk(name, err, tol=1e-10):
        if not (err <= tol):
            bad.append(f"{name}: {err}")

    for d in (2, 3):
        # an orthonormal Hermitian basis (generalised Gell-Mann style) and a skewed one
        hb = hermitian_units(d)
        hb = [b / np.sqrt(np.trace(dag(b) @ b).real) for b in hb]
        skew = [b * (1 + 0.3 * i) for i, b in enumerate(hb)]
        units = matrix_units(d)
        for name, B in (("herm", hb), ("skew", skew), ("units", units)):
            X = rand_herm(d, rng) + 1j * rand_herm(d, rng)
            chk(f"coeff-roundtrip-{name}-{d}", np.max(np.abs(op(B, coeffs(B, X)) - X)))
            ks = rand_kraus(d, 2, rng)
            hs = hs_of_kraus(B, ks)
            rho = rand_density(d, rng)
            chk(f"hs-action-{name}-{d}", np.max(np.abs(apply_hs(B, hs, rho) - kraus_map(ks)(rho))))
            C = choi_of_hs(B, hs)
            chk(f"choi-psd-{name}-{d}", psd_violation(C))
            chk(f"choi-rank-{name}-{d}", abs(np.linalg.matrix_rank(C, tol=1e-9) - 2), 0)
            chk(f"choi-roundtrip-{name}-{d}", np.max(np.abs(hs_of_choi(B, C) - hs)))
            C2 = sum(np.kron(k.reshape(-1, 1), k.reshape(-1, 1).conj().T) for k in ks)  # sum |K>><<K|, row-major vec
            chk(f"choi-kraus-{name}-{d}", np.max(np.abs(C - C2)))
            chk(f"tp-{name}-{d}", tp_violation(B, hs))
            chk(f"dual-identity-{name}-{d}", np.max(np.abs(dual_identity(B, hs) - np.eye(d))))
            M = rand_povm(d, 3, rng)
            chk(f"povm-sum-{d}", np.max(np.abs(sum(M) - np.eye(d))))
            chk(f"heisenberg-{name}-{d}", abs(np.trace(dual_apply(B, hs, M[0]) @ rho) - np.trace(M[0] @ kraus_map(ks)(rho))))
    # partial trace / permutation
    a, b, c = rand_density(2, rng), rand_density(3, rng), rand_density(2, rng)
    abc = kron_all([a, b, c])
    chk("ptrace", np.max(np.abs(partial_trace(abc, [2, 3, 2], [1]) - b)))
    chk("ptrace2", np.max(np.abs(partial_trace(abc, [2, 3, 2], [0, 2]) - np.kron(a, c))))
    chk("permute", np.max(np.abs(permute_subsystems(abc, [2, 3, 2], [2, 0, 1]) - kron_all([c, a, b]))))
    # multinomial
    tot = sum(multinomial_pmf(c, [0.2, 0.3, 0.5]) for c in compositions(5, 3))
    chk("multinomial", abs(tot - 1))
    return bad
