"""Runner:  python -m qv.run <ID> <quick|thorough> [--seed N] | <ID> --replay FILE

Splits the property's workload into shards, runs each as its own process
(subprocess + timeout; a dying child can never hang the run), merges the
recorded events, runs the offline checkers, classifies violations against
known_findings.json, writes evidence/<ID>.json and prints the verdict lines.

exit 0  held on everything explored (KNOWN-FINDING lines allowed)
exit 1  at least one unlisted violation (VIOLATION lines)
exit 2  inconclusive (watchdog, crash, deciding monitor never reached)
"""
import importlib
import json
import os
import re
import shutil
import subprocess
import sys
import time

from qv import env

MAX_VIOLATION_LINES = 20


def slug(s):
    return re.sub(r"[^A-Za-z0-9_.=+-]+", "_", s)[:120]


def load_known():
    p = os.path.join(env.VERIF, "known_findings.json")
    if not os.path.exists(p):
        return []
    return json.load(open(p)).get("findings", [])


def classify(prop, key, known):
    for k in known:
        if k.get("property") == prop and k.get("status") == "known" and k.get("key") == key:
            return k
    return None


def run_shards(prop, tier, seed, shard_params, timeout_s, jobs, only_case=None, replay=False):
    # one work directory per run: concurrent runs of the same property (e.g. a scratch QV_REPO run next to a
    # normal one) must not delete each other's shard files
    work = os.path.join(env.WORK, f"{prop}.{os.getpid()}")
    shutil.rmtree(work, ignore_errors=True)
    os.makedirs(work, exist_ok=True)
    cenv = env.child_env()
    pending = []
    for i, params in enumerate(shard_params):
        idx = params.pop("__index__", i) if isinstance(params, dict) else i
        spec = {"prop": prop, "tier": tier, "seed": seed, "shard_index": idx, "params": params,
                "watchdog_s": timeout_s, "only_case": only_case, "replay": replay}
        sp = os.path.join(work, f"s{i}.spec.json")
        json.dump(spec, open(sp, "w"))
        pending.append((i, sp, os.path.join(work, f"s{i}.out.json"), os.path.join(work, f"s{i}.log")))
    # heavier shards first when the check says so
    order = sorted(range(len(pending)), key=lambda i: -float((shard_params[i] or {}).get("weight", 1)) if isinstance(shard_params[i], dict) else 0)
    queue = [pending[i] for i in order]
    running = []
    results = {}
    problems = []
    while queue or running:
        while queue and len(running) < jobs:
            i, sp, op, lp = queue.pop(0)
            logf = open(lp, "w")
            p = subprocess.Popen([env.PYTHON, "-m", "qv.shard", sp, op], cwd=env.VERIF, env=cenv,
                                 stdout=logf if not replay else None, stderr=subprocess.STDOUT if not replay else None)
            running.append((i, p, time.time(), op, lp, logf))
        time.sleep(0.05)
        still = []
        for (i, p, t0, op, lp, logf) in running:
            rc = p.poll()
            if rc is None:
                if time.time() - t0 > timeout_s:
                    p.kill()
                    p.wait()
                    logf.close()
                    problems.append(f"shard {i} exceeded watchdog {timeout_s}s (see {lp})")
                else:
                    still.append((i, p, t0, op, lp, logf))
                continue
            logf.close()
            if rc != 0 or not os.path.exists(op):
                tail = ""
                try:
                    tail = open(lp).read()[-1500:]
                except Exception:
                    pass
                problems.append(f"shard {i} exited rc={rc} without result: {tail}")
            else:
                results[i] = json.load(open(op))
        running = still
    return results, problems, work


def _empty():
    return {"oracles": {}, "violations": {}, "nontrivial": set(), "samples": [], "counters": {}, "exceptions": {},
            "reach": {}, "inconclusive": [], "notes": [], "extra": [], "shard_wall": []}


def _is_private_anchor(a):
    name = a.split(":")[-1].split(".")[-1]
    return name.startswith("_") and not name.startswith("__")


def absorb(m, r, label):
    for k, o in r["oracles"].items():
        t = m["oracles"].setdefault(k, {"n": 0, "pass": 0, "grey": 0, "fail": 0, "max_err": 0.0, "max_err_pass": 0.0})
        for f in ("n", "pass", "grey", "fail"):
            t[f] += o[f]
        if o.get("skip"):
            t["skip"] = t.get("skip", 0) + o["skip"]
        t["max_err"] = max(t["max_err"], o["max_err"])
        t["max_err_pass"] = max(t["max_err_pass"], o["max_err_pass"])
    for k, v in r["violations"].items():
        t = m["violations"].setdefault(k, {"count": 0, "witnesses": []})
        t["count"] += v["count"]
        if len(t["witnesses"]) < 3:
            t["witnesses"] += v["witnesses"][: 3 - len(t["witnesses"])]
    m["nontrivial"].update(r["nontrivial"])
    if len(m["samples"]) < 8:
        m["samples"] += r["samples"][:2]
    for k, v in r["counters"].items():
        m["counters"][k] = m["counters"].get(k, 0) + v
    for k, v in r["exceptions"].items():
        m["exceptions"][k] = m["exceptions"].get(k, 0) + v
    for k, v in (r.get("reach") or {}).items():
        m["reach"][k] = m["reach"].get(k, 0) + v
    m["inconclusive"] += [f"{label}: {x}" for x in r["inconclusive"]]
    m["notes"] += r["notes"][:5]


def merge(results):
    m = _empty()
    for i in sorted(results):
        r = results[i]
        absorb(m, r, f"shard {i}")
        m["extra"].append({"shard_index": r["shard_index"], "params": r["params"], "extra": r.get("extra") or {}})
        m["shard_wall"].append(round(r["wall_s"], 2))
    return m


def main(argv=None):
    argv = list(sys.argv[1:] if argv is None else argv)
    if not argv:
        print(__doc__)
        return 2
    prop = argv.pop(0).upper()
    replay_file = None
    tier = os.environ.get("VERIF_TIER", "quick")
    seed = int(os.environ.get("VERIF_SEED", "0") or 0)
    while argv:
        a = argv.pop(0)
        if a == "--replay":
            replay_file = argv.pop(0)
        elif a == "--seed":
            seed = int(argv.pop(0))
        elif a in ("quick", "thorough"):
            tier = a
        else:
            print(f"unknown argument {a}")
            return 2
    t0 = time.time()
    env.bootstrap()
    if not env.shim_is_inert():
        print(f"INCONCLUSIVE property={prop} reason=kron shim no longer inert (composite_system.py calls kron)")
        return 2
    mod = importlib.import_module(f"qv.checks.{prop.lower()}")
    jobs = int(os.environ.get("QV_JOBS", "16"))
    known = load_known()

    if replay_file:
        rp = json.load(open(replay_file))
        w = rp["witness"]
        params = dict(w["params"] or {})
        params["__index__"] = w["shard_index"]
        results, problems, work = run_shards(prop, rp["tier"], rp["seed"], [params], 3600, 1, only_case=w["case"], replay=True)
        shutil.rmtree(work, ignore_errors=True)
        if problems or not results:
            print(f"INCONCLUSIVE property={prop} reason={problems}")
            return 2
        m = merge(results)
        hit = rp["key"] in m["violations"]
        print(json.dumps({"key": rp["key"], "reproduced": hit, "violations_now": sorted(m["violations"])}, indent=1))
        if hit:
            print(f"VIOLATION property={prop} replay={replay_file}")
            return 1
        return 0

    shutil.rmtree(os.path.join(env.WORK, "scratch_out", "replays", prop) if os.path.realpath(env.REPO) != os.path.realpath("/repo")
                  else os.path.join(env.VERIF, "replays", prop), ignore_errors=True)
    shard_params = mod.shards(tier, seed)
    timeout_s = getattr(mod, "WATCHDOG", {}).get(tier, 600 if tier == "quick" else 3600)
    results, problems, work = run_shards(prop, tier, seed, shard_params, timeout_s, jobs)
    m = merge(results)
    m["inconclusive"] += problems

    # offline checkers over the merged event logs
    fin = getattr(mod, "finalize", None)
    if fin is not None:
        from qv.rec import Ctx

        fctx = Ctx(prop, tier, seed, 10**6, {"finalize": True})
        try:
            fin(m, fctx)
        except Exception as e:
            import traceback

            m["inconclusive"].append(f"finalize crashed: {type(e).__name__}: {e} {traceback.format_exc(limit=6)}")
        from qv.rec import jsonable

        absorb(m, json.loads(json.dumps({
            "oracles": fctx.oracles, "violations": fctx.violations, "nontrivial": sorted(fctx.nontrivial_set),
            "samples": fctx.samples, "counters": fctx.counters, "exceptions": fctx.exceptions,
            "inconclusive": fctx.inconclusive, "notes": fctx.notes}, default=jsonable)), "finalize")

    # reach accounting: deciding mechanisms must have been entered
    required = list(getattr(mod, "REQUIRED_REACH", []))
    reach_tab = {}
    if not os.environ.get("QV_NO_REACH"):
        for r in required:
            alts = r if isinstance(r, (list, tuple)) else [r]
            n = sum(m["reach"].get(a, 0) for a in alts)
            reach_tab[" | ".join(alts)] = n
            if n == 0:
                if all(_is_private_anchor(a) for a in alts):
                    # a private helper may legitimately be renamed / inlined by a refactoring: its absence alone does
                    # not make the run vacuous (public anchors, REQUIRED_ORACLES and MIN_EVALS still have to be met)
                    m["notes"].append(f"private anchor not entered (renamed or inlined?): {alts}")
                else:
                    m["inconclusive"].append(f"anchored function never entered: {alts}")
    evaluations = sum(o["n"] for o in m["oracles"].values())
    decided = sum(o["pass"] + o["fail"] for o in m["oracles"].values())
    min_evals = getattr(mod, "MIN_EVALS", {}).get(tier, 10)
    if decided < min_evals:
        m["inconclusive"].append(f"only {decided} decided evaluations (< {min_evals})")
    for name in getattr(mod, "REQUIRED_ORACLES", []):
        o = m["oracles"].get(name)
        if not o or o["pass"] + o["fail"] == 0:
            m["inconclusive"].append(f"deciding oracle never reached a verdict: {name}")

    # classify violations
    lines = []
    known_hit = []
    unlisted = []
    # runs against a scratch copy of the repository (QV_REPO=...) must not touch the committed-tree artefacts
    scratch = os.path.realpath(env.REPO) != os.path.realpath("/repo")
    out_root = os.path.join(env.WORK, "scratch_out") if scratch else env.VERIF
    rdir = os.path.join(out_root, "replays", prop)
    for key in sorted(m["violations"]):
        v = m["violations"][key]
        kf = classify(prop, key, known)
        rpath = os.path.join(rdir, slug(key) + ".json")
        os.makedirs(rdir, exist_ok=True)
        json.dump({"property": prop, "key": key, "tier": tier, "seed": seed, "count": v["count"],
                   "witness": v["witnesses"][0], "more_witnesses": v["witnesses"][1:],
                   "known": bool(kf), "repo": env.repo_state()}, open(rpath, "w"), indent=1, default=str)
        if kf:
            known_hit.append(key)
            lines.append(f"KNOWN-FINDING: property={prop} {key} :: {kf.get('what', '')} (seen {v['count']}x)")
        else:
            unlisted.append((key, rpath, v["count"]))
    for key, rpath, cnt in unlisted[:MAX_VIOLATION_LINES]:
        lines.append(f"VIOLATION property={prop} replay={os.path.relpath(rpath, env.VERIF)} key={key} count={cnt}")
    if len(unlisted) > MAX_VIOLATION_LINES:
        lines.append(f"... and {len(unlisted) - MAX_VIOLATION_LINES} more unlisted violation keys (all listed in the evidence file)")

    status = "held"
    if unlisted:
        status = "violated"
    elif m["inconclusive"]:
        status = "inconclusive"

    wall = time.time() - t0
    grey = sum(o["grey"] for o in m["oracles"].values())
    unjudged = sum(o.get("skip", 0) for o in m["oracles"].values())
    nontriv = len(m["nontrivial"])
    samples = m["samples"][:6] or [{"note": "no sample recorded"}]
    cov = {
        "evaluations": int(evaluations),
        "distinct_nontrivial": int(nontriv),
        "rule": getattr(mod, "RULE", ""),
        "samples": samples,
        "decided_evaluations": int(decided),
        "grey_zone": int(grey),
        "unjudged_by_design": int(unjudged),
        "oracles": m["oracles"],
        "counters": m["counters"],
        "exceptions_by_site": m["exceptions"],
        "reach_required": reach_tab,
        "reach_quara_functions_entered": len(m["reach"]),
        "reach_anchored": {k: v for k, v in sorted(m["reach"].items()) if k in set(getattr(mod, "ANCHORS", []))},
        "known_findings_hit": known_hit,
        "unlisted_violation_keys": [k for k, _, _ in unlisted],
        "inconclusive_reasons": m["inconclusive"][:20],
        "status": status,
        "shards": len(shard_params),
        "shard_wall_s": m["shard_wall"],
        "repo": env.repo_state(),
    }
    if getattr(mod, "EXHAUSTIVE", None):
        ex = mod.EXHAUSTIVE
        cov["exhaustive"] = bool(ex.get(tier)) if isinstance(ex, dict) else bool(ex)
        cov["exhaustive_scope"] = getattr(mod, "EXHAUSTIVE_SCOPE", "")
    evid = {
        "property_id": prop, "tier": tier, "seed": seed, "level": "exploration", "coverage": cov,
        "assumptions": getattr(mod, "ASSUMPTIONS", []) + [
            "numpy/scipy linear algebra and the independent reference model qv/ref.py",
            "kron shim (restores an unused removed scipy name) does not influence results",
        ],
        "wall_s": round(wall, 2), "violations": len(unlisted),
    }
    os.makedirs(os.path.join(out_root, "evidence"), exist_ok=True)
    ep = os.path.join(out_root, "evidence", f"{prop}.json")
    json.dump(evid, open(ep + ".tmp", "w"), indent=1, default=str)
    os.replace(ep + ".tmp", ep)
    if not os.environ.get("QV_KEEP_WORK"):
        shutil.rmtree(work, ignore_errors=True)

    for ln in lines:
        print(ln)
    print(f"{prop} {tier} seed={seed}: status={status} evaluations={evaluations} decided={decided} grey={grey} unjudged={unjudged} "
          f"distinct_nontrivial={nontriv} known={len(known_hit)} unlisted={len(unlisted)} shards={len(shard_params)} wall={wall:.1f}s")
    if status == "violated":
        if m["inconclusive"]:
            print(f"(also {len(m['inconclusive'])} inconclusive reason(s), first: {m['inconclusive'][0][:300]})")
        return 1
    if status == "inconclusive":
        for r in m["inconclusive"][:10]:
            print(f"INCONCLUSIVE property={prop} reason={r[:600]}")
        return 2
    return 0


if __name__ == "__main__":
    sys.exit(main())
