"""setup_cmd: offline sanity of everything the checks need (no downloads)."""
import sys

from qv import env


def main():
    env.bootstrap()
    import numpy, scipy, cvxpy, joblib  # noqa: F401,E401

    if not env.shim_is_inert():
        print("kron shim would not be inert: composite_system.py calls kron()")
        return 1
    from qv import ref

    bad = ref.self_test()
    if bad:
        print("reference model self-test failed:", bad)
        return 1
    import quara.objects.state  # noqa: F401
    import quara.protocol.qtomography.standard.standard_qst  # noqa: F401

    print("setup ok: python", sys.version.split()[0], "numpy", numpy.__version__, "scipy", scipy.__version__,
          "cvxpy", cvxpy.__version__, "solvers", cvxpy.installed_solvers())
    return 0


if __name__ == "__main__":
    sys.exit(main())
