"""Reference geometry of the physical sets in *stacked parameter space*
(orthonormal Hermitian identity-first bases only): stacked <-> variable maps
derived from the constraints, constraint violations, orthogonal projections
onto the two constraint sets, and the nearest physical point by an
independent SDP (cvxpy + Clarabel).  Never imports quara."""
import numpy as np

from qv import ref

TYPES = ("State", "Povm", "Gate", "MProcess")


def n_stack(t, d, m):
    n = d * d
    return {"State": n, "Povm": m * n, "Gate": n * n, "MProcess": m * n * n}[t]


def n_var(t, d, m, flag):
    n = d * d
    if not flag:
        return n_stack(t, d, m)
    return {"State": n - 1, "Povm": (m - 1) * n, "Gate": n * n - n, "MProcess": m * n * n - n}[t]


def stack_from_var(t, d, m, var, flag):
    """the stacked parameter vector denoted by a variable vector; with the flag
    the entries implied by the equality constraint are derived here"""
    var = np.asarray(var, dtype=np.float64)
    n = d * d
    if not flag:
        return var.copy()
    if t == "State":
        return np.concatenate([[1 / np.sqrt(d)], var])
    if t == "Povm":
        vs = var.reshape(m - 1, n)
        last = -vs.sum(axis=0)
        last[0] += np.sqrt(d)  # I = sqrt(d) B_0
        return np.concatenate([vs.reshape(-1), last])
    if t == "Gate":
        e0 = np.zeros(n)
        e0[0] = 1
        return np.concatenate([e0, var])
    if t == "MProcess":
        full = var[: (m - 1) * n * n].reshape(m - 1, n, n)
        rest = var[(m - 1) * n * n:].reshape(n - 1, n)
        e0 = np.zeros(n)
        e0[0] = 1
        first = e0 - full[:, 0, :].sum(axis=0)
        last = np.vstack([first[None, :], rest])
        return np.concatenate([full.reshape(-1), last.reshape(-1)])
    raise ValueError(t)


def var_from_stack(t, d, m, s, flag):
    s = np.asarray(s, dtype=np.float64)
    n = d * d
    if not flag:
        return s.copy()
    if t == "State":
        return s[1:].copy()
    if t == "Povm":
        return s[: (m - 1) * n].copy()
    if t == "Gate":
        return s[n:].copy()
    if t == "MProcess":
        hss = s.reshape(m, n, n)
        return np.concatenate([hss[: m - 1].reshape(-1), hss[m - 1, 1:, :].reshape(-1)])
    raise ValueError(t)


# ----------------------------------------------------------- operator views


def ops_from_stack(t, B, d, m, s):
    """Hermitian operators whose PSD-ness is the inequality constraint:
    State [rho]; Povm [M_x]; Gate [Choi]; MProcess [Choi_x]"""
    n = d * d
    s = np.asarray(s, dtype=np.float64)
    if t == "State":
        return [ref.op(B, s)]
    if t == "Povm":
        return [ref.op(B, v) for v in s.reshape(m, n)]
    if t == "Gate":
        return [ref.choi_of_hs(B, s.reshape(n, n))]
    return [ref.choi_of_hs(B, h) for h in s.reshape(m, n, n)]


def stack_from_ops(t, B, d, m, ops):
    if t == "State":
        return ref.coeffs(B, ops[0]).real
    if t == "Povm":
        return np.concatenate([ref.coeffs(B, o).real for o in ops])
    return np.concatenate([ref.hs_of_choi(B, C).real.reshape(-1) for C in ops])


def violations(t, B, d, m, s):
    n = d * d
    s = np.asarray(s, dtype=np.float64)
    ops = ops_from_stack(t, B, d, m, s)
    ineq = max(max(ref.psd_violation(o), ref.herm_violation(o) / 2) for o in ops)
    if t == "State":
        eq = abs(np.trace(ops[0]) - 1)
    elif t == "Povm":
        eq = np.max(np.abs(sum(ops) - np.eye(d)))
    elif t == "Gate":
        eq = ref.tp_violation(B, s.reshape(n, n))
    else:
        eq = ref.tp_violation(B, s.reshape(m, n, n).sum(axis=0))
    return float(eq), float(ineq)


# -------------------------------------------------------------- projections


def proj_eq(t, d, m, s):
    """orthogonal projection onto the affine equality set (closed form from
    the constraint's linear equations; identity-first orthonormal basis)"""
    n = d * d
    s = np.array(s, dtype=np.float64)
    if t == "State":
        s[0] = 1 / np.sqrt(d)  # Tr rho = sqrt(d) * s[0]
        return s
    if t == "Povm":
        vs = s.reshape(m, n)
        target = np.zeros(n)
        target[0] = np.sqrt(d)
        defect = vs.sum(axis=0) - target
        return (vs - defect / m).reshape(-1)
    if t == "Gate":
        hs = s.reshape(n, n)
        hs[0, :] = 0
        hs[0, 0] = 1
        return hs.reshape(-1)
    hss = s.reshape(m, n, n)
    target = np.zeros(n)
    target[0] = 1
    defect = hss[:, 0, :].sum(axis=0) - target
    hss[:, 0, :] -= defect / m
    return hss.reshape(-1)


def proj_ineq(t, B, d, m, s):
    ops = [ref.proj_psd(o) for o in ops_from_stack(t, B, d, m, s)]
    return stack_from_ops(t, B, d, m, ops)


# ------------------------------------------------------- random physical pts


def random_physical(t, B, d, m, rng, rank=None):
    if t == "State":
        return stack_from_ops(t, B, d, m, [ref.rand_density(d, rng, rank)])
    if t == "Povm":
        return stack_from_ops(t, B, d, m, ref.rand_povm(d, m, rng, rank))
    if t == "Gate":
        ks = ref.rand_kraus(d, int(rank or rng.integers(1, d * d + 1)), rng)
        return ref.hs_of_kraus(B, ks).real.reshape(-1)
    sets = ref.rand_instrument(d, m, rng, [int(rng.integers(1, 3)) for _ in range(m)])
    return np.concatenate([ref.hs_of_kraus(B, ks).real.reshape(-1) for ks in sets])


# ----------------------------------------------------------------- the SDP


def nearest_physical_sdp(t, B, d, m, s, solver="CLARABEL"):
    """argmin ||x - s||_2 over the physical set, as a stacked vector.
    Uses that (for an orthonormal basis) coefficient vectors <-> operators and
    HS <-> Choi are isometries, so the objective is a Frobenius distance."""
    import cvxpy as cp

    targets = ops_from_stack(t, B, d, m, s)
    targets = [ref.herm_part(T) for T in targets]
    k = len(targets)
    D = targets[0].shape[0]
    Xs = [cp.Variable((D, D), hermitian=True) for _ in range(k)]
    cons = [X >> 0 for X in Xs]
    if t == "State":
        cons.append(cp.real(cp.trace(Xs[0])) == 1)
    elif t == "Povm":
        cons.append(sum(Xs) == np.eye(d))
    else:
        # Choi index (a,i),(b,j) = E(|i><j|)[a,b]; TP: sum_a C[(a,i),(a,j)] = delta_ij
        tot = sum(Xs)
        cons.append(cp.partial_trace(tot, [d, d], axis=0) == np.eye(d))
    obj = 0
    for X, T in zip(Xs, targets):
        Dm = X - T
        obj = obj + cp.sum_squares(cp.real(Dm)) + cp.sum_squares(cp.imag(Dm))
    prob = cp.Problem(cp.Minimize(obj), cons)
    kw = {}
    if solver == "CLARABEL":
        kw = dict(tol_gap_abs=1e-10, tol_gap_rel=1e-10, tol_feas=1e-10, max_iter=200)
    prob.solve(solver=solver, **kw)
    if prob.status not in ("optimal", "optimal_inaccurate"):
        return None, prob.status
    ops = [np.asarray(X.value) for X in Xs]
    return stack_from_ops(t, B, d, m, ops), prob.status


# ------------------------------------------- fast geometry + reference Dykstra


class Geometry:
    """Precomputed linear isometry  T: stacked parameters -> concatenated
    row-major vec of the operators whose PSD-ness is the inequality constraint
    (obtained by applying ops_from_stack to unit vectors), giving fast
    projections and an independent high-accuracy Dykstra reference."""

    def __init__(self, t, B, d, m):
        self.t, self.B, self.d, self.m = t, B, d, m
        N = n_stack(t, d, m)
        cols = []
        for i in range(N):
            e = np.zeros(N)
            e[i] = 1.0
            cols.append(np.concatenate([o.reshape(-1) for o in ops_from_stack(t, B, d, m, e)]))
        self.T = np.array(cols).T  # complex, (k*D*D) x N
        self.k = len(ops_from_stack(t, B, d, m, np.zeros(N)))
        self.D = int(round(np.sqrt(self.T.shape[0] / self.k)))
        G = (self.T.conj().T @ self.T).real
        self.isometry_defect = float(np.max(np.abs(G - np.eye(N))))
        self.Tinv = np.linalg.solve(G, self.T.conj().T)

    def proj_ineq(self, s):
        v = self.T @ s
        D = self.D
        out = []
        for i in range(self.k):
            M = v[i * D * D:(i + 1) * D * D].reshape(D, D)
            out.append(ref.proj_psd(M).reshape(-1))
        return (self.Tinv @ np.concatenate(out)).real

    def proj_eq(self, s):
        return proj_eq(self.t, self.d, self.m, s)

    def dykstra(self, a, tol=1e-28, max_iter=400000):
        """nearest point of the intersection (reference implementation written
        from Boyle-Dykstra; stops when both increments are stationary)"""
        x = np.array(a, dtype=np.float64)
        p = np.zeros_like(x)
        q = np.zeros_like(x)
        for it in range(max_iter):
            y = self.proj_eq(x + p)
            p_new = x + p - y
            x_new = self.proj_ineq(y + q)
            q_new = y + q - x_new
            change = float(np.sum((p_new - p) ** 2) + np.sum((q_new - q) ** 2) + np.sum((x_new - x) ** 2))
            x, p, q = x_new, p_new, q_new
            if change < tol * (1.0 + float(x @ x)):
                return x, it + 1, True
        return x, max_iter, False
