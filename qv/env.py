"""Process bootstrap shared by the runner and by every shard.

* puts the kron shim and /verif on PYTHONPATH (children inherit it: loky
  workers of quara's parallel simulation flow need the shim too);
* caps BLAS threads (parallelism is across shards);
* makes `import quara` resolve to the *working tree* of the repository.
"""
import os
import sys

VERIF = os.path.dirname(os.path.dirname(os.path.abspath(__file__)))
REPO = os.environ.get("QV_REPO", "/repo")
SHIM = os.path.join(VERIF, "qv", "shim")
DEPS = os.path.join(VERIF, ".deps")
WORK = os.path.join(VERIF, ".work")
PYTHON = os.environ.get("QV_PYTHON", "/venv/bin/python")
GUARD = "QUARA_VERIF"


def child_env(extra=None):
    env = dict(os.environ)
    pp = [SHIM, VERIF, REPO]
    if os.path.isdir(DEPS):
        pp.append(DEPS)
    old = env.get("PYTHONPATH")
    if old:
        pp += [p for p in old.split(os.pathsep) if p and p not in pp]
    env["PYTHONPATH"] = os.pathsep.join(pp)
    env["PYTHONHASHSEED"] = "0"
    for k in ("OMP_NUM_THREADS", "OPENBLAS_NUM_THREADS", "MKL_NUM_THREADS", "NUMEXPR_NUM_THREADS"):
        env[k] = "1"
    env[GUARD] = "1"
    env["PYTHONDONTWRITEBYTECODE"] = "1"
    env["PIP_NO_INDEX"] = "1"
    env["MPLBACKEND"] = "Agg"
    if extra:
        env.update(extra)
    return env


def bootstrap():
    """In-process part: shim + import path.  Idempotent."""
    os.environ.update({k: v for k, v in child_env().items() if k in (
        "PYTHONPATH", "OMP_NUM_THREADS", "OPENBLAS_NUM_THREADS", "MKL_NUM_THREADS",
        "NUMEXPR_NUM_THREADS", GUARD, "PYTHONDONTWRITEBYTECODE", "MPLBACKEND")})
    for p in (DEPS, VERIF, REPO):
        if p in sys.path:
            sys.path.remove(p)
    if os.path.isdir(DEPS):
        sys.path.insert(0, DEPS)
    sys.path.insert(0, VERIF)
    sys.path.insert(0, REPO)
    import scipy.linalg as sl

    if not hasattr(sl, "kron"):
        import numpy as np

        sl.kron = np.kron
    import quara  # noqa: F401

    qfile = os.path.realpath(quara.__file__)
    if not qfile.startswith(os.path.realpath(REPO) + os.sep):
        raise RuntimeError(f"quara imported from {qfile}, not from {REPO}")


def shim_is_inert():
    """The shim may only restore a name that quara never calls."""
    import re

    src = open(os.path.join(REPO, "quara/objects/composite_system.py")).read()
    body = src.replace("from scipy.linalg import kron", "")
    # an unqualified call `kron(` (not `.kron(` / `_kron(`) would use the shim
    return re.search(r"(?<![\w.])kron\(", body) is None


def repo_state():
    import subprocess

    try:
        head = subprocess.run(["git", "-C", REPO, "rev-parse", "HEAD"], capture_output=True, text=True, timeout=20).stdout.strip()
        dirty = bool(subprocess.run(["git", "-C", REPO, "status", "--porcelain", "--untracked-files=no"], capture_output=True, text=True, timeout=20).stdout.strip())
    except Exception:
        head, dirty = "unknown", False
    return {"head": head, "dirty": dirty}
