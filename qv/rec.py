"""Recorder handed to every shard: three-valued numeric verdicts, violation
keys, distinct-case accounting, exception events, samples.  Nothing here
imports quara."""
import hashlib
import json
import math
import os
import sys
import time
import traceback

import numpy as np

PROP_NUM = lambda pid: int(pid[1:])  # noqa: E731


def jsonable(x, maxlen=24):
    """Abbreviated JSON view of arbitrary values (arrays are shortened)."""
    if x is None or isinstance(x, (bool, int, str)):
        return x
    if isinstance(x, float):
        return x if math.isfinite(x) else repr(x)
    if isinstance(x, (np.bool_,)):
        return bool(x)
    if isinstance(x, np.integer):
        return int(x)
    if isinstance(x, np.floating):
        return jsonable(float(x))
    if isinstance(x, complex) or isinstance(x, np.complexfloating):
        return [float(np.real(x)), float(np.imag(x))]
    if isinstance(x, np.ndarray):
        flat = x.ravel()
        if np.iscomplexobj(flat):
            head = [[round(float(v.real), 12), round(float(v.imag), 12)] for v in flat[:maxlen]]
        elif flat.dtype == object:
            head = [jsonable(v) for v in flat[:maxlen]]
        else:
            head = [jsonable(v.item() if hasattr(v, "item") else v) for v in flat[:maxlen]]
        if flat.size <= maxlen:
            return {"shape": list(x.shape), "v": head}
        return {"shape": list(x.shape), "head": head, "n": int(flat.size)}
    if isinstance(x, dict):
        return {str(k): jsonable(v, maxlen) for k, v in list(x.items())[:64]}
    if isinstance(x, (list, tuple, set, frozenset)):
        xs = list(x)
        out = [jsonable(v, maxlen) for v in xs[:maxlen]]
        if len(xs) > maxlen:
            out.append(f"...(+{len(xs) - maxlen})")
        return out
    if hasattr(x, "toarray"):
        return jsonable(np.asarray(x.toarray()), maxlen)
    return repr(x)[:200]


def digest_parts(*parts):
    h = hashlib.blake2b(digest_size=8)

    def feed(p):
        if isinstance(p, np.ndarray):
            a = np.ascontiguousarray(np.round(p.astype(np.complex128) if np.iscomplexobj(p) else p.astype(np.float64), 9) + 0.0)
            h.update(str(a.shape).encode())
            h.update(a.tobytes())
        elif isinstance(p, (list, tuple)):
            h.update(b"[")
            for q in p:
                feed(q)
            h.update(b"]")
        elif isinstance(p, dict):
            for k in sorted(p, key=str):
                feed(str(k))
                feed(p[k])
        elif isinstance(p, float):
            h.update(repr(round(p, 12)).encode())
        else:
            h.update(repr(p).encode())
        h.update(b"|")

    for p in parts:
        feed(p)
    return h.hexdigest()


class Ctx:
    MAX_VIOL_PER_KEY = 3
    MAX_SAMPLES = 6

    def __init__(self, prop, tier, seed, shard_index, params, only_case=None):
        self.prop = prop
        self.tier = tier
        self.seed = int(seed)
        self.shard_index = int(shard_index)
        self.params = params
        self.only_case = only_case
        self.cur_case = None
        self.oracles = {}
        self.violations = {}
        self.nontrivial_set = set()
        self.samples = []
        self.counters = {}
        self.exceptions = {}
        self.notes = []
        self.inconclusive = []
        self.t0 = time.time()
        self.verbose = bool(os.environ.get("QV_VERBOSE"))
        self.extra = {}

    # ---------------------------------------------------------------- cases
    def cases(self, n, start=0):
        """Iterate case indices; each case gets its own RNG stream so that a
        single case can be replayed in isolation."""
        for i in range(start, start + n):
            if self.only_case is not None and i != self.only_case:
                continue
            self.cur_case = i
            yield i
        self.cur_case = None

    def rng(self, *extra):
        c = self.cur_case if self.cur_case is not None else 2**31 - 1
        ent = [self.seed, PROP_NUM(self.prop), self.shard_index, int(c)] + [int(e) for e in extra]
        return np.random.default_rng(np.random.SeedSequence(ent))

    # ------------------------------------------------------------- verdicts
    def _oracle(self, name):
        o = self.oracles.get(name)
        if o is None:
            o = self.oracles[name] = {"n": 0, "pass": 0, "grey": 0, "fail": 0, "max_err": 0.0, "max_err_pass": 0.0}
        return o

    def num(self, oracle, err, tol_pass, tol_fail, key=None, info=None):
        """Three-zone numeric verdict. err<=tol_pass pass; err>=tol_fail
        violation; otherwise grey (reported, never an alarm)."""
        o = self._oracle(oracle)
        o["n"] += 1
        try:
            err = float(err)
        except Exception:
            err = float("nan")
        if not math.isfinite(err):
            o["fail"] += 1
            self.violation(key or oracle, dict(info or {}, oracle=oracle, err=repr(err), why="non-finite error"))
            return "fail"
        o["max_err"] = max(o["max_err"], err)
        if err <= tol_pass:
            o["pass"] += 1
            o["max_err_pass"] = max(o["max_err_pass"], err)
            return "pass"
        if err >= tol_fail:
            o["fail"] += 1
            self.violation(key or oracle, dict(info or {}, oracle=oracle, err=err, tol_pass=tol_pass, tol_fail=tol_fail))
            return "fail"
        o["grey"] += 1
        if self.verbose:
            print(f"GREY {oracle} err={err:.3e} case={self.cur_case} info={jsonable(info)}", file=sys.stderr)
        return "grey"

    def truth(self, oracle, ok, key=None, info=None):
        o = self._oracle(oracle)
        o["n"] += 1
        if ok:
            o["pass"] += 1
            return True
        o["fail"] += 1
        self.violation(key or oracle, dict(info or {}, oracle=oracle))
        return False

    def skip(self, oracle, why="free-zone"):
        """An evaluation that by design gives no verdict (free zone)."""
        o = self._oracle(oracle)
        o["n"] += 1
        o["skip"] = o.get("skip", 0) + 1

    def violation(self, key, info=None):
        v = self.violations.get(key)
        if v is None:
            v = self.violations[key] = {"count": 0, "witnesses": []}
        v["count"] += 1
        if len(v["witnesses"]) < self.MAX_VIOL_PER_KEY:
            v["witnesses"].append({
                "case": self.cur_case,
                "shard_index": self.shard_index,
                "params": self.params,
                "info": jsonable(info),
            })
        if self.verbose:
            print(f"VIOL {key} case={self.cur_case} info={jsonable(info)}", file=sys.stderr)

    def nontrivial(self, *parts):
        self.nontrivial_set.add(digest_parts(*parts))

    def sample(self, obj):
        if len(self.samples) < self.MAX_SAMPLES:
            self.samples.append(jsonable(obj))

    def count(self, name, n=1):
        self.counters[name] = self.counters.get(name, 0) + n

    def note(self, text):
        if len(self.notes) < 50:
            self.notes.append(text)

    def mark_inconclusive(self, reason):
        self.inconclusive.append(reason)

    # ----------------------------------------------------------- exceptions
    @staticmethod
    def exc_site(exc):
        """Innermost frame inside quara, as 'file:function'."""
        site = "outside-quara"
        for fs in traceback.extract_tb(exc.__traceback__):
            fn = fs.filename.replace("\\", "/")
            if "/quara/" in fn:
                site = f"quara/{fn.split('/quara/', 1)[1]}:{fs.name}"
        return site

    def attempt(self, fn, *args, **kwargs):
        """Call fn; returns (True, value) or (False, exception). The exception
        is counted as an event; whether it is a violation is the caller's
        business."""
        try:
            return True, fn(*args, **kwargs)
        except Exception as e:  # noqa: BLE001 - exceptions are events
            k = f"{type(e).__name__}@{self.exc_site(e)}"
            self.exceptions[k] = self.exceptions.get(k, 0) + 1
            return False, e

    def exc_key(self, e):
        return f"exception:{type(e).__name__}@{self.exc_site(e)}"

    # ---------------------------------------------------------------- output
    def dump(self, path, reach=None):
        out = {
            "prop": self.prop,
            "tier": self.tier,
            "seed": self.seed,
            "shard_index": self.shard_index,
            "params": self.params,
            "oracles": self.oracles,
            "violations": self.violations,
            "nontrivial": sorted(self.nontrivial_set),
            "samples": self.samples,
            "counters": self.counters,
            "exceptions": self.exceptions,
            "notes": self.notes,
            "inconclusive": self.inconclusive,
            "reach": reach or {},
            "extra": self.extra,
            "wall_s": time.time() - self.t0,
        }
        tmp = path + ".tmp"
        with open(tmp, "w") as f:
            json.dump(out, f, default=jsonable)
        os.replace(tmp, path)
