"""C03  Optimisation variables <-> objects are in one-to-one correspondence.

Contracts on every var/object conversion of State / Povm / Gate / MProcess, on the
eight index converters, on calc_gradient, on the SetQOperations index / rebuild
methods and on num_variables of the four tomography classes.

Reference (never calls quara to decide):
* sizes / variable counts / which entries are fixed by the built-in equality
  constraint are derived here from the constraint itself (Tr rho = 1,
  sum_x M_x = I, Tr E(B_b) = Tr B_b, sum_x E_x trace preserving) for an
  orthonormal identity-first basis (verified numerically per CompositeSystem
  from its basis matrices);
* the *placement* of the free variables (which free entry holds var[i]) is
  observed once per configuration from quara's own var->object conversion on
  the all-distinct probe 1.5, 2.5, ... and validated to be a bijection onto the
  free entries; every other function (inverse conversion, stacked forms,
  index maps, gradients, to_var, generate_from_var) is then judged against
  that one correspondence, which is exactly what the property states.

History / combination steps (the property holds for every call, whatever the objects did before; all verdicts come
from the oracles above, keys of verdicts that only a history can produce end in the name of the step):
* objects (run_object_history, every case of the conversion shards, own random stream): three live objects of one class
  and shape (two with equal configuration and non-default constructor options but other data, one with the other
  flag / outcome count) plus one on another system are asked alternately; the vectors the library returned go back
  into generate_from_var after the other objects were asked (":interleaved"); static forms with explicit and default
  flag alternate; objects reached through arithmetic, copy() (":via-copy"), generate_zero_obj() / generate_origin_obj()
  (":via-zero-obj", ":via-origin-obj"); the same questions again after the public setters (":second-call") and
  "the vector handed out earlier still holds what it held"; one template serving several generate_from_var calls with
  and without explicit options (":re-used-template"); everything again after the public mutator set_zero()
  (":after-set_zero").
* sets (run_setq_case: member lists replaced through the setters, ":after-member-list-replaced"; run_setq_history, small
  sets): a second live set with the same member counts but other member sizes, half of them filled through the
  setters (":second-set-same-member-counts"), single queries alternating between the two sets, lists replaced by
  lists of the SAME length (":after-same-length-list-replaced"), the set returned by set_qoperations_from_var_total
  asked everything (":rebuilt-set", also after a setter on it).
* tomography classes (numvar_history): num_variables against the objects the tomography hands out
  (convert_var_to_qoperation twice with different vectors, the empty estimation object, its origin object, its
  operation set; ":via-tomography"), a sibling of the same class with the other flag / outcome count, non-default
  options and an explicit schedule list built and asked while the first is alive (":sibling-other-flag"), the first
  again (":second-call"), tomography objects of earlier cases again (":re-used-object").
"""
import inspect
import math

import numpy as np

from qv import gen, ref
from qv.monitor import HookSet

ID = "C03"
RULE = ("(a) index part: every configuration type x flag x m in 2..5 x shape S1,S3,S2,S23 (80 configurations), every variable "
        "index and every free entry of each, with the all-distinct probe 1.5,2.5,...; a configuration is one distinct case; "
        "(b) conversion part: random variable vectors (Gaussian at scales 1e-3..1e3, integers, physical objects, raw "
        "non-physical objects off the constraint) per type x shape x flag x m, distinct by (type,shape,flag,m,rounded vector); "
        "(c) SetQOperations: random mixes of 0-3 states/gates/povms/mprocesses with mixed flags, shapes and outcome counts, "
        "every total index and every local index; (d) num_variables of the four tomography classes for every "
        "shape x flag x m. (e) history / combination steps on the same oracles: objects asked alternately and again, reached "
        "through copy / zero / origin objects / arithmetic, non-default constructor options, after the public setters and after "
        "set_zero; sets with equal member counts, lists replaced by lists of the same length, rebuilt sets; tomography "
        "objects asked through the objects they hand out, siblings with the other flag, earlier objects again. All cases are non-trivial (flag True inserts implied entries, flag False exercises identity "
        "layout; m>=3 and d>2 exercise the index arithmetic)")
EXHAUSTIVE = {"quick": True, "thorough": True}
EXHAUSTIVE_SCOPE = ("index converters (var index -> entry, entry -> var index), calc_gradient and the placement of every variable: "
                    "all variable indices and all free entries of all 80 configurations {State,Povm,Gate,MProcess} x "
                    "on_para_eq_constraint in {True,False} x m in {2,3,4,5} (Povm, MProcess) x shapes {S1,S3,S2,S23}; "
                    "num_variables: all 4 tomography classes x the same configurations; SetQOperations total<->local maps: "
                    "every index of every generated mix (the mixes themselves are sampled)")
ANCHORS = [
    "quara/objects/state.py:State.to_var", "quara/objects/povm.py:Povm.to_var",
    "quara/objects/gate.py:Gate.to_var", "quara/objects/mprocess.py:MProcess.to_var",
    "quara/objects/state.py:State.to_stacked_vector", "quara/objects/povm.py:Povm.to_stacked_vector",
    "quara/objects/gate.py:Gate.to_stacked_vector", "quara/objects/mprocess.py:MProcess.to_stacked_vector",
    "quara/objects/qoperation.py:QOperation.generate_from_var", "quara/objects/mprocess.py:MProcess.generate_from_var",
    "quara/objects/state.py:convert_var_to_vec", "quara/objects/state.py:convert_vec_to_var",
    "quara/objects/povm.py:convert_var_to_vecs", "quara/objects/povm.py:convert_vecs_to_var",
    "quara/objects/gate.py:convert_var_to_hs", "quara/objects/gate.py:convert_hs_to_var",
    "quara/objects/mprocess.py:convert_var_to_hss", "quara/objects/mprocess.py:convert_hss_to_var",
    "quara/objects/state.py:State.convert_var_to_stacked_vector", "quara/objects/state.py:State.convert_stacked_vector_to_var",
    "quara/objects/povm.py:Povm.convert_var_to_stacked_vector", "quara/objects/povm.py:Povm.convert_stacked_vector_to_var",
    "quara/objects/gate.py:Gate.convert_var_to_stacked_vector", "quara/objects/gate.py:Gate.convert_stacked_vector_to_var",
    "quara/objects/mprocess.py:MProcess.convert_var_to_stacked_vector", "quara/objects/mprocess.py:MProcess.convert_stacked_vector_to_var",
    "quara/objects/state.py:convert_var_index_to_state_index", "quara/objects/state.py:convert_state_index_to_var_index",
    "quara/objects/povm.py:convert_var_index_to_povm_index", "quara/objects/povm.py:convert_povm_index_to_var_index",
    "quara/objects/gate.py:convert_var_index_to_gate_index", "quara/objects/gate.py:convert_gate_index_to_var_index",
    "quara/objects/mprocess.py:convert_var_index_to_mprocess_index", "quara/objects/mprocess.py:convert_mprocess_index_to_var_index",
    "quara/objects/state.py:State.calc_gradient", "quara/objects/povm.py:Povm.calc_gradient",
    "quara/objects/gate.py:Gate.calc_gradient", "quara/objects/mprocess.py:MProcess.calc_gradient",
    "quara/objects/qoperations.py:SetQOperations.index_var_total_from_local_info",
    "quara/objects/qoperations.py:SetQOperations.local_info_from_index_var_total",
    "quara/objects/qoperations.py:SetQOperations.set_qoperations_from_var_total",
    "quara/protocol/qtomography/qtomography.py:QTomography.num_variables",
    "quara/protocol/qtomography/standard/standard_qst.py:StandardQst.__init__",
    "quara/protocol/qtomography/standard/standard_povmt.py:StandardPovmt.__init__",
    "quara/protocol/qtomography/standard/standard_qpt.py:StandardQpt.__init__",
    "quara/protocol/qtomography/standard/standard_qmpt.py:StandardQmpt.__init__",
]
REQUIRED_REACH = ANCHORS
REQUIRED_ORACLES = [
    "index.points-at-value", "index.bijective-onto-free-entries", "index.inverse-on-free-entries", "layout.placement",
    "roundtrip.var-obj-var", "roundtrip.obj-var-obj", "commute.var-to-stacked", "commute.stacked-to-var",
    "setq.bijection", "setq.rebuild-reproduces-members", "setq.out-of-range-raises",
    "num_variables.equals-len-to_var", "num_variables.reference-count",
    "history.second-call-same-var", "history.held-result-unchanged", "history.via-copy", "history.via-zero-obj", "history.via-origin-obj",
    "history.re-used-template", "history.after-set_zero",
]
MIN_EVALS = {"quick": 500000, "thorough": 1000000}
WATCHDOG = {"quick": 900, "thorough": 3600}
ASSUMPTIONS = [
    "workload uses the standard orthonormal identity-first bases (normalised Pauli / Gell-Mann and their tensor products); "
    "the constants of the built-in constraint are verified per CompositeSystem from the basis matrices",
    "the stacked vector of an object is the row-major concatenation of its raw arrays (vec | vecs | hs | hss)",
    "the order in which free variables are laid out is not fixed by the property: it is observed from quara's var->object "
    "conversion on an all-distinct probe and must be a bijection onto the free entries; everything else is judged against it",
]

TYPES = ["State", "Povm", "Gate", "MProcess"]
SHAPE_NAMES = ["S1", "S3", "S2", "S23"]
MS = [2, 3, 4, 5]
TOL_PASS, TOL_FAIL = 1e-14, 1e-9
HAS_M = {"State": False, "Povm": True, "Gate": False, "MProcess": True}
MODE = {"State": "state", "Povm": "povm", "Gate": "gate", "MProcess": "mprocess"}
RAWNAME = {"State": "vec", "Povm": "vecs", "Gate": "hs", "MProcess": "hss"}


def fl(flag):
    return "flag=T" if flag else "flag=F"


# ------------------------------------------------------------ reference model


def obj_shape(t, d, m):
    """shape of the array of real entries of an object (row-major stacking)"""
    q = d * d
    return {"State": (q,), "Povm": (m, q), "Gate": (q, q), "MProcess": (m, q, q)}[t]


def n_total(t, d, m):
    return int(np.prod(obj_shape(t, d, m)))


def implied_positions(t, d, m):
    """flat positions of the entries fixed by the equality constraint when it is built into the parametrisation.
    State: Tr rho = 1 fixes the identity coefficient; Povm: sum_x M_x = I fixes the last element; Gate: TP fixes the
    identity row of HS; MProcess: TP of the sum fixes the identity row of the last HS."""
    q = d * d
    if t == "State":
        return np.array([0])
    if t == "Povm":
        return np.arange((m - 1) * q, m * q)
    if t == "Gate":
        return np.arange(q)
    return (m - 1) * q * q + np.arange(q)


def free_positions(t, d, m, flag):
    N = n_total(t, d, m)
    if not flag:
        return np.arange(N)
    mask = np.ones(N, dtype=bool)
    mask[implied_positions(t, d, m)] = False
    return np.flatnonzero(mask)


def n_var(t, d, m, flag):
    return n_total(t, d, m) - (len(implied_positions(t, d, m)) if flag else 0)


def m_from_nvar(t, d, nv, flag):
    """outcome count for which a variable vector of length nv is well formed (0 for State/Gate); None if none"""
    q = d * d
    if t in ("State", "Gate"):
        return 0 if nv == n_var(t, d, 0, flag) else None
    if t == "Povm":
        k, r = divmod(nv, q)
        m = k + (1 if flag else 0)
    else:
        k, r = divmod(nv + (q if flag else 0), q * q)
        m = k
    if r != 0 or m < (2 if flag else 1):
        return None
    return m


def m_from_total(t, d, N):
    q = d * d
    if t in ("State", "Gate"):
        return 0 if N == n_total(t, d, 0) else None
    unit = q if t == "Povm" else q * q
    k, r = divmod(N, unit)
    return k if (r == 0 and k >= 1) else None


def fill_implied(t, d, m, s):
    """write the entries implied by the equality constraint into the flat vector s (free entries already set).
    Orthonormal identity-first basis: Tr B_a = sqrt(d) delta_a0, I = sqrt(d) B_0."""
    q = d * d
    if t == "State":
        s[0] = 1.0 / math.sqrt(d)          # Tr rho = sqrt(d) vec[0] = 1
    elif t == "Povm":
        A = s.reshape(m, q)
        for a in range(q):                  # M_last = I - sum_{x<last} M_x ; coefficients of I are sqrt(d) e_0
            A[m - 1, a] = math.fsum([math.sqrt(d) if a == 0 else 0.0] + [-float(A[x, a]) for x in range(m - 1)])
    elif t == "Gate":
        A = s.reshape(q, q)                 # Tr E(B_b) = sqrt(d) HS[0,b] = Tr B_b = sqrt(d) delta_b0
        A[0, :] = 0.0
        A[0, 0] = 1.0
    else:
        A = s.reshape(m, q, q)              # sum_x HS_x[0,b] = delta_b0
        for b in range(q):
            A[m - 1, 0, b] = math.fsum([1.0 if b == 0 else 0.0] + [-float(A[x, 0, b]) for x in range(m - 1)])
    return s


def as_vec(x):
    """1-D real ndarray as float64, else None (input the conversions are not defined on)"""
    if not isinstance(x, np.ndarray) or x.ndim != 1 or x.dtype.kind not in "fiu":
        return None
    return np.asarray(x, dtype=np.float64)


def flat_raw(t, raw, d):
    """row-major stacking of raw parameter arrays; None when they are not shaped like an object of type t"""
    q = d * d
    try:
        if t == "State":
            a = np.asarray(raw)
            ok = a.ndim == 1 and a.size == q
            out = a
        elif t == "Povm":
            parts = [np.asarray(v) for v in raw]
            ok = len(parts) >= 1 and all(p.ndim == 1 and p.size == q for p in parts)
            out = np.concatenate(parts) if ok else None
        elif t == "Gate":
            a = np.asarray(raw)
            ok = a.shape == (q, q)
            out = a.reshape(-1) if ok else None
        else:
            parts = [np.asarray(h) for h in raw]
            ok = len(parts) >= 1 and all(p.shape == (q, q) for p in parts)
            out = np.concatenate([p.reshape(-1) for p in parts]) if ok else None
        if not ok or out.dtype.kind not in "fiu":
            return None
        return np.asarray(out, dtype=np.float64)
    except Exception:
        return None


def norm_index(t, idx):
    """index returned / accepted by quara -> tuple of python ints (None if not index-like)"""
    try:
        if t == "State":
            if isinstance(idx, (bool, np.bool_)) or not isinstance(idx, (int, np.integer)):
                return None
            return (int(idx),)
        tup = tuple(idx)
        if len(tup) != (3 if t == "MProcess" else 2):
            return None
        if not all(isinstance(x, (int, np.integer)) and not isinstance(x, (bool, np.bool_)) for x in tup):
            return None
        return tuple(int(x) for x in tup)
    except Exception:
        return None


def is_int(x):
    return isinstance(x, (int, np.integer)) and not isinstance(x, (bool, np.bool_))


def make_binder(fn):
    sig = inspect.signature(fn)
    names = list(sig.parameters)
    defaults = {k: p.default for k, p in sig.parameters.items() if p.default is not inspect.Parameter.empty}

    def bind(a, kw):
        d = dict(defaults)
        for k, v in zip(names, a):
            d[k] = v
        d.update(kw)
        return d

    return bind


# ---------------------------------------------------------------------- judge


class Judge:
    def __init__(self, ctx, Q):
        self.ctx = ctx
        self.Q = Q
        self.hs = None
        self.layouts = {}
        self.basis_ok = {}
        self.keep = []
        self.state_dims = []     # dims for the State index converters (they get no c_sys)
        self.cur_dim = None
        self.vt_cache = None

    # -- basis constants of the constraint, verified from the basis matrices
    def basis_fine(self, c_sys):
        k = id(c_sys)
        if k in self.basis_ok:
            return self.basis_ok[k]
        try:
            B = gen.basis_of(c_sys)
            d = c_sys.dim
            tr = np.array([np.trace(b) for b in B])
            cI = ref.coeffs(B, np.eye(d))
            G, _ = ref.gram(B)
            e0 = np.zeros(d * d)
            e0[0] = math.sqrt(d)
            ok = (np.max(np.abs(tr - e0)) < 1e-12 and np.max(np.abs(cI - e0)) < 1e-12
                  and np.max(np.abs(G - np.eye(d * d))) < 1e-12)
        except Exception:
            ok = False
        self.keep.append(c_sys)
        self.basis_ok[k] = bool(ok)
        return bool(ok)

    def var_to_raw_fn(self, t):
        Q = self.Q
        return {"State": ("state.convert_var_to_vec", lambda *a: Q.state_mod.convert_var_to_vec(*a)),
                "Povm": ("povm.convert_var_to_vecs", lambda *a: Q.povm_mod.convert_var_to_vecs(*a)),
                "Gate": ("gate.convert_var_to_hs", lambda *a: Q.gate_mod.convert_var_to_hs(*a)),
                "MProcess": ("mprocess.convert_var_to_hss", lambda *a: Q.mprocess_mod.convert_var_to_hss(*a))}[t]

    # -- observed placement of the variables
    def layout(self, t, c_sys, m, flag):
        """(L, Linv): L[i] = flat position of the entry that holds var[i]; None if quara's placement is not a
        bijection onto the free entries (recorded as a violation once per process)."""
        flag = bool(flag)
        d = c_sys.dim
        key = (t, d, m, flag)
        if key in self.layouts:
            return self.layouts[key]
        ctx = self.ctx
        n, N = n_var(t, d, m, flag), n_total(t, d, m)
        v = 1.5 + np.arange(n, dtype=np.float64)
        label, fn = self.var_to_raw_fn(t)
        kbase = f"{label}:{t}:{fl(flag)}"
        info = {"type": t, "d": d, "m": m, "flag": flag, "probe": "1.5,2.5,..."}
        out = None
        with self.hs.paused():
            try:
                raw = fn(c_sys, v.copy(), flag)
                s = flat_raw(t, raw, d)
            except Exception as e:  # noqa: BLE001
                ctx.violation(f"{kbase}:{ctx.exc_key(e)}", info)
                self.layouts[key] = None
                return None
        why = None
        if s is None or s.size != N:
            why = "shape"
        else:
            # every probe value must sit in exactly one free entry (what the implied entries hold is judged separately,
            # so a coincidence between an implied value and a probe value cannot confuse the placement)
            fp = free_positions(t, d, m, flag)
            sf = s[fp]
            k = np.rint(sf - 1.5)
            hit = (sf - 1.5 == k) & (k >= 0) & (k < n)
            pos = fp[np.flatnonzero(hit)]
            idx = k[hit].astype(int)
            cnt = np.bincount(idx, minlength=n) if n else np.zeros(0, int)
            if n and not np.all(cnt == 1):
                why = "placement-not-bijective-onto-free-entries"
            else:
                L = np.zeros(n, dtype=int)
                L[idx] = pos
                if not np.array_equal(np.sort(L), fp):
                    why = "placement-not-bijective-onto-free-entries"
                else:
                    Linv = -np.ones(N, dtype=int)
                    Linv[L] = np.arange(n)
                    out = (L, Linv)
                    ctx.count("layout_row_major" if np.array_equal(L, fp) else "layout_other_order")
        ctx.truth("layout.placement", why is None, key=f"{kbase}:{why}", info=info)
        self.layouts[key] = out
        return out

    def expected_stacked(self, t, d, m, flag, var, L):
        s = np.zeros(n_total(t, d, m), dtype=np.float64)
        s[L] = var
        if flag:
            fill_implied(t, d, m, s)
        return s

    # -- generic comparisons
    def cmp_stacked(self, label, t, d, m, flag, got, want, scale, info, tag=""):
        """free entries must be copies, implied entries must be what the constraint implies (tag = history suffix)"""
        ctx = self.ctx
        kbase = f"{label}:{t}:{fl(flag)}"
        if got is None or got.shape != want.shape:
            ctx.truth(f"{label}.shape", False, key=f"{kbase}:shape" + tag, info=info)
            return
        ctx.truth(f"{label}.shape", True)
        diff = np.abs(got - want)
        if flag:
            ip = implied_positions(t, d, m)
            e_imp = float(np.max(diff[ip])) if ip.size else 0.0
            diff = diff.copy()
            diff[ip] = 0.0
            mm = max(1, m)
            ctx.num(f"{label}.implied", e_imp / (scale * mm), TOL_PASS, TOL_FAIL, key=f"{kbase}:implied-entries" + tag, info=info)
        e_free = float(np.max(diff)) if diff.size else 0.0
        ctx.num(f"{label}.free", e_free / scale, TOL_PASS, TOL_FAIL, key=f"{kbase}:free-entries" + tag, info=info)

    def cmp_var(self, label, t, flag, got, want, info, tag=""):
        ctx = self.ctx
        kbase = f"{label}:{t}:{fl(flag)}"
        g = as_vec(got) if isinstance(got, np.ndarray) else None
        if g is None or g.shape != want.shape:
            ctx.truth(f"{label}.length", False, key=f"{kbase}:length" + tag, info=dict(info, got_len=None if g is None else int(g.size), want_len=int(want.size)))
            return
        ctx.truth(f"{label}.length", True)
        scale = max(1.0, float(np.max(np.abs(want))) if want.size else 1.0)
        err = float(np.max(np.abs(g - want))) / scale if want.size else 0.0
        ctx.num(f"{label}.values", err, TOL_PASS, TOL_FAIL, key=f"{kbase}:values" + tag, info=info)

    # -- var -> object direction (result given as flat stacked vector, or None if malformed)
    def judge_from_var(self, label, t, c_sys, var, flag, got_flat, exc=None, tag=""):
        ctx = self.ctx
        flag = bool(flag)
        v = as_vec(var)
        if v is None or not hasattr(c_sys, "dim") or not np.all(np.isfinite(v)):
            ctx.skip(f"{label}.unjudged-input")
            return
        d = c_sys.dim
        m = m_from_nvar(t, d, v.size, flag)
        if m is None or not self.basis_fine(c_sys):
            ctx.skip(f"{label}.unjudged-input")
            return
        info = {"type": t, "d": d, "m": m, "flag": flag, "n_var": int(v.size)}
        if exc is not None:
            ctx.violation(f"{label}:{t}:{fl(flag)}:{ctx.exc_key(exc)}" + tag, info)
            return
        lay = self.layout(t, c_sys, m, flag)
        if lay is None:
            ctx.skip(f"{label}.no-layout")
            return
        want = self.expected_stacked(t, d, m, flag, v, lay[0])
        scale = max(1.0, float(np.max(np.abs(v))) if v.size else 1.0)
        self.cmp_stacked(label, t, d, m, flag, got_flat, want, scale, info, tag=tag)

    # -- object -> var direction
    def judge_to_var(self, label, t, c_sys, s, flag, got, exc=None):
        ctx = self.ctx
        flag = bool(flag)
        if s is None or not hasattr(c_sys, "dim") or not np.all(np.isfinite(s)):
            ctx.skip(f"{label}.unjudged-input")
            return
        d = c_sys.dim
        m = m_from_total(t, d, s.size)
        if m is None or (flag and HAS_M[t] and m < 2) or not self.basis_fine(c_sys):
            ctx.skip(f"{label}.unjudged-input")
            return
        info = {"type": t, "d": d, "m": m, "flag": flag}
        if exc is not None:
            ctx.violation(f"{label}:{t}:{fl(flag)}:{ctx.exc_key(exc)}", info)
            return
        lay = self.layout(t, c_sys, m, flag)
        if lay is None:
            ctx.skip(f"{label}.no-layout")
            return
        self.cmp_var(label, t, flag, got, s[lay[0]], info)

    # -- index maps
    def judge_index_fwd(self, label, t, c_sys, m, flag, i, result, exc=None):
        ctx = self.ctx
        flag = bool(flag)
        d = c_sys.dim
        if not is_int(i) or (HAS_M[t] and m < (2 if flag else 1)) or not (0 <= i < n_var(t, d, m, flag)):
            ctx.skip(f"{label}.unjudged-input")
            return
        info = {"type": t, "d": d, "m": m, "flag": flag, "var_index": int(i)}
        if exc is not None:
            ctx.violation(f"{label}:{t}:{fl(flag)}:{ctx.exc_key(exc)}", info)
            return
        lay = self.layout(t, c_sys, m, flag)
        if lay is None:
            ctx.skip(f"{label}.no-layout")
            return
        want = tuple(int(x) for x in np.unravel_index(int(lay[0][i]), obj_shape(t, d, m)))
        got = norm_index(t, result)
        ctx.truth(label, got == want, key=f"{label}:{t}:{fl(flag)}:wrong-entry", info=dict(info, got=repr(result), want=list(want)))

    def judge_index_inv(self, label, t, c_sys, m, flag, idx, result, exc=None):
        ctx = self.ctx
        flag = bool(flag)
        d = c_sys.dim
        tup = norm_index(t, idx)
        shp = obj_shape(t, d, m) if (not HAS_M[t] or m >= 1) else None
        if tup is None or shp is None or (HAS_M[t] and flag and m < 2) or not all(0 <= a < b for a, b in zip(tup, shp)):
            ctx.skip(f"{label}.unjudged-input")
            return
        p = int(np.ravel_multi_index(tup, shp))
        lay = self.layout(t, c_sys, m, flag)
        if lay is None:
            ctx.skip(f"{label}.no-layout")
            return
        want = int(lay[1][p])
        if want < 0:
            ctx.skip(f"{label}.implied-entry")   # entry carries no variable: the property is silent
            return
        info = {"type": t, "d": d, "m": m, "flag": flag, "entry": list(tup), "want": want}
        if exc is not None:
            ctx.violation(f"{label}:{t}:{fl(flag)}:{ctx.exc_key(exc)}", info)
            return
        ok = is_int(result) and int(result) == want
        ctx.truth(label, ok, key=f"{label}:{t}:{fl(flag)}:wrong-variable", info=dict(info, got=repr(result)))

    # -- gradient
    def judge_gradient(self, label, obj, i, result, exc=None):
        ctx = self.ctx
        t = gen.type_of(obj)
        c_sys = obj.composite_system
        d = c_sys.dim
        flag = bool(obj.on_para_eq_constraint)
        s = flat_raw(t, gen.raw_params(obj), d)
        m = None if s is None else m_from_total(t, d, s.size)
        if m is None or (flag and HAS_M[t] and m < 2) or not is_int(i) or not (0 <= i < n_var(t, d, m, flag)) or not self.basis_fine(c_sys):
            ctx.skip(f"{label}.unjudged-input")
            return
        info = {"type": t, "d": d, "m": m, "flag": flag, "var_index": int(i)}
        if exc is not None:
            ctx.violation(f"{label}:{t}:{fl(flag)}:{ctx.exc_key(exc)}", info)
            return
        lay = self.layout(t, c_sys, m, flag)
        if lay is None:
            ctx.skip(f"{label}.no-layout")
            return
        kbase = f"{label}:{t}:{fl(flag)}"
        if gen.type_of(result) != t:
            ctx.truth(label, False, key=f"{kbase}:wrong-type", info=info)
            return
        g = flat_raw(t, gen.raw_params(result), d)
        N = n_total(t, d, m)
        if g is None or g.size != N:
            ctx.truth(label, False, key=f"{kbase}:shape", info=info)
            return
        want = np.zeros(N)
        want[lay[0][i]] = 1.0
        ok = np.array_equal(g, want)
        if not ok and flag:
            # the derivative of the implied entries w.r.t. this variable is an equally valid reading of "gradient"
            alt = fill_implied(t, d, m, want.copy()) - fill_implied(t, d, m, np.zeros(N))
            ok = np.array_equal(g, alt)
        nz = np.flatnonzero(g)
        ctx.truth(label, ok, key=f"{kbase}:not-one-hot-at-entry",
                  info=dict(info, nonzero_at=[list(map(int, np.unravel_index(int(p), obj_shape(t, d, m)))) for p in nz[:4]],
                            want_at=list(map(int, np.unravel_index(int(lay[0][i]), obj_shape(t, d, m))))))

    # -- SetQOperations helpers
    def member_var(self, obj):
        """reference variable vector of a member (free entries of its raw arrays in the observed placement)"""
        t = gen.type_of(obj)
        if t not in TYPES:
            return None
        c_sys = obj.composite_system
        d = c_sys.dim
        s = flat_raw(t, gen.raw_params(obj), d)
        if s is None or not self.basis_fine(c_sys):
            return None
        m = m_from_total(t, d, s.size)
        flag = bool(obj.on_para_eq_constraint)
        if m is None or (flag and HAS_M[t] and m < 2):
            return None
        lay = self.layout(t, c_sys, m, flag)
        if lay is None:
            return None
        return s[lay[0]]

    def set_members(self, s):
        out = {}
        for mode in ("state", "gate", "povm", "mprocess"):
            out[mode] = list(s.qoperations(mode))
        return out

    def set_var_total(self, s):
        c = self.vt_cache
        if c is not None and c[0] is s:
            return c[1]
        with self.hs.paused():
            vt = np.asarray(s.var_total(), dtype=np.float64)
        self.vt_cache = (s, vt)
        return vt


# ---------------------------------------------------------------------- hooks


def install(ctx):
    Q = gen.q()
    from quara.objects.qoperation import QOperation
    from quara.objects.qoperations import SetQOperations
    from quara.protocol.qtomography.qtomography import QTomography

    hs = HookSet(ctx)
    J = Judge(ctx, Q)
    J.hs = hs
    J.SetQOperations = SetQOperations
    mods = {"State": Q.state_mod, "Povm": Q.povm_mod, "Gate": Q.gate_mod, "MProcess": Q.mprocess_mod}
    classes = {"State": Q.State, "Povm": Q.Povm, "Gate": Q.Gate, "MProcess": Q.MProcess}
    J.mods, J.classes = mods, classes

    def exact_type(obj):
        n = type(obj).__name__
        return n if n in TYPES and type(obj) is classes[n] else None

    for t in TYPES:
        mod, cls, rn, ix = mods[t], classes[t], RAWNAME[t], MODE[t]
        short = mod.__name__.split(".")[-1]

        # ---- module level var -> raw / raw -> var
        name = f"convert_var_to_{rn}"
        b1 = make_binder(getattr(mod, name))

        def post_v2r(result, snap, *a, _t=t, _b=b1, _l=f"{short}.{name}", **kw):
            b = _b(a, kw)
            c_sys = b["c_sys"]
            J.judge_from_var(_l, _t, c_sys, b["var"], b["on_para_eq_constraint"],
                             flat_raw(_t, result, c_sys.dim) if hasattr(c_sys, "dim") else None)

        def exc_v2r(exc, snap, *a, _t=t, _b=b1, _l=f"{short}.{name}", **kw):
            b = _b(a, kw)
            J.judge_from_var(_l, _t, b["c_sys"], b["var"], b["on_para_eq_constraint"], None, exc=exc)

        hs.function(mod, name, post=post_v2r, on_exc=exc_v2r)

        name = f"convert_{rn}_to_var"
        b2 = make_binder(getattr(mod, name))

        def post_r2v(result, snap, *a, _t=t, _b=b2, _l=f"{short}.{name}", _rn=rn, **kw):
            b = _b(a, kw)
            c_sys = b["c_sys"]
            s = flat_raw(_t, b[_rn], c_sys.dim) if hasattr(c_sys, "dim") else None
            J.judge_to_var(_l, _t, c_sys, s, b["on_para_eq_constraint"], result)

        def exc_r2v(exc, snap, *a, _t=t, _b=b2, _l=f"{short}.{name}", _rn=rn, **kw):
            b = _b(a, kw)
            c_sys = b["c_sys"]
            s = flat_raw(_t, b[_rn], c_sys.dim) if hasattr(c_sys, "dim") else None
            J.judge_to_var(_l, _t, c_sys, s, b["on_para_eq_constraint"], None, exc=exc)

        hs.function(mod, name, post=post_r2v, on_exc=exc_r2v)

        # ---- convert_var_to_<object> (State/Povm/Gate)
        name = f"convert_var_to_{ix}"
        if hasattr(mod, name):
            b3 = make_binder(getattr(mod, name))

            def post_v2o(result, snap, *a, _t=t, _b=b3, _l=f"{short}.{name}", **kw):
                b = _b(a, kw)
                c_sys = b["c_sys"]
                if exact_type(result) != _t:
                    ctx.truth(f"{_l}.type", False, key=f"{_l}:{_t}:wrong-type")
                    return
                J.judge_from_var(_l, _t, c_sys, b["var"], b["on_para_eq_constraint"], flat_raw(_t, gen.raw_params(result), c_sys.dim))
                ctx.truth(f"{_l}.flag", bool(result.on_para_eq_constraint) == bool(b["on_para_eq_constraint"]),
                          key=f"{_l}:{_t}:{fl(b['on_para_eq_constraint'])}:object-carries-other-flag")

            hs.function(mod, name, post=post_v2o)

        # ---- static stacked <-> var
        f = inspect.getattr_static(cls, "convert_var_to_stacked_vector").__func__
        b4 = make_binder(f)

        def post_v2s(result, snap, *a, _t=t, _b=b4, _l=f"{t}.convert_var_to_stacked_vector", **kw):
            b = _b(a, kw)
            J.judge_from_var(_l, _t, b["c_sys"], b["var"], b["on_para_eq_constraint"], as_vec(result) if isinstance(result, np.ndarray) else None)

        def exc_v2s(exc, snap, *a, _t=t, _b=b4, _l=f"{t}.convert_var_to_stacked_vector", **kw):
            b = _b(a, kw)
            J.judge_from_var(_l, _t, b["c_sys"], b["var"], b["on_para_eq_constraint"], None, exc=exc)

        hs.method(cls, "convert_var_to_stacked_vector", post=post_v2s, on_exc=exc_v2s)

        f = inspect.getattr_static(cls, "convert_stacked_vector_to_var").__func__
        b5 = make_binder(f)

        def post_s2v(result, snap, *a, _t=t, _b=b5, _l=f"{t}.convert_stacked_vector_to_var", **kw):
            b = _b(a, kw)
            J.judge_to_var(_l, _t, b["c_sys"], as_vec(b["stacked_vector"]), b["on_para_eq_constraint"], result)

        def exc_s2v(exc, snap, *a, _t=t, _b=b5, _l=f"{t}.convert_stacked_vector_to_var", **kw):
            b = _b(a, kw)
            J.judge_to_var(_l, _t, b["c_sys"], as_vec(b["stacked_vector"]), b["on_para_eq_constraint"], None, exc=exc)

        hs.method(cls, "convert_stacked_vector_to_var", post=post_s2v, on_exc=exc_s2v)

        # ---- to_var / to_stacked_vector / calc_gradient
        def post_to_var(result, snap, self, _t=t, _l=f"{t}.to_var"):
            if exact_type(self) != _t:
                return
            c_sys = self.composite_system
            J.judge_to_var(_l, _t, c_sys, flat_raw(_t, gen.raw_params(self), c_sys.dim), self.on_para_eq_constraint, result)

        def exc_to_var(exc, snap, self, _t=t, _l=f"{t}.to_var"):
            if exact_type(self) != _t:
                return
            c_sys = self.composite_system
            J.judge_to_var(_l, _t, c_sys, flat_raw(_t, gen.raw_params(self), c_sys.dim), self.on_para_eq_constraint, None, exc=exc)

        hs.method(cls, "to_var", post=post_to_var, on_exc=exc_to_var)

        def post_to_stacked(result, snap, self, _t=t, _l=f"{t}.to_stacked_vector"):
            if exact_type(self) != _t:
                return
            s = flat_raw(_t, gen.raw_params(self), self.composite_system.dim)
            if s is None or not np.all(np.isfinite(s)):
                ctx.skip(f"{_l}.unjudged-input")
                return
            J.cmp_var(_l, _t, self.on_para_eq_constraint, result, s, {"type": _t, "d": self.composite_system.dim})

        hs.method(cls, "to_stacked_vector", post=post_to_stacked)

        def post_grad(result, snap, self, *a, _t=t, _l=f"{t}.calc_gradient", **kw):
            if exact_type(self) != _t:
                return
            i = kw.get("var_index", a[0] if a else None)
            J.judge_gradient(_l, self, i, result)

        def exc_grad(exc, snap, self, *a, _t=t, _l=f"{t}.calc_gradient", **kw):
            if exact_type(self) != _t:
                return
            i = kw.get("var_index", a[0] if a else None)
            J.judge_gradient(_l, self, i, None, exc=exc)

        hs.method(cls, "calc_gradient", post=post_grad, on_exc=exc_grad)

        # ---- index converters
        nf, ni = f"convert_var_index_to_{ix}_index", f"convert_{ix}_index_to_var_index"
        bf, bi = make_binder(getattr(mod, nf)), make_binder(getattr(mod, ni))

        def idx_ctx(b, _t=t, _rn=rn):
            """[(c_sys, m)] configurations a call is judged for"""
            if _t == "State":
                dims = [J.cur_dim] if J.cur_dim else list(J.state_dims)
                return [(J.csys_by_dim[d], 0) for d in dims if d in J.csys_by_dim]
            c_sys = b["c_sys"]
            if not hasattr(c_sys, "dim") or not J.basis_fine(c_sys):
                return []
            if _t == "Gate":
                return [(c_sys, 0)]
            try:
                return [(c_sys, len(b[_rn]))]
            except Exception:
                return []

        def post_fwd(result, snap, *a, _t=t, _b=bf, _l=f"{short}.{nf}", _c=idx_ctx, exc=None, **kw):
            b = _b(a, kw)
            cfgs = _c(b)
            if not cfgs:
                ctx.skip(f"{_l}.unjudged-input")
            for c_sys, m in cfgs:
                J.judge_index_fwd(_l, _t, c_sys, m, b["on_para_eq_constraint"], b["var_index"], result, exc=exc)

        def exc_fwd(exc, snap, *a, _p=post_fwd, **kw):
            _p(None, snap, *a, exc=exc, **kw)

        hs.function(mod, nf, post=post_fwd, on_exc=exc_fwd)

        def post_inv(result, snap, *a, _t=t, _b=bi, _l=f"{short}.{ni}", _c=idx_ctx, _k=f"{ix}_index", exc=None, **kw):
            b = _b(a, kw)
            cfgs = _c(b)
            if not cfgs:
                ctx.skip(f"{_l}.unjudged-input")
            for c_sys, m in cfgs:
                J.judge_index_inv(_l, _t, c_sys, m, b["on_para_eq_constraint"], b[_k], result, exc=exc)

        def exc_inv(exc, snap, *a, _p=post_inv, **kw):
            _p(None, snap, *a, exc=exc, **kw)

        hs.function(mod, ni, post=post_inv, on_exc=exc_inv)

    # ---- generate_from_var (QOperation for State/Povm/Gate, overridden by MProcess)
    def mk_gfv(owner, label):
        bg = make_binder(inspect.getattr_static(owner, "generate_from_var"))

        def post(result, snap, *a, **kw):
            b = bg(a, kw)
            self = b["self"]
            t = exact_type(self)
            if t is None:
                return
            flag = self.on_para_eq_constraint if b["on_para_eq_constraint"] is None else b["on_para_eq_constraint"]
            c_sys = self.composite_system
            kbase = f"generate_from_var:{t}:{fl(flag)}"
            if exact_type(result) != t:
                ctx.truth("generate_from_var.type", False, key=f"{kbase}:wrong-type")
                return
            ctx.truth("generate_from_var.type", True)
            ctx.truth("generate_from_var.flag", bool(result.on_para_eq_constraint) == bool(flag), key=f"{kbase}:object-carries-other-flag")
            ctx.truth("generate_from_var.c_sys", result.composite_system is c_sys or getattr(result.composite_system, "dim", None) == c_sys.dim,
                      key=f"{kbase}:other-composite-system")
            J.judge_from_var("generate_from_var", t, c_sys, b["var"], flag, flat_raw(t, gen.raw_params(result), c_sys.dim))

        hs.method(owner, "generate_from_var", post=post, label=label)

    mk_gfv(QOperation, "QOperation.generate_from_var")
    mk_gfv(Q.MProcess, "MProcess.generate_from_var")

    # ---- SetQOperations
    MODES = ("state", "gate", "povm", "mprocess")
    b_t = make_binder(inspect.getattr_static(SetQOperations, "index_var_total_from_local_info"))
    b_l = make_binder(inspect.getattr_static(SetQOperations, "local_info_from_index_var_total"))
    b_s = make_binder(inspect.getattr_static(SetQOperations, "set_qoperations_from_var_total"))

    def post_total(result, snap, *a, **kw):
        b = b_t(a, kw)
        s, mode, j, i = b["self"], b["mode"], b["index_operations"], b["index_var_local"]
        lab = "SetQOperations.index_var_total_from_local_info"
        if mode not in MODES or not is_int(j) or not is_int(i):
            ctx.skip(lab + ".unjudged-input")
            return
        ops = list(s.qoperations(mode))
        mv = J.member_var(ops[j]) if 0 <= j < len(ops) else None
        if mv is None or not (0 <= i < mv.size):
            ctx.skip(lab + ".unjudged-input")
            return
        vt = J.set_var_total(s)
        info = {"mode": mode, "index_operations": int(j), "index_var_local": int(i), "got": repr(result), "size_total": int(vt.size)}
        ok = is_int(result) and 0 <= int(result) < vt.size
        ctx.truth(lab + ".in-range", ok, key=f"{lab}:{mode}:total-index-out-of-range", info=info)
        if ok:
            ctx.truth(lab + ".addresses-variable", vt[int(result)] == mv[i], key=f"{lab}:{mode}:addresses-other-variable", info=info)

    hs.method(SetQOperations, "index_var_total_from_local_info", post=post_total)

    def post_local(result, snap, *a, **kw):
        b = b_l(a, kw)
        s, k = b["self"], b["index_var_total"]
        lab = "SetQOperations.local_info_from_index_var_total"
        if not is_int(k):
            ctx.skip(lab + ".unjudged-input")
            return
        vt = J.set_var_total(s)
        if not (0 <= k < vt.size):
            ctx.truth("setq.out-of-range-raises", False, key=f"{lab}:out-of-range-accepted", info={"k": int(k), "size_total": int(vt.size), "got": repr(result)})
            return
        info = {"k": int(k), "size_total": int(vt.size), "got": repr(result)}
        try:
            mode, j, i = result["mode"], result["index_operations"], result["index_var_local"]
        except Exception:
            ctx.truth(lab + ".well-formed", False, key=f"{lab}:malformed-result", info=info)
            return
        ops = list(s.qoperations(mode)) if mode in MODES else []
        mv = J.member_var(ops[j]) if (is_int(j) and 0 <= j < len(ops)) else None
        if mode in MODES and is_int(j) and 0 <= j < len(ops) and mv is None:
            ctx.skip(lab + ".unjudged-input")
            return
        ok = mv is not None and is_int(i) and 0 <= i < mv.size
        ctx.truth(lab + ".in-range", ok, key=f"{lab}:local-info-out-of-range", info=info)
        if not ok:
            return
        ctx.truth(lab + ".addresses-variable", vt[k] == mv[i], key=f"{lab}:{mode}:addresses-other-variable", info=info)
        try:
            back = s.index_var_total_from_local_info(mode, j, i)
        except Exception as e:  # noqa: BLE001
            back = f"{type(e).__name__}"
        ctx.truth(lab + ".inverse", is_int(back) and int(back) == int(k), key=f"{lab}:{mode}:not-inverse-of-index_var_total_from_local_info", info=dict(info, back=repr(back)))

    def exc_local(exc, snap, *a, **kw):
        b = b_l(a, kw)
        s, k = b["self"], b["index_var_total"]
        lab = "SetQOperations.local_info_from_index_var_total"
        if not is_int(k):
            ctx.skip(lab + ".unjudged-input")
            return
        vt = J.set_var_total(s)
        if 0 <= k < vt.size:
            ctx.violation(f"{lab}:in-range:{ctx.exc_key(exc)}", {"k": int(k), "size_total": int(vt.size)})
        else:
            ctx.truth("setq.out-of-range-raises", True)

    hs.method(SetQOperations, "local_info_from_index_var_total", post=post_local, on_exc=exc_local)

    def post_rebuild(result, snap, *a, **kw):
        b = b_s(a, kw)
        s, var_total = b["self"], b["var_total"]
        lab = "SetQOperations.set_qoperations_from_var_total"
        v = as_vec(var_total)
        if v is None or not np.all(np.isfinite(v)):
            ctx.skip(lab + ".unjudged-input")
            return
        old = J.set_members(s)
        if any(J.member_var(o) is None for mode in MODES for o in old[mode]):
            ctx.skip(lab + ".unjudged-input")
            return
        if not isinstance(result, SetQOperations):
            ctx.truth(lab + ".structure", False, key=f"{lab}:wrong-type")
            return
        new = J.set_members(result)
        same = all(len(old[mo]) == len(new[mo]) and all(
            type(x) is type(y) and x.composite_system.dim == y.composite_system.dim and bool(x.on_para_eq_constraint) == bool(y.on_para_eq_constraint)
            for x, y in zip(old[mo], new[mo])) for mo in MODES)
        ctx.truth(lab + ".structure", same, key=f"{lab}:members-changed-type-or-flag-or-system")
        if not same:
            return
        with hs.paused():
            try:
                vt2 = np.asarray(result.var_total(), dtype=np.float64)
            except Exception as e:  # noqa: BLE001
                ctx.violation(f"{lab}:var_total-of-result:{ctx.exc_key(e)}")
                return
        J.cmp_var(lab + ".var_total", "Set", True, vt2, v, {"size_total": int(v.size)})
        # every new member is exactly on its built-in constraint
        for mo in MODES:
            for y in new[mo]:
                t = gen.type_of(y)
                flag = bool(y.on_para_eq_constraint)
                d = y.composite_system.dim
                sy = flat_raw(t, gen.raw_params(y), d)
                if sy is None:
                    ctx.truth(lab + ".member", False, key=f"{lab}:{mo}:malformed-member")
                    continue
                m = m_from_total(t, d, sy.size)
                want = fill_implied(t, d, m, sy.copy()) if flag else sy
                scale = max(1.0, float(np.max(np.abs(sy)))) * max(1, m)
                ctx.num(lab + ".member-on-constraint", float(np.max(np.abs(sy - want))) / scale, TOL_PASS, TOL_FAIL,
                        key=f"{lab}:{mo}:{fl(flag)}:implied-entries", info={"type": t, "d": d, "m": m})

    def exc_rebuild(exc, snap, *a, **kw):
        b = b_s(a, kw)
        s, var_total = b["self"], b["var_total"]
        lab = "SetQOperations.set_qoperations_from_var_total"
        v = as_vec(var_total)
        if v is None or not np.all(np.isfinite(v)):
            ctx.skip(lab + ".unjudged-input")
            return
        vt = J.set_var_total(s)
        if v.size == vt.size:
            ctx.violation(f"{lab}:{ctx.exc_key(exc)}", {"size_total": int(vt.size)})
        else:
            ctx.truth(lab + ".wrong-length-raises", True)

    hs.method(SetQOperations, "set_qoperations_from_var_total", post=post_rebuild, on_exc=exc_rebuild)

    # ---- num_variables
    TOMO = {"StandardQst": ("State", "states"), "StandardPovmt": ("Povm", "povms"),
            "StandardQpt": ("Gate", "gates"), "StandardQmpt": ("MProcess", "mprocesses")}

    def post_numvar(result, snap, self):
        cn = type(self).__name__
        if cn not in TOMO:
            return
        t, attr = TOMO[cn]
        lab = f"{cn}.num_variables"
        try:
            tmpl = getattr(self._set_qoperations, attr)[0]
        except Exception:
            ctx.skip(lab + ".unjudged-input")
            return
        if exact_type(tmpl) != t:
            ctx.skip(lab + ".unjudged-input")
            return
        d = tmpl.composite_system.dim
        s = flat_raw(t, gen.raw_params(tmpl), d)
        m = None if s is None else m_from_total(t, d, s.size)
        flag = bool(tmpl.on_para_eq_constraint)
        if m is None:
            ctx.skip(lab + ".unjudged-input")
            return
        info = {"class": cn, "d": d, "m": m, "flag": flag, "got": repr(result)}
        want = n_var(t, d, m, flag)
        ctx.truth("num_variables.reference-count", is_int(result) and int(result) == want, key=f"{lab}:{fl(flag)}:differs-from-reference-count", info=dict(info, want=want))
        try:
            ln = len(tmpl.to_var())
        except Exception as e:  # noqa: BLE001
            ln = f"{type(e).__name__}"
        ctx.truth("num_variables.equals-len-to_var", is_int(result) and result == ln, key=f"{lab}:{fl(flag)}:differs-from-len-to_var", info=dict(info, len_to_var=ln))

    hs.method(QTomography, "num_variables", post=post_numvar)
    J.csys_by_dim = {}
    return hs, J


# ------------------------------------------------------------------- workload


def all_index_configs():
    out = []
    for t in TYPES:
        for shape in SHAPE_NAMES:
            for flag in (True, False):
                for m in (MS if HAS_M[t] else [0]):
                    out.append((t, shape, flag, m))
    return out


def shards(tier, seed):
    out = []

    def idx(t, cfgs, weight):
        out.append({"kind": "index", "type": t, "configs": [[s, f, m] for (s, f, m) in cfgs], "weight": weight})

    flags = (True, False)
    idx("State", [(s, f, 0) for s in SHAPE_NAMES for f in flags], 1)
    idx("Povm", [(s, f, m) for s in SHAPE_NAMES for f in flags for m in MS], 2)
    idx("Gate", [(s, f, 0) for s in ("S1", "S3", "S2") for f in flags], 2)
    idx("Gate", [("S23", f, 0) for f in flags], 6)
    idx("MProcess", [(s, f, m) for s in ("S1", "S3") for f in flags for m in MS], 6)
    for f in flags:
        idx("MProcess", [("S2", f, m) for m in MS], 8)
    for f in flags:
        for m in MS:
            idx("MProcess", [("S23", f, m)], 6 * m)
    n = {"quick": 80, "thorough": 3000}[tier]
    for t in TYPES:
        for s in SHAPE_NAMES:
            big = t in ("Gate", "MProcess") and s in ("S2", "S23")
            k = max(6, n // 5) if big else n
            out.append({"kind": "convert", "type": t, "shape": s, "n": k, "weight": (4 if big else 1) * k / 10})
    ns, nmix = {"quick": (16, 8), "thorough": (16, 64)}[tier]
    for i in range(ns):
        out.append({"kind": "setq", "n": nmix, "block": i, "weight": 5 * nmix})
    out.append({"kind": "numvar", "weight": 3})
    return out


def make_template(Q, t, c_sys, m, flag):
    d = c_sys.dim
    q = d * d
    kw = dict(is_physicality_required=False, on_para_eq_constraint=flag)
    if t == "State":
        return Q.State(c_sys, np.zeros(q), **kw)
    if t == "Povm":
        return Q.Povm(c_sys, [np.zeros(q) for _ in range(m)], **kw)
    if t == "Gate":
        return Q.Gate(c_sys, np.zeros((q, q)), **kw)
    return Q.MProcess(c_sys, [np.zeros((q, q)) for _ in range(m)], **kw)


def index_fns(Q, t, c_sys, obj, flag):
    """(forward label, forward, inverse label, inverse): module attributes are looked up at call time (hooked)"""
    if t == "State":
        return ("state.convert_var_index_to_state_index", lambda i: Q.state_mod.convert_var_index_to_state_index(i, flag),
                "state.convert_state_index_to_var_index", lambda ix: Q.state_mod.convert_state_index_to_var_index(ix[0], flag))
    if t == "Povm":
        return ("povm.convert_var_index_to_povm_index", lambda i: Q.povm_mod.convert_var_index_to_povm_index(c_sys, obj.vecs, i, flag),
                "povm.convert_povm_index_to_var_index", lambda ix: Q.povm_mod.convert_povm_index_to_var_index(c_sys, obj.vecs, ix, flag))
    if t == "Gate":
        return ("gate.convert_var_index_to_gate_index", lambda i: Q.gate_mod.convert_var_index_to_gate_index(c_sys, i, flag),
                "gate.convert_gate_index_to_var_index", lambda ix: Q.gate_mod.convert_gate_index_to_var_index(c_sys, ix, flag))
    return ("mprocess.convert_var_index_to_mprocess_index", lambda i: Q.mprocess_mod.convert_var_index_to_mprocess_index(c_sys, obj.hss, i, flag),
            "mprocess.convert_mprocess_index_to_var_index", lambda ix: Q.mprocess_mod.convert_mprocess_index_to_var_index(c_sys, ix, obj.hss, flag))


def get_csys(J, cache, shape):
    if shape not in cache:
        c = gen.make_csys(gen.SHAPES[shape])
        cache[shape] = c
        J.csys_by_dim.setdefault(c.dim, c)
        if c.dim not in J.state_dims:
            J.state_dims.append(c.dim)
        if not J.basis_fine(c):
            J.ctx.mark_inconclusive(f"basis of shape {shape} is not orthonormal identity-first: reference constants do not apply")
    return cache[shape]


def run_index_config(ctx, hs, J, Q, t, shape, c_sys, flag, m):
    d = c_sys.dim
    n, N = n_var(t, d, m, flag), n_total(t, d, m)
    shp = obj_shape(t, d, m)
    info0 = {"type": t, "shape": shape, "d": d, "m": m, "flag": flag}
    kcfg = f"{t}:{fl(flag)}"
    ok, tmpl = ctx.attempt(make_template, Q, t, c_sys, m, flag)
    if not ok:
        ctx.violation(f"{t}.ctor:{ctx.exc_key(tmpl)}", info0)
        return
    v = 1.5 + np.arange(n, dtype=np.float64)
    ok, obj = ctx.attempt(tmpl.generate_from_var, v.copy())
    if not ok:
        ctx.violation(f"generate_from_var:{kcfg}:{ctx.exc_key(obj)}", info0)
        return
    raw = flat_raw(t, gen.raw_params(obj), d)
    if raw is None or raw.size != N:
        ctx.violation(f"generate_from_var:{kcfg}:shape", info0)
        return
    # (vii)-like: length of the variable vector is the reference count
    ok, tv = ctx.attempt(obj.to_var)
    if ok:
        ctx.truth("to_var.length-is-reference-count", isinstance(tv, np.ndarray) and tv.shape == (n,), key=f"{t}.to_var:{kcfg}:length", info=info0)
    else:
        ctx.violation(f"{t}.to_var:{kcfg}:{ctx.exc_key(tv)}", info0)
    lf, fwd, li, inv = index_fns(Q, t, c_sys, obj, flag)
    J.cur_dim = d if t == "State" else None
    images = []
    try:
        for i in range(n):
            ok, idx = ctx.attempt(fwd, i)
            if not ok:
                ctx.violation(f"{lf}:{kcfg}:{ctx.exc_key(idx)}", dict(info0, var_index=i))
                continue
            tup = norm_index(t, idx)
            inside = tup is not None and all(0 <= a < b for a, b in zip(tup, shp))
            ctx.truth("index.inside-object", inside, key=f"{lf}:{kcfg}:index-outside-object", info=dict(info0, var_index=i, got=repr(idx)))
            if not inside:
                continue
            p = int(np.ravel_multi_index(tup, shp))
            images.append(p)
            ctx.truth("index.points-at-value", raw[p] == v[i], key=f"{lf}:{kcfg}:entry-does-not-hold-variable",
                      info=dict(info0, var_index=i, entry=list(tup), entry_value=float(raw[p]), variable_value=float(v[i])))
            ok, back = ctx.attempt(inv, tup)
            if not ok:
                ctx.violation(f"{li}:{kcfg}:{ctx.exc_key(back)}", dict(info0, entry=list(tup)))
            else:
                ctx.truth("index.inverse-of-forward", is_int(back) and int(back) == i, key=f"{li}:{kcfg}:not-inverse-of-forward-map",
                          info=dict(info0, var_index=i, entry=list(tup), got=repr(back)))
            ok, g = ctx.attempt(obj.calc_gradient, i)   # judged by the hook
            if not ok:
                ctx.count("calc_gradient_exceptions")
        fp = free_positions(t, d, m, flag)
        ctx.truth("index.bijective-onto-free-entries", len(images) == n and len(set(images)) == n and set(images) == set(fp.tolist()),
                  key=f"{lf}:{kcfg}:not-bijective-onto-free-entries", info=dict(info0, n_var=n, n_images=len(set(images))))
        # inverse map driven over every free entry (independently of the forward map's image)
        for p in fp.tolist():
            tup = tuple(int(x) for x in np.unravel_index(p, shp))
            ok, j = ctx.attempt(inv, tup)
            if not ok:
                ctx.violation(f"{li}:{kcfg}:{ctx.exc_key(j)}", dict(info0, entry=list(tup)))
                continue
            good = is_int(j) and 0 <= int(j) < n and v[int(j)] == raw[p]
            ctx.truth("index.inverse-on-free-entries", good, key=f"{li}:{kcfg}:free-entry-mapped-to-other-variable",
                      info=dict(info0, entry=list(tup), got=repr(j)))
    finally:
        J.cur_dim = None
    ctx.nontrivial("index", t, shape, flag, m)
    ctx.sample({"part": "index", "type": t, "shape": shape, "flag": flag, "m": m, "n_var": n, "n_entries": N,
                "probe": "var[i]=1.5+i", "first_images": [list(map(int, np.unravel_index(p, shp))) for p in images[:3]]})
    return [t, shape, bool(flag), int(m), int(n)]


def rand_var(rng, n, kind):
    if kind == "int":
        return rng.integers(-9, 10, size=n).astype(np.float64)
    if kind == "zero":
        return np.zeros(n)
    if kind == "distinct":
        return (1.5 + rng.permutation(n)).astype(np.float64)
    scale = 10.0 ** int(rng.integers(-3, 4))
    return scale * rng.standard_normal(n)


def phys_object(t, c_sys, m, rng, flag):
    kw = dict(on_para_eq_constraint=flag, is_physicality_required=False)
    if t == "State":
        return gen.rand_state(c_sys, rng, **kw)
    if t == "Povm":
        return gen.rand_povm(c_sys, m, rng, **kw)
    if t == "Gate":
        return gen.rand_gate(c_sys, rng, r=int(rng.integers(1, 3)), **kw)
    return gen.rand_mprocess(c_sys, m, rng, **kw)


def relerr(a, b, mult=1):
    a, b = np.asarray(a, dtype=np.float64).ravel(), np.asarray(b, dtype=np.float64).ravel()
    if a.shape != b.shape:
        return float("inf")
    if a.size == 0:
        return 0.0
    return float(np.max(np.abs(a - b))) / (max(1.0, float(np.max(np.abs(b)))) * mult)


def run_convert_case(ctx, hs, J, Q, t, shape, c_sys, rng, case):
    d = c_sys.dim
    cls, mod = J.classes[t], J.mods[t]
    flag = bool(rng.integers(0, 2))
    m = int(rng.choice(MS)) if HAS_M[t] else 0
    kcfg = f"{t}:{fl(flag)}"
    n, N = n_var(t, d, m, flag), n_total(t, d, m)
    mm = max(1, m)
    heavy = d >= 4 and t in ("Gate", "MProcess")
    kinds = ["gauss", "gauss", "gauss", "int", "distinct", "zero", "object"] + ([] if heavy and case % 4 else ["physical"])
    kind = str(rng.choice(kinds))
    info0 = {"type": t, "shape": shape, "d": d, "m": m, "flag": flag, "kind": kind}
    tflag = bool(rng.integers(0, 2))      # the template's own flag; the explicit argument must win
    tmpl = make_template(Q, t, c_sys, m, tflag)
    v2r, r2v = getattr(mod, f"convert_var_to_{RAWNAME[t]}"), getattr(mod, f"convert_{RAWNAME[t]}_to_var")

    def call(key, fn, *a, **kw):
        ok, val = ctx.attempt(fn, *a, **kw)
        if not ok:
            ctx.violation(f"{key}:{kcfg}:{ctx.exc_key(val)}", info0)
            return None
        return val

    if kind in ("physical", "object"):
        # ---- object first: (ii) obj -> var -> obj
        if kind == "physical":
            o = phys_object(t, c_sys, m, rng, flag)
        else:
            sc = 10.0 ** int(rng.integers(-2, 3))
            arr = sc * rng.standard_normal(N).reshape(obj_shape(t, d, m))
            rawarg = arr if t in ("State", "Gate") else [np.ascontiguousarray(x) for x in arr]
            o = cls(c_sys, rawarg, is_physicality_required=False, on_para_eq_constraint=flag)
        s0 = flat_raw(t, gen.raw_params(o), d)
        var = call(f"{t}.to_var", o.to_var)
        if var is None:
            return
        var = np.array(var, dtype=np.float64)
        o2 = call("generate_from_var", o.generate_from_var, var.copy())
        if o2 is None:
            return
        s2 = flat_raw(t, gen.raw_params(o2), d)
        fp = free_positions(t, d, m, flag)
        if s2 is None or s2.size != N:
            ctx.truth("roundtrip.obj-var-obj", False, key=f"roundtrip:obj->var->obj:{kcfg}:shape", info=info0)
            return
        # free entries are reproduced for every object; the whole object when it is on the built-in constraint
        ctx.num("roundtrip.obj-var-obj.free", relerr(s2[fp], s0[fp]), TOL_PASS, TOL_FAIL, key=f"roundtrip:obj->var->obj:{kcfg}:free-entries", info=info0)
        # an object on the built-in constraint is reproduced: the regenerated object equals the input with its implied
        # entries replaced by what the constraint implies (the input's own rounding residual eps_o is not quara's error)
        on = fill_implied(t, d, m, s0.copy()) if flag else s0
        eps_o = relerr(s0, on, mm)
        if kind == "physical" or not flag:
            ctx.num("roundtrip.obj-var-obj", relerr(s2, on, mm), TOL_PASS, TOL_FAIL, key=f"roundtrip:obj->var->obj:{kcfg}:object-on-constraint-not-reproduced",
                    info=dict(info0, input_constraint_residual=eps_o))
        st = call(f"{t}.to_stacked_vector", o.to_stacked_vector)
        if st is not None:
            vb = call(f"{t}.convert_stacked_vector_to_var", cls.convert_stacked_vector_to_var, c_sys, np.array(st, dtype=np.float64), flag)
            if vb is not None:
                ctx.num("commute.stacked-to-var", relerr(vb, var), TOL_PASS, TOL_FAIL, key=f"{t}.convert_stacked_vector_to_var!=to_var:{kcfg}", info=info0)
        rv = call(f"{mod.__name__.split('.')[-1]}.convert_{RAWNAME[t]}_to_var", r2v, c_sys, (list(o.vecs) if t == "Povm" else gen.raw_params(o)), flag)
        if rv is not None:
            ctx.num("commute.raw-to-var", relerr(rv, var), TOL_PASS, TOL_FAIL, key=f"convert_{RAWNAME[t]}_to_var!=to_var:{kcfg}", info=info0)
        ctx.nontrivial("convert", t, shape, flag, m, kind, s0)
        if case < 2:
            ctx.sample(dict(info0, part="convert", n_var=int(var.size), object_head=s0[:6]))
        return

    # ---- variable vector first: (i) var -> obj -> var, (iii) stacked forms commute
    var = rand_var(rng, n, kind)
    use_default = flag and rng.random() < 0.3          # exercise the default argument (True)
    if rng.random() < 0.5:
        o = call("generate_from_var", tmpl.generate_from_var, var.copy(), on_para_eq_constraint=flag)
    else:
        o = call("generate_from_var", make_template(Q, t, c_sys, m, flag).generate_from_var, var.copy())
    if o is None:
        return
    back = call(f"{t}.to_var", o.to_var)
    if back is not None:
        ctx.num("roundtrip.var-obj-var", relerr(back, var), TOL_PASS, TOL_FAIL, key=f"roundtrip:var->obj->var:{kcfg}", info=info0)
    st = call(f"{t}.to_stacked_vector", o.to_stacked_vector)
    args = (c_sys, var.copy()) if use_default else (c_sys, var.copy(), flag)
    sv = call(f"{t}.convert_var_to_stacked_vector", cls.convert_var_to_stacked_vector, *args)
    if st is not None and sv is not None:
        ctx.num("commute.var-to-stacked", relerr(sv, st, mm), TOL_PASS, TOL_FAIL, key=f"{t}.convert_var_to_stacked_vector!=generate_from_var.to_stacked_vector:{kcfg}", info=info0)
    if sv is not None:
        a2 = (c_sys, np.array(sv, dtype=np.float64)) if use_default else (c_sys, np.array(sv, dtype=np.float64), flag)
        vb = call(f"{t}.convert_stacked_vector_to_var", cls.convert_stacked_vector_to_var, *a2)
        if vb is not None:
            ctx.num("commute.stacked-to-var", relerr(vb, var), TOL_PASS, TOL_FAIL, key=f"{t}.convert_stacked_vector_to_var(convert_var_to_stacked_vector)!=id:{kcfg}", info=info0)
    raw = call(f"convert_var_to_{RAWNAME[t]}", v2r, *args)
    if raw is not None:
        fr = flat_raw(t, raw, d)
        if st is not None and fr is not None:
            ctx.num("commute.var-to-raw", relerr(fr, st, mm), TOL_PASS, TOL_FAIL, key=f"convert_var_to_{RAWNAME[t]}!=generate_from_var:{kcfg}", info=info0)
        rawarg = list(raw) if t in ("Povm", "MProcess") else raw
        a3 = (c_sys, rawarg) if use_default else (c_sys, rawarg, flag)
        rv = call(f"convert_{RAWNAME[t]}_to_var", r2v, *a3)
        if rv is not None:
            ctx.num("roundtrip.var-raw-var", relerr(rv, var), TOL_PASS, TOL_FAIL, key=f"roundtrip:var->{RAWNAME[t]}->var:{kcfg}", info=info0)
    if t != "MProcess":
        o3 = call(f"convert_var_to_{MODE[t]}", getattr(mod, f"convert_var_to_{MODE[t]}"), c_sys, var.copy(), is_physicality_required=False, on_para_eq_constraint=flag)
        if o3 is not None and st is not None:
            ctx.num("commute.var-to-object-fn", relerr(flat_raw(t, gen.raw_params(o3), d), st, mm), TOL_PASS, TOL_FAIL,
                    key=f"convert_var_to_{MODE[t]}!=generate_from_var:{kcfg}", info=info0)
    ctx.nontrivial("convert", t, shape, flag, m, kind, var)
    if case < 2:
        ctx.sample(dict(info0, part="convert", n_var=n, var_head=var[:6]))


ATTR = {"State": "states", "Gate": "gates", "Povm": "povms", "MProcess": "mprocesses"}
ORDER = ("State", "Gate", "Povm", "MProcess")


def rand_options(rng):
    """non-default values of the constructor options that do not select the parametrisation (no conversion may depend on
    them); the physicality check stays off because the workload is not restricted to physical objects"""
    return dict(is_physicality_required=False,
                is_estimation_object=bool(rng.integers(0, 2)),
                on_algo_eq_constraint=bool(rng.integers(0, 2)),
                on_algo_ineq_constraint=bool(rng.integers(0, 2)),
                mode_proj_order=str(rng.choice(["eq_ineq", "ineq_eq"])),
                eps_proj_physical=[None, 1e-3, 1e-7][int(rng.integers(0, 3))],
                eps_truncate_imaginary_part=[None, 1e-6][int(rng.integers(0, 2))])


def raw_object(cls, t, c_sys, m, flag, rng, opts, mp_shape=None):
    """object with arbitrary (non-physical, off the constraint) real entries, built with the given options"""
    d = c_sys.dim
    sc = 10.0 ** int(rng.integers(-2, 3))
    arr = sc * rng.standard_normal(n_total(t, d, m)).reshape(obj_shape(t, d, m))
    rawarg = arr if t in ("State", "Gate") else [np.ascontiguousarray(x) for x in arr]
    kw = dict(opts, on_para_eq_constraint=flag)
    if t == "MProcess" and mp_shape is not None:
        kw["shape"] = mp_shape               # non-default outcome shape: the variables do not depend on it
    return cls(c_sys, rawarg, **kw)


def run_object_history(ctx, hs, J, Q, cs, t, shape, c_sys, rng, case):
    """HISTORY / COMBINATION steps on single objects (own random stream; the base workload of the case is untouched).
    Three live objects of one class and shape: a and b share configuration and options and differ in their data, c has
    the other flag (and another outcome count), e (own stream) is of the same class on another system. They are asked alternately, asked again after other calls and after the
    public setters, reached through copy() / generate_zero_obj() / generate_origin_obj() / arithmetic, and `a` is asked
    again after set_zero(). Every library call is judged by the hooks against the object's CURRENT arrays; what only
    the driver can know (the arrays and flag the object was built with, the vector returned earlier) is judged here."""
    d = c_sys.dim
    cls = J.classes[t]
    flag = bool(rng.integers(0, 2))
    m = int(rng.choice(MS)) if HAS_M[t] else 0
    m_c = int(rng.choice([x for x in MS if x != m])) if HAS_M[t] else 0
    kcfg = f"{t}:{fl(flag)}"
    n, N = n_var(t, d, m, flag), n_total(t, d, m)
    n_c = n_var(t, d, m_c, not flag)
    mm = max(1, m)
    fp = free_positions(t, d, m, flag)
    opts = rand_options(rng)
    info0 = {"type": t, "shape": shape, "d": d, "m": m, "flag": flag, "part": "object-history",
             "options": {k: v for k, v in opts.items() if k != "is_physicality_required"}}
    mp_shape = (2, 2) if (t == "MProcess" and m == 4 and rng.random() < 0.5) else None
    try:
        a = raw_object(cls, t, c_sys, m, flag, rng, opts, mp_shape)
        b = raw_object(cls, t, c_sys, m, flag, rng, opts, mp_shape)
        c = raw_object(cls, t, c_sys, m_c, not flag, rng, rand_options(rng))
    except Exception as e:  # noqa: BLE001
        ctx.violation(f"{t}.ctor:{ctx.exc_key(e)}:non-default-options", info0)
        return
    lay = J.layout(t, c_sys, m, flag)
    if lay is None or not J.basis_fine(c_sys):
        ctx.skip("history.no-layout")
        return
    # an object of the same class on ANOTHER system lives in the same process and is asked in between (own stream)
    rng_e = ctx.rng(2)
    c_sys_e = get_csys(J, cs, "S3" if shape == "S1" else "S1")
    e_flag, e_m = bool(rng_e.integers(0, 2)), (int(rng_e.choice(MS)) if HAS_M[t] else 0)
    try:
        e = raw_object(cls, t, c_sys_e, e_m, e_flag, rng_e, rand_options(rng_e))
    except Exception:
        e = None

    def ask_e(tag=""):
        if e is None:
            return
        for nm, fn in ((f"{t}.to_var", e.to_var), (f"{t}.to_stacked_vector", e.to_stacked_vector)):
            ok, val = ctx.attempt(fn)                   # hooked: judged against e's own arrays and flag
            if not ok:
                ctx.violation(f"{nm}:{t}:{fl(e_flag)}:{ctx.exc_key(val)}:other-system-in-between" + tag, info0)
        ok, ve = ctx.attempt(e.to_var)
        if ok:
            ctx.attempt(cls.convert_var_to_stacked_vector, c_sys_e, ve, e_flag)
            ctx.attempt(e.generate_from_var, ve)
        prev, J.cur_dim = J.cur_dim, (c_sys_e.dim if t == "State" else None)   # State index converters get no c_sys
        try:
            ctx.attempt(e.calc_gradient, 0)
        finally:
            J.cur_dim = prev

    s_a, s_b = (np.array(flat_raw(t, gen.raw_params(o), d)) for o in (a, b))
    want_a, want_b = s_a[lay[0]], s_b[lay[0]]

    def call(key, fn, *args, tag="", **kw):
        ok, val = ctx.attempt(fn, *args, **kw)
        if not ok:
            ctx.violation(f"{key}:{kcfg}:{ctx.exc_key(val)}" + tag, info0)
            return None
        return val

    def soft(fn, *args, **kw):
        """calls whose failure is not this property's business (arithmetic, copy, setters): an exception ends the step"""
        ok, val = ctx.attempt(fn, *args, **kw)
        if not ok:
            ctx.count("history.step-unavailable:" + type(val).__name__)
            return None
        return val

    def judge_back(o2, s0, tag):
        """obj -> var -> obj: free entries reproduced, implied entries are what the constraint implies"""
        if o2 is None:
            return
        s2 = flat_raw(t, gen.raw_params(o2), d) if gen.type_of(o2) == t else None
        if s2 is None or s2.size != N:
            ctx.truth("roundtrip.obj-var-obj", False, key=f"roundtrip:obj->var->obj:{kcfg}:shape" + tag, info=info0)
            return
        ctx.num("roundtrip.obj-var-obj.free", relerr(s2[fp], s0[fp]), TOL_PASS, TOL_FAIL, key=f"roundtrip:obj->var->obj:{kcfg}:free-entries" + tag, info=info0)
        on = fill_implied(t, d, m, s0.copy()) if flag else s0
        ctx.num("roundtrip.obj-var-obj", relerr(s2, on, mm), TOL_PASS, TOL_FAIL, key=f"roundtrip:obj->var->obj:{kcfg}:object-on-constraint-not-reproduced" + tag, info=info0)

    def judge_var(label, got, want, tag, oracle):
        if got is None:
            return
        g = as_vec(got) if isinstance(got, np.ndarray) else None
        if g is None or g.shape != want.shape:
            ctx.truth(oracle, False, key=f"{label}:{kcfg}:length" + tag, info=dict(info0, got_len=None if g is None else int(g.size), want_len=int(want.size)))
            return
        ctx.num(oracle, relerr(g, want), TOL_PASS, TOL_FAIL, key=f"{label}:{kcfg}:values" + tag, info=info0)

    # ---- first queries, alternating between the three objects
    va = call(f"{t}.to_var", a.to_var)
    vc = call(f"{t}.to_var", c.to_var)
    vb = call(f"{t}.to_var", b.to_var)
    ask_e()
    sa = call(f"{t}.to_stacked_vector", a.to_stacked_vector)
    if va is None or vb is None or vc is None or sa is None:
        return
    ctx.truth("to_var.length-is-reference-count", isinstance(va, np.ndarray) and va.shape == (n,), key=f"{t}.to_var:{kcfg}:length:non-default-options", info=info0)
    ctx.truth("to_var.length-is-reference-count", isinstance(vc, np.ndarray) and vc.shape == (n_c,), key=f"{t}.to_var:{t}:{fl(not flag)}:length:non-default-options", info=info0)
    va0, vb0, vc0, sa0 = (np.array(x, dtype=np.float64, copy=True) for x in (va, vb, vc, sa))
    # ---- the vectors returned above (not copies) go back in, after the other objects were asked
    judge_back(call("generate_from_var", a.generate_from_var, va, tag=":interleaved"), s_a, ":interleaved")
    judge_back(call("generate_from_var", b.generate_from_var, vb, tag=":interleaved"), s_b, ":interleaved")
    # ---- static forms, explicit and default flag argument alternating (default = True)
    v_true, v_false = (va, vc) if flag else (vc, va)
    call(f"{t}.convert_var_to_stacked_vector", cls.convert_var_to_stacked_vector, c_sys, v_true)
    call(f"{t}.convert_var_to_stacked_vector", cls.convert_var_to_stacked_vector, c_sys, v_false, False)
    sv = call(f"{t}.convert_var_to_stacked_vector", cls.convert_var_to_stacked_vector, c_sys, v_true)
    call(f"{t}.convert_stacked_vector_to_var", cls.convert_stacked_vector_to_var, c_sys, sa, on_para_eq_constraint=flag)
    if sv is not None:
        call(f"{t}.convert_stacked_vector_to_var", cls.convert_stacked_vector_to_var, c_sys, sv)
    # ---- gradients and index maps of a and c alternately (hooks judge)
    J.cur_dim = d if t == "State" else None
    try:
        lf, fwd_a, li, inv_a = index_fns(Q, t, c_sys, a, flag)
        _, fwd_c, _, inv_c = index_fns(Q, t, c_sys, c, not flag)
        for _ in range(3):
            i, j = int(rng.integers(0, n)), int(rng.integers(0, n_c))
            ga = call(f"{t}.calc_gradient", a.calc_gradient, i)
            call(f"{t}.calc_gradient", c.calc_gradient, j)
            ia = call(lf, fwd_a, i)
            ic = call(lf, fwd_c, j)
            if ia is not None and norm_index(t, ia) is not None:
                call(li, inv_a, norm_index(t, ia))
            if ic is not None and norm_index(t, ic) is not None:
                call(li, inv_c, norm_index(t, ic))
            if ga is not None and gen.type_of(ga) == t:
                call(f"{t}.to_var", ga.to_var)
    finally:
        J.cur_dim = None
    # ---- objects returned by arithmetic (provenance only: their own conversions are judged by the hooks)
    ops = [lambda: a + b, lambda: a - b, lambda: a * 2.5, lambda: 0.5 * a, lambda: a / 4.0]
    for k in rng.permutation(len(ops))[:2]:
        x = soft(ops[int(k)])
        if x is not None and gen.type_of(x) == t:
            xv = call(f"{t}.to_var", x.to_var)
            if xv is not None:
                call("generate_from_var", x.generate_from_var, xv)
    # ---- copy(): the copy is the object
    ac = soft(a.copy)
    if ac is not None:
        vac = call(f"{t}.to_var", ac.to_var, tag=":via-copy")
        judge_var(f"{t}.to_var", vac, want_a, ":via-copy", "history.via-copy")
        if vac is not None:
            judge_back(call("generate_from_var", a.generate_from_var, vac, tag=":via-copy"), s_a, ":via-copy")
    # ---- zero / origin objects live in the variable space of their parent (the library's projection closures use the zero
    #      object as the template of generate_from_var, the minimisation algorithms start from origin.to_var())
    z = soft(a.generate_zero_obj)
    if z is not None:
        zv = call(f"{t}.to_var", z.to_var, tag=":via-zero-obj")
        judge_var(f"{t}.to_var", zv, np.zeros(n), ":via-zero-obj", "history.via-zero-obj")
        judge_back(call("generate_from_var", z.generate_from_var, va, tag=":via-zero-obj"), s_a, ":via-zero-obj")
    og = soft(a.generate_origin_obj)
    if og is not None:
        ov = call(f"{t}.to_var", og.to_var, tag=":via-origin-obj")
        if ov is not None:
            ctx.truth("history.via-origin-obj", isinstance(ov, np.ndarray) and ov.shape == (n,), key=f"{t}.to_var:{kcfg}:length:via-origin-obj", info=info0)
            call("generate_from_var", og.generate_from_var, ov, tag=":via-origin-obj")
    ask_e(":second-call")
    # ---- public setters that do not touch the parameters
    soft(a.set_mode_proj_order, "ineq_eq" if opts["mode_proj_order"] == "eq_ineq" else "eq_ineq")
    soft(setattr, a, "eps_truncate_imaginary_part", 1e-7)
    # ---- ask again: same answers, and the vectors handed out earlier still hold what they held
    va1 = call(f"{t}.to_var", a.to_var, tag=":second-call")
    judge_var(f"{t}.to_var", va1, want_a, ":second-call", "history.second-call-same-var")
    judge_var(f"{t}.to_var", call(f"{t}.to_var", b.to_var, tag=":second-call"), want_b, ":second-call", "history.second-call-same-var")
    judge_var(f"{t}.to_var", call(f"{t}.to_var", c.to_var, tag=":second-call"), vc0, ":second-call", "history.second-call-same-var")
    judge_var(f"{t}.to_stacked_vector", call(f"{t}.to_stacked_vector", a.to_stacked_vector, tag=":second-call"), s_a, ":second-call", "history.second-call-same-var")
    for nm, held, first in ((f"{t}.to_var", va, va0), (f"{t}.to_var", vb, vb0), (f"{t}.to_var", vc, vc0), (f"{t}.to_stacked_vector", sa, sa0)):
        ctx.num("history.held-result-unchanged", relerr(held, first) if isinstance(held, np.ndarray) and held.shape == first.shape else float("inf"),
                TOL_PASS, TOL_FAIL, key=f"{nm}:{t}:result-held-by-caller-changed-by-later-calls", info=info0)
    if va1 is not None:
        judge_back(call("generate_from_var", a.generate_from_var, va1, tag=":second-call"), s_a, ":second-call")
    # ---- one template serves several calls: explicit options on one call must not stick to the next
    tmpl = soft(make_template, Q, t, c_sys, m, flag)
    if tmpl is not None:
        v_other = rand_var(rng, n_var(t, d, m, not flag), "distinct")
        call("generate_from_var", tmpl.generate_from_var, v_other, on_para_eq_constraint=not flag, is_estimation_object=not opts["is_estimation_object"],
             on_algo_eq_constraint=opts["on_algo_eq_constraint"], on_algo_ineq_constraint=opts["on_algo_ineq_constraint"], mode_proj_order=opts["mode_proj_order"])
        v_own = rand_var(rng, n, "gauss")
        r = call("generate_from_var", tmpl.generate_from_var, v_own.copy(), tag=":re-used-template")
        if r is not None and gen.type_of(r) == t:
            ctx.truth("generate_from_var.flag", bool(r.on_para_eq_constraint) == flag, key=f"generate_from_var:{kcfg}:object-carries-other-flag:re-used-template", info=info0)
            J.judge_from_var("generate_from_var", t, c_sys, v_own, flag, flat_raw(t, gen.raw_params(r), d), tag=":re-used-template")
            judge_var(f"{t}.to_var", call(f"{t}.to_var", r.to_var, tag=":re-used-template"), v_own, ":re-used-template", "history.re-used-template")
    # ---- public mutator: after set_zero() the object is the zero object (hooks: answers follow the current arrays)
    ok, _e = ctx.attempt(a.set_zero)
    if not ok:
        ctx.count("history.step-unavailable:set_zero")
    else:
        cur = flat_raw(t, gen.raw_params(a), d)
        if cur is not None and cur.size == N and not np.any(cur):
            vz = call(f"{t}.to_var", a.to_var, tag=":after-set_zero")
            judge_var(f"{t}.to_var", vz, np.zeros(n), ":after-set_zero", "history.after-set_zero")
            judge_var(f"{t}.to_stacked_vector", call(f"{t}.to_stacked_vector", a.to_stacked_vector, tag=":after-set_zero"), np.zeros(N), ":after-set_zero", "history.after-set_zero")
            J.cur_dim = d if t == "State" else None
            try:
                call(f"{t}.calc_gradient", a.calc_gradient, int(rng.integers(0, n)), tag=":after-set_zero")
            finally:
                J.cur_dim = None
            if vz is not None:
                call("generate_from_var", a.generate_from_var, vz, tag=":after-set_zero")
            if ac is not None:      # the copy taken before is a separate object
                judge_var(f"{t}.to_var", call(f"{t}.to_var", ac.to_var, tag=":via-copy"), want_a, ":via-copy:after-set_zero-of-original", "history.via-copy")
        else:
            ctx.count("history.set_zero-left-non-zero-arrays (not judged)")
    ctx.nontrivial("object-history", t, shape, flag, m, s_a)


def build_mix(ctx, J, Q, cs, rng):
    """random SetQOperations: 0-3 members per kind, mixed shapes / flags / outcome counts, all variable values distinct"""
    lists = {"State": [], "Gate": [], "Povm": [], "MProcess": []}
    desc = []
    base = 0.0
    for t in TYPES:
        k = int(rng.integers(0, 4))
        for _ in range(k):
            if t in ("State", "Povm"):
                shape = str(rng.choice(SHAPE_NAMES))
            elif t == "Gate":
                shape = str(rng.choice(["S1", "S1", "S1", "S3", "S3", "S2"]))
            else:
                shape = str(rng.choice(["S1", "S1", "S1", "S1", "S3"]))
            c_sys = get_csys(J, cs, shape)
            flag = bool(rng.integers(0, 2))
            m = int(rng.choice(MS)) if HAS_M[t] else 0
            if t == "MProcess" and shape == "S3":
                m = min(m, 3)
            d = c_sys.dim
            if rng.random() < 0.25 and not (t in ("Gate", "MProcess") and d > 3):
                o = phys_object(t, c_sys, m, rng, flag)
            else:
                n = n_var(t, d, m, flag)
                var = base + 1.5 + rng.permutation(n).astype(np.float64)
                base += n + 3
                o = make_template(Q, t, c_sys, m, flag).generate_from_var(var)
            lists[t].append(o)
            desc.append([t, shape, flag, m])
    return lists, desc


def judge_setq(ctx, s, lists, desc, rng, J, tag=""):
    """all set-wide oracles on the set `s` whose current member lists are `lists`; tag = history suffix of the keys"""
    info0 = {"members": desc, "history": tag or "fresh"}
    members = [(MODE[t], j, o) for t in ("State", "Gate", "Povm", "MProcess") for j, o in enumerate(lists[t])]
    mvars = [J.member_var(o) for (_, _, o) in members]
    if any(x is None for x in mvars):
        ctx.skip("setq.no-layout")
        return None
    want_size = sum(n_var(gen.type_of(o), o.composite_system.dim, (m_from_total(gen.type_of(o), o.composite_system.dim, flat_raw(gen.type_of(o), gen.raw_params(o), o.composite_system.dim).size)),
                          bool(o.on_para_eq_constraint)) for (_, _, o) in members)
    ok, size = ctx.attempt(s.size_var_total)
    ok2, vt = ctx.attempt(s.var_total)
    if not (ok and ok2):
        ctx.violation(f"SetQOperations.var_total:{ctx.exc_key(size if not ok else vt)}" + tag, info0)
        return None
    vt = np.asarray(vt, dtype=np.float64)
    ctx.truth("setq.size", is_int(size) and int(size) == want_size and vt.shape == (want_size,), key="SetQOperations.size_var_total:differs-from-sum-of-member-variable-counts" + tag,
              info=dict(info0, got=repr(size), want=want_size, len_var_total=int(vt.size)))
    allv = np.concatenate(mvars) if mvars else np.zeros(0)
    ctx.truth("setq.var_total-is-union", vt.size == allv.size and np.array_equal(np.sort(vt), np.sort(allv)), key="SetQOperations.var_total:not-the-union-of-member-variables" + tag, info=info0)
    if vt.size != want_size:
        return None
    unique = np.unique(vt).size == vt.size
    # total -> local over the whole range
    seen = set()
    good = True
    for k in range(want_size):
        ok, li = ctx.attempt(s.local_info_from_index_var_total, k)
        if not ok:
            good = False
            continue        # the hook recorded the violation
        try:
            seen.add((li["mode"], int(li["index_operations"]), int(li["index_var_local"])))
        except Exception:
            good = False
    full = {(mo, j, i) for (mo, j, o), mv in zip(members, mvars) for i in range(mv.size)}
    ctx.truth("setq.bijection", good and seen == full, key="SetQOperations.local_info_from_index_var_total:not-a-bijection-onto-local-indices" + tag,
              info=dict(info0, size_total=want_size, n_distinct_local=len(seen), values_distinct=bool(unique)))
    # local -> total over every local index
    img = set()
    for (mo, j, o), mv in zip(members, mvars):
        for i in range(mv.size):
            ok, k = ctx.attempt(s.index_var_total_from_local_info, mo, j, i)
            if not ok:
                ctx.violation(f"SetQOperations.index_var_total_from_local_info:{mo}:{ctx.exc_key(k)}" + tag, info0)
                continue
            if is_int(k):
                img.add(int(k))
                if 0 <= k < want_size:
                    ok, li = ctx.attempt(s.local_info_from_index_var_total, int(k))
                    same = ok and (li.get("mode"), li.get("index_operations"), li.get("index_var_local")) == (mo, j, i)
                    ctx.truth("setq.inverse-local-total-local", bool(same), key=f"SetQOperations.index_var_total_from_local_info:{mo}:not-inverse-of-local_info_from_index_var_total" + tag,
                              info=dict(info0, local=[mo, j, i], total=int(k), back=repr(li)))
    ctx.truth("setq.bijection-local-to-total", img == set(range(want_size)), key="SetQOperations.index_var_total_from_local_info:not-a-bijection-onto-total-range" + tag,
              info=dict(info0, size_total=want_size, n_images=len(img)))
    # out of range must raise (the hook gives the verdict)
    for k in (-1, want_size, want_size + int(rng.integers(1, 50)), -int(rng.integers(2, 50))):
        ctx.attempt(s.local_info_from_index_var_total, k)
    # rebuild from its own var_total reproduces every member
    ok, s2 = ctx.attempt(s.set_qoperations_from_var_total, vt.copy())
    if ok:
        okm = True
        worst = 0.0
        try:
            for t in ("State", "Gate", "Povm", "MProcess"):
                new = list(s2.qoperations(MODE[t]))
                okm = okm and len(new) == len(lists[t])
                for a, b in zip(lists[t], new):
                    d = a.composite_system.dim
                    fa, fb = flat_raw(t, gen.raw_params(a), d), flat_raw(t, gen.raw_params(b), d)
                    m_ = m_from_total(t, d, fa.size)
                    mm = max(1, m_)
                    if a.on_para_eq_constraint:     # the member up to its own rounding residual on the constraint
                        fa = fill_implied(t, d, m_, fa.copy())
                    worst = max(worst, relerr(fb, fa, mm))
        except Exception:
            okm = False
        if okm:
            ctx.num("setq.rebuild-reproduces-members", worst, TOL_PASS, TOL_FAIL, key="SetQOperations.set_qoperations_from_var_total:member-not-reproduced" + tag, info=info0)
        else:
            ctx.truth("setq.rebuild-reproduces-members", False, key="SetQOperations.set_qoperations_from_var_total:member-count-changed" + tag, info=info0)
    # rebuild from a fresh (non-physical) vector: var_total of the result is that vector (hook), wrong length raises
    fresh = 10.0 ** int(rng.integers(-2, 3)) * rng.standard_normal(want_size)
    ctx.attempt(s.set_qoperations_from_var_total, fresh)
    ctx.attempt(s.set_qoperations_from_var_total, np.zeros(want_size + 1))
    return vt


def run_setq_case(ctx, hs, J, Q, cs, rng, case):
    SetQ = J.SetQOperations
    with hs.paused():
        lists, desc = build_mix(ctx, J, Q, cs, rng)
    ok, s = ctx.attempt(SetQ, states=lists["State"], gates=lists["Gate"], povms=lists["Povm"], mprocesses=lists["MProcess"])
    info0 = {"members": desc}
    if not ok:
        ctx.violation(f"SetQOperations.ctor:{ctx.exc_key(s)}", info0)
        return
    vt = judge_setq(ctx, s, lists, desc, rng, J)
    if vt is None:
        return
    # history: a member list is replaced through its setter after the set has been queried; every set-wide oracle must
    # hold for the new contents (the conversions point at the entries of the CURRENT members)
    if rng.random() < 0.6:
        with hs.paused():
            lists2, desc2 = build_mix(ctx, J, Q, cs, rng)
        kinds = [t for t in ("State", "Gate", "Povm", "MProcess") if rng.random() < 0.5] or [str(rng.choice(["State", "Gate", "Povm"]))]
        attr = {"State": "states", "Gate": "gates", "Povm": "povms", "MProcess": "mprocesses"}
        okset = True
        for t in kinds:
            ok, e = ctx.attempt(setattr, s, attr[t], lists2[t])
            if not ok:
                ctx.violation(f"SetQOperations.{attr[t]}.setter:{ctx.exc_key(e)}", {"members": desc, "new": desc2})
                okset = False
                break
            lists = dict(lists, **{t: lists2[t]})
            J.vt_cache = None   # the hooks' reference var_total is memoised per set object
        if okset:
            desc = [x for x in desc if x[0] not in kinds] + [x for x in desc2 if x[0] in kinds]
            desc.sort(key=lambda x: ("State", "Gate", "Povm", "MProcess").index(x[0]))
            ctx.count("setq.history:lists-replaced:" + "+".join(attr[t] for t in kinds))
            vt2 = judge_setq(ctx, s, lists, desc, rng, J, tag=":after-member-list-replaced")
            if vt2 is not None:
                ctx.nontrivial("setq-history", desc, vt2)
    ctx.nontrivial("setq", desc, vt)
    if case < 1:
        ctx.sample({"part": "setq", "members[type,shape,flag,m]": desc, "size_var_total": int(vt.size)})


SMALL_SHAPES = {"State": ["S1", "S3", "S2"], "Povm": ["S1", "S1", "S3"], "Gate": ["S1", "S1", "S1", "S1", "S1", "S3"], "MProcess": ["S1"]}


def build_small_mix(J, Q, cs, rng, base, like=None):
    """small member lists (0-2 per kind, small systems, all variable values distinct and above `base`); with `like`
    (configurations of another mix) the same number of members per kind, each with ANOTHER configuration, so that the
    same member counts go with other variable counts. Members come from generate_from_var, some through copy()."""
    lists = {t: [] for t in TYPES}
    cfgs = {t: [] for t in TYPES}
    for t in ORDER:
        k = len(like[t]) if like is not None else int(rng.integers(0, 3))
        for j in range(k):
            for _ in range(8):
                cfg = (str(rng.choice(SMALL_SHAPES[t])), bool(rng.integers(0, 2)), int(rng.integers(2, 5 if t == "Povm" else 4)) if HAS_M[t] else 0)
                if like is None or cfg != like[t][j]:
                    break
            shape, flag, m = cfg
            c_sys = get_csys(J, cs, shape)
            n = n_var(t, c_sys.dim, m, flag)
            var = base + 1.5 + rng.permutation(n).astype(np.float64)
            base += n + 3
            o = make_template(Q, t, c_sys, m, flag).generate_from_var(var)
            if rng.random() < 0.3:
                o = o.copy()
            lists[t].append(o)
            cfgs[t].append(cfg)
    return lists, cfgs, base


def mv_size(J, o):
    mv = J.member_var(o)
    return 0 if mv is None else int(mv.size)


def prime_setq(ctx, s, lists, rng, J, nq=8):
    """a handful of queries of every kind on a set (each judged by the hooks): the 'first query' of a history"""
    ok, vt = ctx.attempt(s.var_total)
    ok2, size = ctx.attempt(s.size_var_total)
    if not (ok and ok2) or not is_int(size) or len(vt) != size:
        return None         # the full passes report this
    vt = np.asarray(vt, dtype=np.float64)
    members = [(MODE[t], j, o) for t in ORDER for j, o in enumerate(lists[t])]
    for _ in range(nq if vt.size else 0):
        ctx.attempt(s.local_info_from_index_var_total, int(rng.integers(0, vt.size)))
        mo, j, o = members[int(rng.integers(0, len(members)))]
        mv = J.member_var(o)
        if mv is not None and mv.size:
            ctx.attempt(s.index_var_total_from_local_info, mo, j, int(rng.integers(0, mv.size)))
    ctx.attempt(s.local_info_from_index_var_total, int(vt.size))
    ctx.attempt(s.set_qoperations_from_var_total, vt.copy())
    return vt


def run_setq_history(ctx, hs, J, Q, cs, rng, case):
    """HISTORY / COMBINATION steps on whole sets (own random stream, small sets): two live sets with the SAME number of
    members per kind but other member sizes are asked one after the other (the first with a handful of queries, the
    second completely) and then alternately; member lists of the first are replaced through the setters by lists of the
    SAME length; the set returned by set_qoperations_from_var_total is itself asked everything (in half of the cases
    after one of its lists has been replaced). All verdicts come from judge_setq and from the hooks, i.e. from the
    oracles of the fresh case; keys of the later passes carry the name of the step."""
    SetQ = J.SetQOperations
    with hs.paused():
        A, cfgA, base = build_small_mix(J, Q, cs, rng, 0.0)
        if not any(A[t] for t in TYPES):
            A, cfgA, base = build_small_mix(J, Q, cs, rng, 0.0)
        B, cfgB, base = build_small_mix(J, Q, cs, rng, base, like=cfgA)
    if not any(A[t] for t in TYPES):
        ctx.count("setq.history:empty-mix-skipped")
        return

    def desc_of(cfgs):
        return [[t, *cfgs[t][j]] for t in ORDER for j in range(len(cfgs[t]))]

    descA, descB = desc_of(cfgA), desc_of(cfgB)
    ok, sA = ctx.attempt(SetQ, states=list(A["State"]), gates=list(A["Gate"]), povms=list(A["Povm"]), mprocesses=list(A["MProcess"]))
    if not ok:
        ctx.violation(f"SetQOperations.ctor:{ctx.exc_key(sA)}", {"members": descA})
        return
    # the second set is built empty and filled through the setters in half of the cases
    via_setters = rng.random() < 0.5
    if via_setters:
        ok, sB = ctx.attempt(SetQ)
        for t in (ORDER if ok else ()):
            ok2, e = ctx.attempt(setattr, sB, ATTR[t], list(B[t]))
            if not ok2:
                ctx.violation(f"SetQOperations.{ATTR[t]}.setter:{ctx.exc_key(e)}", {"members": descB})
                return
    else:
        ok, sB = ctx.attempt(SetQ, states=list(B["State"]), gates=list(B["Gate"]), povms=list(B["Povm"]), mprocesses=list(B["MProcess"]))
    if not ok:
        ctx.violation(f"SetQOperations.ctor:{ctx.exc_key(sB)}", {"members": descB})
        return
    vtA = prime_setq(ctx, sA, A, rng, J)
    if vtA is None:
        ctx.count("setq.history:first-queries-failed (left to the full passes)")
        return
    vtB = judge_setq(ctx, sB, B, descB, rng, J, tag=":second-set-same-member-counts" + (":filled-through-setters" if via_setters else ""))
    # single queries alternating between the two sets, keyword and positional arguments (hooks judge every call)
    if vtB is not None and vtA.size and vtB.size:
        memA = [(MODE[t], j, o) for t in ORDER for j, o in enumerate(A[t])]
        memB = [(MODE[t], j, o) for t in ORDER for j, o in enumerate(B[t])]
        for _ in range(10):
            ctx.attempt(sA.local_info_from_index_var_total, int(rng.integers(0, vtA.size)))
            ctx.attempt(sB.local_info_from_index_var_total, index_var_total=int(rng.integers(0, vtB.size)))
            (moA, jA, oA), (moB, jB, oB) = memA[int(rng.integers(0, len(memA)))], memB[int(rng.integers(0, len(memB)))]
            nA, nB = mv_size(J, oA), mv_size(J, oB)
            if nA:
                ctx.attempt(sA.index_var_total_from_local_info, mode=moA, index_operations=jA, index_var_local=int(rng.integers(0, nA)))
            if nB:
                ctx.attempt(sB.index_var_total_from_local_info, moB, jB, int(rng.integers(0, nB)))
    if vtB is not None:
        ctx.nontrivial("setq-history:twin", descA, descB, vtB)
    # lists replaced by lists of the same length (other member sizes)
    kinds = [t for t in ORDER if A[t] and rng.random() < 0.6] or [[t for t in ORDER if A[t]][0]]
    mixed, cfgM = dict(A), dict(cfgA)
    # the very same questions right before and right after the setters (an answer remembered from the last call)
    k0 = int(rng.integers(0, vtA.size)) if vtA.size else 0
    i0 = int(rng.integers(0, max(1, min(mv_size(J, A[kinds[0]][0]), mv_size(J, B[kinds[0]][0])))))
    same = [(sA.local_info_from_index_var_total, (k0,)), (sA.index_var_total_from_local_info, (MODE[kinds[0]], 0, i0)), (sA.size_var_total, ()), (sA.var_total, ())]
    for fn, args in same:
        ctx.attempt(fn, *args)
    for t in kinds:
        ok, e = ctx.attempt(setattr, sA, ATTR[t], list(B[t]))
        if not ok:
            ctx.violation(f"SetQOperations.{ATTR[t]}.setter:{ctx.exc_key(e)}", {"members": descA, "new": descB})
            return
        mixed[t], cfgM[t] = B[t], cfgB[t]
        J.vt_cache = None       # the hooks' reference var_total is memoised per set object
    for fn, args in same:       # judged by the hooks against the CURRENT members (k0 may now be out of range: must raise)
        ctx.attempt(fn, *args)
    descM = desc_of(cfgM)
    ctx.count("setq.history:same-length-lists-replaced:" + "+".join(ATTR[t] for t in kinds))
    vtM = judge_setq(ctx, sA, mixed, descM, rng, J, tag=":after-same-length-list-replaced")
    if vtM is None:
        return
    ctx.nontrivial("setq-history:same-length", descM, vtM)
    # the set returned by the rebuild is a set like any other
    fresh = base + 1.5 + rng.permutation(vtM.size).astype(np.float64)
    ok, s2 = ctx.attempt(sA.set_qoperations_from_var_total, fresh)      # judged by the hook
    if not ok or not isinstance(s2, SetQ):
        return
    try:
        L2 = {t: list(s2.qoperations(MODE[t])) for t in TYPES}
    except Exception:
        return
    if rng.random() < 0.5:
        judge_setq(ctx, s2, L2, descM, rng, J, tag=":rebuilt-set")
        return
    for k in (0, vtM.size - 1):         # asked once before the setter
        ctx.attempt(s2.local_info_from_index_var_total, k)
    t = kinds[int(rng.integers(0, len(kinds)))]
    ok, e = ctx.attempt(setattr, s2, ATTR[t], list(A[t]))
    if not ok:
        ctx.violation(f"SetQOperations.{ATTR[t]}.setter:{ctx.exc_key(e)}", {"members": descM})
        return
    J.vt_cache = None
    L2[t] = A[t]
    cfg2 = dict(cfgM)
    cfg2[t] = cfgA[t]
    judge_setq(ctx, s2, L2, desc_of(cfg2), rng, J, tag=":rebuilt-set:after-member-list-replaced")


def ask_tomography(ctx, J, rng, rec, tag):
    """everything the property says about one tomography object, asked (again) with the step name `tag` in the keys:
    num_variables is the count of the configuration it was built for, a variable vector of that length turned into an
    object by the tomography and back is reproduced, the empty estimation object / its origin object (the start point
    of the minimisation algorithms) / the operation set of the tomography have variable vectors of that length"""
    tomo, cn, t, c_sys, flag, m, want = rec["tomo"], rec["cn"], rec["t"], rec["c_sys"], rec["flag"], rec["m"], rec["want"]
    d = c_sys.dim
    kfl = f"{cn}.num_variables:{fl(flag)}"
    info0 = {"class": cn, "shape": rec["shape"], "d": d, "m": m, "flag": flag, "options": rec["options"], "history": tag}
    ok, nv = ctx.attempt(lambda: tomo.num_variables)            # hooked
    if not ok:
        ctx.violation(f"{kfl}:{ctx.exc_key(nv)}" + tag, info0)
        return
    ctx.truth("num_variables.requested-configuration", is_int(nv) and int(nv) == want, key=f"{kfl}:differs-from-count-of-requested-configuration" + tag,
              info=dict(info0, got=repr(nv), want=want))
    first_arr = None
    tag0 = tag
    for k in range(3):      # different vectors in a row: every answer must be for the vector given in that call;
        #                     the second one arrives in the caller's FIRST array object, refilled in place
        var = rand_var(rng, want, "distinct" if k == 0 else "gauss")
        if k == 0:
            arr = first_arr = var.copy()
        elif k == 1:        # immediately afterwards: the same array object, other contents
            first_arr[:] = var
            arr = first_arr
            tag = tag0 + ":caller-array-refilled"
        else:
            arr = var.copy()
            tag = tag0
        ok, o = ctx.attempt(tomo.convert_var_to_qoperation, arr)
        if not ok:
            ctx.violation(f"{cn}.convert_var_to_qoperation:{fl(flag)}:{ctx.exc_key(o)}" + tag, info0)
            continue
        if gen.type_of(o) != t:
            ctx.truth("num_variables.var-to-object-type", False, key=f"{cn}.convert_var_to_qoperation:{fl(flag)}:wrong-type" + tag, info=info0)
            continue
        J.judge_from_var(f"{cn}.convert_var_to_qoperation", t, c_sys, var, flag, flat_raw(t, gen.raw_params(o), d), tag=tag)
        ok, back = ctx.attempt(o.to_var)                        # hooked
        if ok:
            ctx.num("roundtrip.var-obj-var", relerr(back, var), TOL_PASS, TOL_FAIL, key=f"roundtrip:var->obj->var:{t}:{fl(flag)}:via-tomography" + tag, info=info0)
    tag = tag0
    ok, e = ctx.attempt(tomo.generate_empty_estimation_obj_with_setting_info)
    if ok and gen.type_of(e) == t:
        ok, ev = ctx.attempt(e.to_var)                          # hooked
        if ok:
            ctx.truth("num_variables.equals-len-to_var", len(ev) == nv, key=f"{kfl}:differs-from-len-to_var:of-empty-estimation-object" + tag, info=dict(info0, got=repr(nv), len_to_var=len(ev)))
        ok, og = ctx.attempt(e.generate_origin_obj)
        if ok and gen.type_of(og) == t:
            ok, ov = ctx.attempt(og.to_var)                     # hooked
            if ok:
                ctx.truth("num_variables.equals-len-to_var", len(ov) == nv, key=f"{kfl}:differs-from-len-to_var:of-origin-object" + tag, info=dict(info0, got=repr(nv), len_to_var=len(ov)))
    ok, sq = ctx.attempt(lambda: tomo.set_qoperations)
    if ok and isinstance(sq, J.SetQOperations):
        ok1, sz = ctx.attempt(sq.size_var_total)
        ok2, vt = ctx.attempt(sq.var_total)
        if ok1 and ok2:
            ctx.truth("num_variables.equals-len-to_var", is_int(sz) and sz == nv and len(vt) == nv, key=f"{kfl}:differs-from-size-of-its-operation-set" + tag,
                      info=dict(info0, got=repr(nv), size_var_total=repr(sz), len_var_total=len(vt)))
            if 0 < len(vt) <= 300:       # the set the library built is a set like any other: a few index queries (hooks judge)
                for _ in range(4):
                    ctx.attempt(sq.local_info_from_index_var_total, int(rng.integers(0, len(vt))))
                ctx.attempt(sq.local_info_from_index_var_total, len(vt))


def numvar_history(ctx, hs, J, rng, pool, CLS, TT, cn, shape, c_sys, flag, m, tomo, states, povms):
    """HISTORY / COMBINATION steps of the num_variables part (own random stream): the case's tomography is asked
    through the objects it hands out, a SIBLING of the same class and shape but the other flag (other outcome count,
    non-default constructor options, an explicit schedule list) is built and asked while the first one is alive, the
    first one is asked again, and tomography objects of earlier cases of the shard are asked again."""
    t = TT[cn]
    d = c_sys.dim
    rec = {"tomo": tomo, "cn": cn, "t": t, "c_sys": c_sys, "shape": shape, "flag": flag, "m": m, "want": n_var(t, d, m, flag), "options": "default"}
    ask_tomography(ctx, J, rng, rec, ":via-tomography")
    # sibling
    flag2 = not flag
    m2 = int(rng.choice([x for x in MS if x != m])) if HAS_M[t] else 0
    opts = dict(is_estimation_object=bool(rng.integers(0, 2)), eps_proj_physical=[None, 1e-3][int(rng.integers(0, 2))],
                eps_truncate_imaginary_part=[None, 1e-6][int(rng.integers(0, 2))], seed_data=[None, 7][int(rng.integers(0, 2))])
    if rng.random() < 0.5:      # explicit schedule list (a permuted subset with repetition is still a valid schedule list)
        if cn == "StandardQst":
            full = [[("state", 0), ("povm", i)] for i in range(len(povms))]
        elif cn == "StandardPovmt":
            full = [[("state", i), ("povm", 0)] for i in range(len(states))]
        elif cn == "StandardQpt":
            full = [[("state", i), ("gate", 0), ("povm", j)] for i in range(len(states)) for j in range(len(povms))]
        else:
            full = [[("state", i), ("mprocess", 0), ("povm", j)] for i in range(len(states)) for j in range(len(povms))]
        opts["schedules"] = [full[int(k)] for k in rng.permutation(len(full))]
    pos = {"StandardQst": (povms,), "StandardPovmt": (states, m2), "StandardQpt": (states, povms), "StandardQmpt": (states, povms, m2)}[cn]
    ok, sib = ctx.attempt(CLS[cn], *pos, on_para_eq_constraint=flag2, **opts)
    jopts = {k: (v if k != "schedules" else "explicit-list") for k, v in opts.items()}
    if not ok:
        # constructor options outside the property: a rejection is recorded, not judged
        ctx.count(f"numvar.history:sibling-rejected:{type(sib).__name__}")
    else:
        rec2 = {"tomo": sib, "cn": cn, "t": t, "c_sys": c_sys, "shape": shape, "flag": flag2, "m": m2, "want": n_var(t, d, m2, flag2), "options": jopts}
        ask_tomography(ctx, J, rng, rec2, ":sibling-other-flag")
        ctx.nontrivial("numvar-history:sibling", cn, shape, flag2, m2, str(sorted(jopts.items(), key=str)))
    # the first one again, after the sibling was built and asked
    ask_tomography(ctx, J, rng, rec, ":second-call")
    # objects of earlier cases again
    for k in (rng.permutation(len(pool))[:2] if pool else []):
        ask_tomography(ctx, J, rng, pool[int(k)], ":re-used-object")
    pool.append(rec)
    if ok:
        pool.append(rec2)
    while len(pool) > 10:
        pool.pop(int(rng.integers(0, len(pool))))


def run_numvar(ctx, hs, J, Q, cs):
    from quara.protocol.qtomography.standard.standard_povmt import StandardPovmt
    from quara.protocol.qtomography.standard.standard_qmpt import StandardQmpt
    from quara.protocol.qtomography.standard.standard_qpt import StandardQpt
    from quara.protocol.qtomography.standard.standard_qst import StandardQst

    cfgs = [(cn, s, f, m) for cn in ("StandardQst", "StandardPovmt", "StandardQpt", "StandardQmpt") for s in SHAPE_NAMES
            for f in (True, False) for m in (MS if cn in ("StandardPovmt", "StandardQmpt") else [0])]
    TT = {"StandardQst": "State", "StandardPovmt": "Povm", "StandardQpt": "Gate", "StandardQmpt": "MProcess"}
    CLS = {"StandardQst": StandardQst, "StandardPovmt": StandardPovmt, "StandardQpt": StandardQpt, "StandardQmpt": StandardQmpt}
    pool = []        # tomography objects of earlier cases stay alive and are asked again (HISTORY)
    for ci in ctx.cases(len(cfgs)):
        cn, shape, flag, m = cfgs[ci]
        rng = ctx.rng()
        c_sys = get_csys(J, cs, shape)
        d = c_sys.dim
        with hs.paused():
            states = [gen.rand_state(c_sys, rng, is_physicality_required=False) for _ in range(2)]
            povms = [gen.rand_povm(c_sys, int(rng.integers(2, 4)), rng, is_physicality_required=False) for _ in range(2)]
        if cn == "StandardQst":
            mk = lambda: StandardQst(povms, on_para_eq_constraint=flag)  # noqa: E731
        elif cn == "StandardPovmt":
            mk = lambda: StandardPovmt(states, m, on_para_eq_constraint=flag)  # noqa: E731
        elif cn == "StandardQpt":
            mk = lambda: StandardQpt(states, povms, on_para_eq_constraint=flag)  # noqa: E731
        else:
            mk = lambda: StandardQmpt(states, povms, m, on_para_eq_constraint=flag)  # noqa: E731
        info0 = {"class": cn, "shape": shape, "d": d, "m": m, "flag": flag}
        ok, tomo = ctx.attempt(mk)
        if not ok:
            ctx.violation(f"{cn}.ctor:{fl(flag)}:{ctx.exc_key(tomo)}", info0)
            continue
        ok, nv = ctx.attempt(lambda: tomo.num_variables)     # hooked: reference count of the template + len(to_var)
        if not ok:
            ctx.violation(f"{cn}.num_variables:{fl(flag)}:{ctx.exc_key(nv)}", info0)
            continue
        want = n_var(TT[cn], d, m, flag)       # from what the driver asked for (flag / m must not be ignored)
        ctx.truth("num_variables.requested-configuration", is_int(nv) and int(nv) == want, key=f"{cn}.num_variables:{fl(flag)}:differs-from-count-of-requested-configuration",
                  info=dict(info0, got=repr(nv), want=want))
        tmpl = getattr(tomo._set_qoperations, {"State": "states", "Povm": "povms", "Gate": "gates", "MProcess": "mprocesses"}[TT[cn]])[0]
        ok, tv = ctx.attempt(tmpl.to_var)      # hooked
        if ok:
            ctx.truth("num_variables.driver-len-to_var", len(tv) == nv, key=f"{cn}.num_variables:{fl(flag)}:differs-from-len-to_var", info=dict(info0, got=repr(nv), len_to_var=len(tv)))
        ctx.nontrivial("numvar", cn, shape, flag, m)
        if ci < 2:
            ctx.sample(dict(info0, part="num_variables", num_variables=int(nv) if is_int(nv) else repr(nv), reference=want))
        numvar_history(ctx, hs, J, ctx.rng(1), pool, CLS, TT, cn, shape, c_sys, flag, m, tomo, states, povms)


def run_shard(ctx):
    p = ctx.params
    kind = p["kind"]
    Q = gen.q()
    hs, J = install(ctx)
    cs = {}
    try:
        if kind == "index":
            t = p["type"]
            done = []
            cfgs = p["configs"]
            for ci in ctx.cases(len(cfgs)):
                shape, flag, m = cfgs[ci]
                c_sys = get_csys(J, cs, shape)
                r = run_index_config(ctx, hs, J, Q, t, shape, c_sys, bool(flag), int(m))
                if r:
                    done.append(r)
            ctx.extra["index_configs_done"] = done
            ix = MODE[t]
            mod = J.mods[t].__name__.split(".")[-1]
            req = [f"{t}.calc_gradient", f"{mod}.convert_var_index_to_{ix}_index", f"{mod}.convert_{ix}_index_to_var_index", f"{t}.to_var",
                   "MProcess.generate_from_var" if t == "MProcess" else "QOperation.generate_from_var"]
        elif kind == "convert":
            t, shape = p["type"], p["shape"]
            c_sys = get_csys(J, cs, shape)
            for i in ctx.cases(p["n"]):
                run_convert_case(ctx, hs, J, Q, t, shape, c_sys, ctx.rng(), i)
                run_object_history(ctx, hs, J, Q, cs, t, shape, c_sys, ctx.rng(1), i)
            mod = J.mods[t].__name__.split(".")[-1]
            rn = RAWNAME[t]
            req = [f"{t}.to_var", f"{t}.to_stacked_vector", f"{t}.convert_var_to_stacked_vector", f"{t}.convert_stacked_vector_to_var",
                   f"{mod}.convert_var_to_{rn}", f"{mod}.convert_{rn}_to_var", "MProcess.generate_from_var" if t == "MProcess" else "QOperation.generate_from_var"]
        elif kind == "setq":
            for i in ctx.cases(p["n"]):
                run_setq_case(ctx, hs, J, Q, cs, ctx.rng(), i)
                run_setq_history(ctx, hs, J, Q, cs, ctx.rng(1), i)
            req = ["SetQOperations.index_var_total_from_local_info", "SetQOperations.local_info_from_index_var_total",
                   "SetQOperations.set_qoperations_from_var_total"]
        elif kind == "numvar":
            run_numvar(ctx, hs, J, Q, cs)
            req = ["QTomography.num_variables"]
        else:
            raise ValueError(kind)
    finally:
        hs.uninstall()
    ctx.extra["hook_counts"] = hs.counts
    if ctx.only_case is None:
        hs.require(req)


def finalize(merged, ctx):
    """the exhaustive claim: every one of the 80 index configurations was enumerated completely"""
    want = {(t, s, bool(f), int(m)) for (t, s, f, m) in all_index_configs()}
    got = set()
    tot = 0
    for e in merged["extra"]:
        for (t, s, f, m, n) in (e.get("extra") or {}).get("index_configs_done", []):
            got.add((t, s, bool(f), int(m)))
            tot += n
    missing = sorted(want - got)
    ctx.count("index_configurations_enumerated", len(got))
    ctx.count("variable_indices_enumerated", tot)
    if missing:
        ctx.mark_inconclusive(f"index configurations not enumerated completely: {missing[:6]} (+{max(0, len(missing) - 6)})")
