"""C17  Every catalogued object is physical and self-consistent.

Workload = the complete enumeration of every `get_*_names*` list x every listed
object_name form x every qubit-id permutation.  Oracles: generation succeeds;
physical by the C01 reference; cross-form agreement; a TEXTBOOK TABLE written
here (never calling quara); legacy constructors == catalogue; names outside the
catalogue raise.

Conventions of the textbook table (all taken from the catalogue's own
documentation, which agrees with the usual textbook ones):

* states  x0/x1, y0/y1, z0/z1 = +1/-1 eigenvectors of X, Y, Z (docstrings of
  state_typical: |+>,|->,|+i>,|-i>,|0>,|1>);  a = (|0>+e^{i pi/4}|1>)/sqrt2;
  bell_phi_plus/minus = |00>+-|11>, bell_psi_plus/minus = |01>+-|10>; ghz;
  "werner" = W state (|001>+|010>+|100>)/sqrt3;  qutrit "LLaS" = the qubit
  state aS embedded in levels LL;  0_1_2_superposition, 00_11_22_superposition.
* gates   "a90", "a180" = exp(-i (theta/2) sigma_a)  (documented Hamiltonians
  0.25 pi X, 0.5 pi X, ... and U = expm(-iH)); "zm90" = exp(+i pi/4 Z);
  "x","y","z" = Pauli matrices; phase = S = diag(1,i), phase_daggered = S^+,
  piover8 = T = diag(1,e^{i pi/4}), piover8_daggered = T^+, hadamard = H.
  cx: ids[0] control, ids[1] target; zx90 = exp(-i pi/4 Z(ids[0]) X(ids[1]));
  zz90 = exp(-i pi/4 ZZ); cz; swap; toffoli: ids[0],ids[1] controls, ids[2]
  target; fredkin: ids[0] control, ids[1],ids[2] swapped.  The tensor factor
  of an id is its rank among the names of the composite system (quara sorts
  elemental systems by name).  qutrit "LLa90/180" = exp(-i (theta/2) sigma_a^{LL});
  2-qutrit "A B theta [_ A' B' theta']" = exp(-i sum (theta/2) A (x) B).
  All comparisons of unitaries are up to a global phase (through U rho U^+).
* POVMs   x,y,z: outcomes (a0, a1); bell: (phi+, phi-, psi+, psi-) (order of
  the state catalogue; no documentation); z3: |0>,|1>,|2>; z2: |0><0|,
  |1><1|+|2><2|; "LLa3": (LLa0, LLa1, remaining level); products first-factor major.
* MProcess  "*-type1": documented pure-state sets (Kraus = projectors onto
  them); "*-type2": documented Kraus |b0><bk|; parity-type1: (II+-AA)/2.
  bell-type1: the docstring documents the order (psi+,psi-,phi+,phi-).

HISTORY / COMBINATION steps (a catalogue is a pure function of (name, form, system, ids): whatever was asked before,
whatever the caller did with its own copies of earlier answers, the answer is judged by the same oracles as the first
one, never against an earlier answer of quara; keys that can only come from such a step carry a suffix, and a mechanism
that already fired in the plain first pass of the case keeps its ordinary key):

* `:second-call`  after the first pass of a case the driver OVERWRITES every raw array the catalogue returned to it
  (arrays returned by generate_* functions belong to the caller; arrays that are not writeable are left alone; objects
  and their attributes are never touched) and asks the same name again: forms in the reverse order, objects with the
  non-default option is_physicality_required=False, single-system gates with the optional dims / ids omitted on every
  other name.  (A catalogue that hands out its cached array, an "already computed" flag, an option honoured once.)
* `:sibling-system`  the same name is asked on a SECOND composite system of the same size living in the same process
  (other elemental ids; for states and POVMs, whose vector forms take the basis as an argument, also another orthonormal
  Hermitian basis: generate_composite_system(basis=get_normalized_hermitian_basis)), then on the first system again.
  Every object must also belong to the system it was asked for (`on-system-asked`).  (Caches keyed by name / size only.)
* `:result-changed-after-later-calls`  arrays and objects returned to the driver are snapshotted when returned and read
  again (public attributes vec / vecs / hs / hss / ps) at the end of the case and of the next two cases.  (A result that
  aliases an internal buffer which later generations overwrite.)
* `:asked-again-after-other-names`  a last case of every shard asks every name of the shard once more, in the reverse
  order and in one form in rotation (other id orders / the other system for multi-qubit gates), and judges it against
  the textbook table; the legacy constructors and tester sets are compared a second time; every get_*_names* list is
  read again and must be the list read at the start.  (Cached arrays modified in place by a later call.)  In a
  single-case replay the generations of the shard are first repeated unjudged so that the history exists.
"""
import contextlib
import inspect
import itertools
import re
import time

import numpy as np

from qv import gen, ref
from qv.monitor import HookSet

ID = "C17"
RULE = ("complete enumeration of the catalogues: every name of get_state_names_* (749), get_povm_names_* (112), "
        "get_gate_names_* for 1-3 qubits / 1 qutrit / identity (41) and the 198 single-base 2-qutrit gate names, the mprocess "
        "lists (13) and the state-ensemble list (7), each with every object_name form, every id permutation of the 2- and "
        "3-qubit gates on a contiguous and on a gapped composite system, and the effective-Lindbladian forms of every gate "
        "name; two-base 2-qutrit gate names: ~600 stratified by (axis pattern, angle) of both components in quick, all 39,006 "
        "in thorough; every name additionally with all its single-edit misspellings (drop / duplicate / swap a character, "
        "wrong case; gate names: every misspelling with 1-2 of the 7 forms in rotation and the first three with all forms; "
        "two-base names: 3 misspellings in quick, 1 in thorough) and on composite systems of another size (all four other "
        "systems; 2-qutrit gate names: one other system per name, two-base names every 5th / 10th name).  A case is distinct by (catalogue, name, form, ids, "
        "system) and every case is non-trivial (each is a different catalogue entry or a different non-entry).  History steps per "
        "case (see the module docstring): the returned raw arrays are overwritten by the caller and the name is asked a second time "
        "(reverse form order, is_physicality_required=False, optional dims/ids omitted); the name is asked on a sibling system of the "
        "same size (other ids; states / POVMs: another Hermitian basis) and on the first one again; results held by the driver are "
        "read again after the later generations of three cases; a last case per shard asks every name again in reverse order in one "
        "rotating form and re-reads the name lists")
ANCHORS = [
    "quara/objects/state_typical.py:generate_state_from_name",
    "quara/objects/state_typical.py:generate_state_object_from_state_name_object_name",
    "quara/objects/povm_typical.py:generate_povm_from_name",
    "quara/objects/povm_typical.py:generate_povm_object_from_povm_name_object_name",
    "quara/objects/gate_typical.py:generate_gate_from_gate_name",
    "quara/objects/gate_typical.py:generate_unitary_mat_from_gate_name",
    "quara/objects/gate_typical.py:generate_gate_mat_from_gate_name",
    "quara/objects/gate_typical.py:generate_gate_object_from_gate_name_object_name",
    "quara/objects/gate_typical.py:generate_gate_toffoli_hamiltonian_mat",
    "quara/objects/gate_typical.py:generate_gate_fredkin_hamiltonian_mat",
    "quara/objects/gate_typical.py:calc_hamiltonian_mat_from_gate_name_2qutrit_base_matrices",
    "quara/objects/mprocess_typical.py:generate_mprocess_from_name",
    "quara/objects/mprocess_typical.py:generate_mprocess_object_from_mprocess_name_object_name",
    "quara/objects/state_ensemble_typical.py:generate_state_ensemble_from_name",
    "quara/objects/effective_lindbladian_typical.py:generate_effective_lindbladian_from_gate_name",
    "quara/objects/effective_lindbladian_typical.py:generate_hamiltonian_mat_from_gate_name",
    "quara/objects/qoperation_typical.py:generate_qoperation_object",
    "quara/objects/composite_system_typical.py:generate_composite_system",
    "quara/objects/tester_typical.py:generate_tester_states",
    "quara/objects/tester_typical.py:generate_tester_povms",
    "quara/objects/gate.py:get_cnot",
    "quara/objects/state.py:get_x0_1q",
    "quara/objects/povm.py:get_xx_povm",
]
REQUIRED_REACH = ANCHORS
REQUIRED_ORACLES = ["generate", "physical", "cross-form", "textbook", "maps-named-states", "expmL-vs-gate",
                    "legacy", "unknown-name-raises", "wrong-size-raises", "ids",
                    "on-system-asked", "held-result-unchanged", "name-lists-stable"]
MIN_EVALS = {"quick": 50000, "thorough": 400000}
WATCHDOG = {"quick": 1500, "thorough": 5400}
EXHAUSTIVE = {"quick": False, "thorough": True}
EXHAUSTIVE_SCOPE = ("thorough: every name of every get_*_names* list (state 749, povm 112, gate 39,245 incl. all 39,204 2-qutrit "
                    "names, mprocess 13, state ensemble 7) x every listed object_name form (two-base 2-qutrit names: unitary_mat, "
                    "gate (with the gate_mat it is built from), hamiltonian_mat, effective_lindbladian for all; gate_mat / "
                    "hamiltonian_vec / effective_lindbladian_mat called directly for every 8th) x all id permutations of cx, "
                    "zx90, cz, swap, zz90, toffoli, fredkin; finalize verifies that the number of names enumerated equals the "
                    "length of each catalogue list.  quick: the same except ~600 stratified two-base 2-qutrit names.  "
                    "Misspellings: all single-edit neighbours of every name (two-base names: one per name in thorough)")
ASSUMPTIONS = [
    "history steps: arrays returned by the catalogue's generate_* functions belong to the caller (the driver overwrites its own "
    "copies between two calls; read-only arrays, quara objects and their attributes are never modified by the driver)",
    "states and POVMs are also asked on composite systems carrying quara's normalized Hermitian basis "
    "(generate_composite_system(basis=get_normalized_hermitian_basis(d))), whose vector forms take the basis as an argument; "
    "gates, instruments and ensembles only on systems with the default bases (other elemental ids)",
    "scipy.linalg.expm / numpy.linalg.eigh for the exponentials of the reference side",
    "EffectiveLindbladian objects of 2-qutrit names are generated with is_physicality_required=False except the first of "
    "each shard (quara's own verdict costs 3.4 s per object and belongs to C18); physicality is judged by the reference",
    "for 2-qutrit gates the reference physicality sizes are computed by a vectorised transcription of qv.ref that is "
    "cross-checked against qv.ref on the first objects of every shard",
    "effective Lindbladians are judged physical by the GKSL structure derived independently: Tr L(X) = 0 for all X and "
    "conditional complete positivity (1-|W><W|) Choi(L) (1-|W><W|) >= 0 with Hermiticity preservation; the criterion is "
    "self-tested per system on a random GKSL generator (accepted) and on one with the dissipator negated (rejected)",
    "the outcome order of the POVM 'bell' is undocumented: the order of the state catalogue (phi+, phi-, psi+, psi-) is taken",
]
TOLP, TOLF = 1e-11, 1e-8
TOLP_EXP = 1e-10     # oracles through scipy expm of an 81x81 generator (worst seen on the unchanged tree: 2e-13)

# ===================================================================== textbook table (never imports quara)

S2 = 1.0 / np.sqrt(2.0)
I2 = np.eye(2, dtype=complex)
PX = np.array([[0, 1], [1, 0]], dtype=complex)
PY = np.array([[0, -1j], [1j, 0]], dtype=complex)
PZ = np.array([[1, 0], [0, -1]], dtype=complex)
PAULI = {"i": I2, "x": PX, "y": PY, "z": PZ}
P0 = np.array([[1, 0], [0, 0]], dtype=complex)
P1 = np.array([[0, 0], [0, 1]], dtype=complex)
BLOCH = {"x0": (1, 0, 0), "x1": (-1, 0, 0), "y0": (0, 1, 0), "y1": (0, -1, 0), "z0": (0, 0, 1), "z1": (0, 0, -1),
         "a": (S2, S2, 0)}
SYSDEF = {"1qubit": ("qubit", 1), "2qubit": ("qubit", 2), "3qubit": ("qubit", 3), "1qutrit": ("qutrit", 1),
          "2qutrit": ("qutrit", 2)}
SYSDIM = {"1qubit": 2, "2qubit": 4, "3qubit": 8, "1qutrit": 3, "2qutrit": 9}
GAPPED = {"2qubit": [2, 5], "3qubit": [1, 4, 6]}
SIBLING = {"1qubit": [3], "2qubit": [4, 7], "3qubit": [2, 3, 8], "1qutrit": [5], "2qutrit": [1, 6]}   # ids of the sibling systems


def proj(v):
    v = np.asarray(v, dtype=complex).reshape(-1)
    return np.outer(v, v.conj())


def kron_all(ms):
    out = np.eye(1, dtype=complex)
    for m in ms:
        out = np.kron(out, m)
    return out


def rho_bloch(r):
    return (I2 + r[0] * PX + r[1] * PY + r[2] * PZ) / 2


def tl(levels, axis):
    """two-level operator of a qutrit: axis in x,y,z,p (p = projector onto the two levels)"""
    a, b = int(levels[0]), int(levels[1])
    m = np.zeros((3, 3), dtype=complex)
    if axis == "x":
        m[a, b] = m[b, a] = 1
    elif axis == "y":
        m[a, b] = -1j
        m[b, a] = 1j
    elif axis == "z":
        m[a, a] = 1
        m[b, b] = -1
    elif axis == "p":
        m[a, a] = m[b, b] = 1
    else:
        raise KeyError(axis)
    return m


RE_QT_STATE = re.compile(r"^(01|12|02)([xyz])([01])$")
RE_QT_GATE = re.compile(r"^(01|12|02)([xyz])(90|180)$")
RE_QT2_PART = re.compile(r"^(i|(?:01|12|02)[xyz])(i|(?:01|12|02)[xyz])(90|180)$")
KET3 = [np.eye(3, dtype=complex)[k] for k in range(3)]


def _bell(name):
    xx, yy, zz = np.kron(PX, PX), np.kron(PY, PY), np.kron(PZ, PZ)
    s = {"bell_phi_plus": (1, -1, 1), "bell_phi_minus": (-1, 1, 1), "bell_psi_plus": (1, 1, -1), "bell_psi_minus": (-1, -1, -1)}[name]
    return (np.eye(4) + s[0] * xx + s[1] * yy + s[2] * zz) / 4


def atom_state(name):
    """density matrix of an atomic state name, or None"""
    if name in BLOCH:
        return rho_bloch(BLOCH[name])
    if name.startswith("bell_"):
        try:
            return _bell(name)
        except KeyError:
            return None
    if name == "ghz":
        v = np.zeros(8, dtype=complex)
        v[0] = v[7] = S2
        return proj(v)
    if name == "werner":
        v = np.zeros(8, dtype=complex)
        v[1] = v[2] = v[4] = 1 / np.sqrt(3)
        return proj(v)
    if name == "0_1_2_superposition":
        return proj(np.ones(3) / np.sqrt(3))
    if name == "00_11_22_superposition":
        v = np.zeros(9, dtype=complex)
        v[0] = v[4] = v[8] = 1 / np.sqrt(3)
        return proj(v)
    m = RE_QT_STATE.match(name)
    if m:
        lv, ax, s = m.groups()
        r = BLOCH[ax + s]
        return (tl(lv, "p") + r[0] * tl(lv, "x") + r[1] * tl(lv, "y") + r[2] * tl(lv, "z")) / 2
    return None


def table_state(name):
    a = atom_state(name)
    if a is not None:
        return a
    parts = name.split("_")
    ms = [atom_state(p) for p in parts]
    if any(m is None for m in ms) or len(ms) < 2:
        return None
    return kron_all(ms)


def third_level(lv):
    return [k for k in range(3) if str(k) not in lv][0]


def atom_povm(name):
    if name in ("x", "y", "z"):
        return [rho_bloch(BLOCH[name + "0"]), rho_bloch(BLOCH[name + "1"])]
    if name == "bell":
        return [_bell(n) for n in ("bell_phi_plus", "bell_phi_minus", "bell_psi_plus", "bell_psi_minus")]
    if name == "z3":
        return [proj(k) for k in KET3]
    if name == "z2":
        return [proj(KET3[0]), proj(KET3[1]) + proj(KET3[2])]
    m = re.match(r"^(01|12|02)([xy])3$", name)
    if m:
        lv, ax = m.groups()
        return [atom_state(lv + ax + "0"), atom_state(lv + ax + "1"), proj(KET3[third_level(lv)])]
    return None


def table_povm(name):
    parts = [atom_povm(p) for p in name.split("_")]
    if any(p is None for p in parts):
        return None
    out = parts[0]
    for p in parts[1:]:
        out = [np.kron(a, b) for a, b in itertools.product(out, p)]
    return out


ROT1 = {"x90": ("x", 90), "x180": ("x", 180), "x": ("x", 180), "y90": ("y", 90), "y180": ("y", 180), "y": ("y", 180),
        "z90": ("z", 90), "z180": ("z", 180), "z": ("z", 180), "zm90": ("z", -90), "phase": ("z", 90),
        "phase_daggered": ("z", -90), "piover8": ("z", 45), "piover8_daggered": ("z", -45), "hadamard": ("h", 180)}
AXIS = {"x": (1.0, 0.0, 0.0), "y": (0.0, 1.0, 0.0), "z": (0.0, 0.0, 1.0), "h": (S2, 0.0, S2)}
EXPLICIT1 = {"x": PX, "y": PY, "z": PZ, "phase": np.diag([1, 1j]), "phase_daggered": np.diag([1, -1j]),
             "piover8": np.diag([1, np.exp(1j * np.pi / 4)]), "piover8_daggered": np.diag([1, np.exp(-1j * np.pi / 4)]),
             "hadamard": np.array([[1, 1], [1, -1]], dtype=complex) * S2, "x180": -1j * PX, "y180": -1j * PY, "z180": -1j * PZ}


def rot_unitary(n, deg):
    t = np.deg2rad(deg) / 2
    return np.cos(t) * I2 - 1j * np.sin(t) * (n[0] * PX + n[1] * PY + n[2] * PZ)


def rodrigues(n, deg, v):
    n, v = np.asarray(n, float), np.asarray(v, float)
    t = np.deg2rad(deg)
    return v * np.cos(t) + np.cross(n, v) * np.sin(t) + n * np.dot(n, v) * (1 - np.cos(t))


def place(ops, n):
    return kron_all([ops.get(k, I2) for k in range(n)])


def perm_unitary(n, f):
    """unitary of a permutation of computational basis states; bit 0 = first tensor factor"""
    u = np.zeros((2 ** n, 2 ** n), dtype=complex)
    for bits in itertools.product((0, 1), repeat=n):
        out = f(bits)
        i = int("".join(map(str, bits)), 2)
        j = int("".join(map(str, out)), 2)
        u[j, i] = 1
    return u


def expm_herm(h, sign=-1j):
    w, v = np.linalg.eigh((h + h.conj().T) / 2)
    return (v * np.exp(sign * w)) @ v.conj().T


def qt2_hamiltonian(name):
    h = np.zeros((9, 9), dtype=complex)
    for part in name.split("_"):
        m = RE_QT2_PART.match(part)
        if not m:
            return None
        b0, b1, ang = m.groups()
        ops = []
        for b in (b0, b1):
            ops.append(np.eye(3, dtype=complex) if b == "i" else tl(b[:2], b[2]))
        h = h + np.deg2rad(float(ang)) / 2 * np.kron(ops[0], ops[1])
    return h


def table_unitary(name, pos, skey):
    """textbook unitary; pos = tensor-factor positions of the ids (roles in the documented order)"""
    if name == "identity":
        return np.eye(SYSDIM[skey], dtype=complex)
    if name in ROT1:
        ax, deg = ROT1[name]
        return rot_unitary(AXIS[ax], deg)
    if name == "cx":
        c, t = pos
        return place({c: P0}, 2) + place({c: P1, t: PX}, 2)
    if name == "cz":
        return np.eye(4, dtype=complex) - 2 * place({0: P1, 1: P1}, 2)
    if name == "swap":
        return perm_unitary(2, lambda b: (b[1], b[0]))
    if name == "zx90":
        c, t = pos
        return np.cos(np.pi / 4) * np.eye(4) - 1j * np.sin(np.pi / 4) * place({c: PZ, t: PX}, 2)
    if name == "zz90":
        return np.cos(np.pi / 4) * np.eye(4) - 1j * np.sin(np.pi / 4) * np.kron(PZ, PZ)
    if name == "toffoli":
        c1, c2, t = pos

        def f(b):
            b = list(b)
            if b[c1] == 1 and b[c2] == 1:
                b[t] ^= 1
            return tuple(b)
        return perm_unitary(3, f)
    if name == "fredkin":
        c, t1, t2 = pos

        def g(b):
            b = list(b)
            if b[c] == 1:
                b[t1], b[t2] = b[t2], b[t1]
            return tuple(b)
        return perm_unitary(3, g)
    m = RE_QT_GATE.match(name)
    if m:
        lv, ax, ang = m.groups()
        t = np.deg2rad(float(ang)) / 2
        p = tl(lv, "p")
        return (np.eye(3) - p) + np.cos(t) * p - 1j * np.sin(t) * tl(lv, ax)
    h = qt2_hamiltonian(name)
    if h is not None:
        return expm_herm(h)
    return None


MP_SYS = {"x-type1": "1qubit", "y-type1": "1qubit", "z-type1": "1qubit", "x-type2": "1qubit", "y-type2": "1qubit",
          "z-type2": "1qubit", "bell-type1": "2qubit", "xxparity-type1": "2qubit", "zzparity-type1": "2qubit",
          "z3-type1": "1qutrit", "z2-type1": "1qutrit", "z3-type2": "1qutrit", "z2-type2": "1qutrit"}


def _ket(name):
    """a vector of a pure table state (phase irrelevant where used as |b><b|; for |b0><bk| the documented vectors)"""
    vec = {"x0": [S2, S2], "x1": [S2, -S2], "y0": [S2, 1j * S2], "y1": [S2, -1j * S2], "z0": [1, 0], "z1": [0, 1]}
    return np.array(vec[name], dtype=complex)


def table_mprocess(name):
    """list (outcomes) of lists of Kraus operators, as documented"""
    base, typ = name.rsplit("-", 1)
    if base in ("x", "y", "z"):
        k0, k1 = _ket(base + "0"), _ket(base + "1")
        if typ == "type1":
            return [[proj(k0)], [proj(k1)]]
        return [[np.outer(k0, k0.conj())], [np.outer(k0, k1.conj())]]
    if base == "z3":
        if typ == "type1":
            return [[proj(k)] for k in KET3]
        return [[np.outer(KET3[0], k.conj())] for k in KET3]
    if base == "z2":
        if typ == "type1":
            return [[proj(KET3[0])], [proj(KET3[1]), proj(KET3[2])]]
        return [[np.outer(KET3[0], KET3[0])], [np.outer(KET3[0], KET3[1]), np.outer(KET3[0], KET3[2])]]
    if base == "bell" and typ == "type1":
        # documented order (docstring of get_mprocess_belltype1_set_pure_state_vectors): psi+, psi-, phi+, phi-
        return [[_bell(n)] for n in ("bell_psi_plus", "bell_psi_minus", "bell_phi_plus", "bell_phi_minus")]
    if base in ("xxparity", "zzparity") and typ == "type1":
        a = np.kron(PX, PX) if base[0] == "x" else np.kron(PZ, PZ)
        return [[(np.eye(4) + a) / 2], [(np.eye(4) - a) / 2]]
    return None


def table_self_test():
    """hand-written anchors that the generated table must reproduce; returns list of failures"""
    bad = []

    def same(a, b):
        return np.max(np.abs(a - b)) < 1e-12

    def act(u, r):
        return u @ r @ u.conj().T
    for nm, u in EXPLICIT1.items():
        ax, deg = ROT1[nm]
        w = rot_unitary(AXIS[ax], deg)
        k = np.argmax(np.abs(u))
        ph = w.flat[k] / u.flat[k]
        if not same(w, ph * u) or abs(abs(ph) - 1) > 1e-12:
            bad.append("rot-vs-explicit:" + nm)
    checks = [("x90", "1qubit", [0], "z0", "y1"), ("y90", "1qubit", [0], "z0", "x0"), ("z90", "1qubit", [0], "x0", "y0"),
              ("zm90", "1qubit", [0], "x0", "y1"), ("piover8", "1qubit", [0], "x0", "a"), ("hadamard", "1qubit", [0], "z0", "x0"),
              ("hadamard", "1qubit", [0], "y0", "y1"), ("phase", "1qubit", [0], "x0", "y0"),
              ("cx", "2qubit", [0, 1], "x0_z0", "bell_phi_plus"), ("cx", "2qubit", [1, 0], "z0_x0", "bell_phi_plus"),
              ("cx", "2qubit", [0, 1], "z1_z1", "z1_z0"), ("cx", "2qubit", [1, 0], "z1_z1", "z0_z1"),
              ("cx", "2qubit", [0, 1], "x1_z1", "bell_psi_minus"), ("cz", "2qubit", [0, 1], "z1_x0", "z1_x1"),
              ("swap", "2qubit", [0, 1], "a_y1", "y1_a"), ("zx90", "2qubit", [0, 1], "z0_z0", "z0_y1"),
              ("zx90", "2qubit", [0, 1], "z1_z0", "z1_y0"), ("zx90", "2qubit", [1, 0], "z0_z1", "y0_z1"),
              ("zz90", "2qubit", [0, 1], "z0_x0", "z0_y0"), ("zz90", "2qubit", [0, 1], "x0_z1", "y1_z1"),
              ("toffoli", "3qubit", [0, 1, 2], "z1_z1_z0", "z1_z1_z1"), ("toffoli", "3qubit", [1, 2, 0], "z0_z1_z1", "z1_z1_z1"),
              ("toffoli", "3qubit", [2, 0, 1], "z1_z0_z1", "z1_z1_z1"), ("toffoli", "3qubit", [0, 1, 2], "z1_z0_z0", "z1_z0_z0"),
              ("fredkin", "3qubit", [0, 1, 2], "z1_z0_z1", "z1_z1_z0"), ("fredkin", "3qubit", [1, 2, 0], "a_z1_x0", "x0_z1_a"),
              ("fredkin", "3qubit", [2, 0, 1], "a_x0_z1", "x0_a_z1"), ("fredkin", "3qubit", [0, 1, 2], "z0_a_x0", "z0_a_x0"),
              ("01x90", "1qutrit", [0], "01z0", "01y1"), ("01x180", "1qutrit", [0], "01z0", "01z1"),
              ("12y90", "1qutrit", [0], "12z0", "12x0"), ("02z90", "1qutrit", [0], "02x0", "02y0"),
              ("12x90", "1qutrit", [0], "01z0", "01z0"), ("i01x90", "2qutrit", [0, 1], "12x0_01z0", "12x0_01y1"),
              ("02yi180", "2qutrit", [0, 1], "02z0_12y1", "02z1_12y1")]
    for g, sk, pos, a, b in checks:
        u = table_unitary(g, pos, sk)
        if u is None or not same(act(u, table_state(a)), table_state(b)):
            bad.append(f"map:{g}:{pos}:{a}->{b}")
    for nm in MP_SYS:
        ks = table_mprocess(nm)
        d = SYSDIM[MP_SYS[nm]]
        if ks is None or not same(sum(k.conj().T @ k for o in ks for k in o), np.eye(d)):
            bad.append("mprocess-complete:" + nm)
    for nm in ("x", "bell", "z2", "02y3", "x_z", "12x3_z2"):
        if not same(sum(table_povm(nm)), np.eye(table_povm(nm)[0].shape[0])):
            bad.append("povm-complete:" + nm)
    return bad


# ===================================================================== name classes / misspellings / sampling

def state_class(name):
    if atom_state(name) is not None:
        return name
    n = name.count("_") + 1
    if all(p in BLOCH for p in name.split("_")):
        return f"{n}qubit-product"
    if all(RE_QT_STATE.match(p) for p in name.split("_")):
        return f"{n}qutrit-product"
    return "other"


def povm_class(name):
    parts = name.split("_")
    if len(parts) == 1:
        return name
    if all(p in ("x", "y", "z") for p in parts):
        return f"{len(parts)}qubit-product"
    if all(atom_povm(p) is not None and atom_povm(p)[0].shape[0] == 3 for p in parts):
        return f"{len(parts)}qutrit-product"
    return "other"


def qt2_part_class(part):
    m = RE_QT2_PART.match(part)
    if not m:
        return "?"
    b0, b1, ang = m.groups()
    return b0[-1] + b1[-1] + ang


def gate_class(name):
    """the name itself for the small catalogues; the (axis pattern, angle) class for 2-qutrit names"""
    if name == "identity" or name in ROT1 or name in ("cx", "cz", "swap", "zx90", "zz90", "toffoli", "fredkin") or RE_QT_GATE.match(name):
        return name
    parts = name.split("_")
    if all(RE_QT2_PART.match(p) for p in parts):
        return "2qutrit[" + "+".join(qt2_part_class(p) for p in parts) + "]"
    return "other"


def misspellings(name):
    """single-edit neighbours: {misspelt: kind}"""
    out = {}
    n = len(name)
    for i in range(n):
        out.setdefault(name[:i] + name[i + 1:], "drop")
    for i in range(n):
        out.setdefault(name[:i] + name[i] + name[i:], "dup")
    for i in range(n - 1):
        if name[i] != name[i + 1]:
            out.setdefault(name[:i] + name[i + 1] + name[i] + name[i + 2:], "swap")
    for c in (name.upper(), name.capitalize(), name.title()):
        out.setdefault(c, "case")
    for i in range(n):
        if name[i].isalpha():
            out.setdefault(name[:i] + name[i].swapcase() + name[i + 1:], "case")
    out.pop(name, None)
    return out


def ids_class(ids):
    s = sorted(ids)
    p = [s.index(i) for i in ids]
    if p == list(range(len(p))):
        return "ascending"
    if len(p) == 2:
        return "descending"
    fixed = sum(1 for k, v in enumerate(p) if k == v)
    return "transposition" if fixed == 1 else "3cycle"


def sample_two_base(singles, seed, rounds=3):
    """stratified sample of two-base names: every single-base name `rounds` times in each role, and every cell of
    (structure of part 1, structure of part 2, angle 1, angle 2) at least once"""
    rng = np.random.default_rng(np.random.SeedSequence([int(seed), 17, 4242]))
    n = len(singles)
    chosen = []
    seen = set()
    for _ in range(rounds):
        perm = rng.permutation(n)
        for i in range(n):
            j = int(perm[i])
            if j == i:
                j = (j + 1) % n
            nm = singles[i] + "_" + singles[j]
            if nm not in seen:
                seen.add(nm)
                chosen.append(nm)

    def cell(part):
        m = RE_QT2_PART.match(part)
        b0, b1, ang = m.groups()
        return ("i" if b0 == "i" else "B") + ("i" if b1 == "i" else "B") + ang
    cells = {}
    for nm in chosen:
        a, b = nm.split("_")
        cells.setdefault((cell(a), cell(b)), 0)
    by = {}
    for s in singles:
        by.setdefault(cell(s), []).append(s)
    for ca in sorted(by):
        for cb in sorted(by):
            if (ca, cb) not in cells:
                for _ in range(20):
                    a = by[ca][int(rng.integers(len(by[ca])))]
                    b = by[cb][int(rng.integers(len(by[cb])))]
                    if a != b and a + "_" + b not in seen:
                        seen.add(a + "_" + b)
                        chosen.append(a + "_" + b)
                        break
    return chosen


# ===================================================================== shards

def _catalogue_sizes():
    from quara.objects import gate_typical as GT
    from quara.objects import mprocess_typical as MT
    from quara.objects import povm_typical as PT
    from quara.objects import state_ensemble_typical as SE
    from quara.objects import state_typical as ST

    sz = {}
    for k in SYSDEF:
        sz["state:" + k] = len(getattr(ST, "get_state_names_" + k)())
        sz["povm:" + k] = len(getattr(PT, "get_povm_names_" + k)())
    sz["state:all"] = len(ST.get_state_names())
    sz["povm:all"] = len(PT.get_povm_names())
    for k in ("1qubit", "2qubit", "3qubit", "1qutrit"):
        sz["gate:" + k] = len(getattr(GT, "get_gate_names_" + k)())
    sz["gate:2qutrit-single"] = len(GT.get_gate_names_2qutrit_single_base_matrix())
    sz["gate:2qutrit-two"] = len(GT.get_gate_names_2qutrit_two_base_matrices())
    sz["gate:2qutrit"] = len(GT.get_gate_names_2qutrit())
    sz["gate:all"] = len(GT.get_gate_names())
    sz["mprocess:type1"] = len(MT.get_mprocess_names_type1())
    sz["mprocess:type2"] = len(MT.get_mprocess_names_type2())
    sz["ensemble"] = len(SE.get_state_ensemble_names())
    return sz


def _slices(n, k):
    k = max(1, min(k, n))
    b = [round(i * n / k) for i in range(k + 1)]
    return [(b[i], b[i + 1]) for i in range(k) if b[i + 1] > b[i]]


def shards(tier, seed):
    from quara.objects import gate_typical as GT

    sz = _catalogue_sizes()
    out = []
    out.append({"part": "small", "weight": 30})
    out.append({"part": "gate-small", "weight": 40})
    for lo, hi in _slices(sz["state:3qubit"], 4):
        out.append({"part": "state", "sys": "3qubit", "lo": lo, "hi": hi, "weight": 25})
    for lo, hi in _slices(sz["state:2qutrit"], 4):
        out.append({"part": "state", "sys": "2qutrit", "lo": lo, "hi": hi, "weight": 25})
    out.append({"part": "povm", "sys": "3qubit", "lo": 0, "hi": sz["povm:3qubit"], "weight": 20})
    for lo, hi in _slices(sz["povm:2qutrit"], 2):
        out.append({"part": "povm", "sys": "2qutrit", "lo": lo, "hi": hi, "weight": 20})
    for g in ("toffoli", "fredkin"):
        out.append({"part": "gate3", "gate": g, "csys": "contiguous", "weight": 45})
    out.append({"part": "gate3", "gate": "both", "csys": "gapped", "weight": 40})
    for lo, hi in _slices(sz["gate:2qutrit-single"], 12):
        out.append({"part": "qt2-single", "lo": lo, "hi": hi, "weight": 60})
    if tier == "quick":
        names = sample_two_base(GT.get_gate_names_2qutrit_single_base_matrix(), seed)
        for lo, hi in _slices(len(names), 16):
            out.append({"part": "qt2-two", "names": names[lo:hi], "full": True, "weight": 55})
    else:
        for lo, hi in _slices(sz["gate:2qutrit-two"], 48):
            out.append({"part": "qt2-two", "lo": lo, "hi": hi, "full": False, "weight": 100})
    return out


# ===================================================================== reference helpers on one composite system

def err(a, b):
    a, b = np.asarray(a), np.asarray(b)
    if a.shape != b.shape:
        return float("inf")
    return float(np.max(np.abs(a - b))) if a.size else 0.0


def scribble(x):
    """the caller overwrites, in place, the arrays it was given (raw arrays returned by generate_* functions are the
    caller's; read-only arrays and quara objects are left alone); returns the number of arrays overwritten"""
    if isinstance(x, np.ndarray):
        if x.flags.writeable and x.size and x.dtype.kind in "fc":
            x[...] = (0.4375 - 0.1875j) if x.dtype.kind == "c" else 0.4375
            return 1
        return 0
    if isinstance(x, (list, tuple)):
        return sum(scribble(y) for y in x)
    return 0


def _readers(val):
    """(getter, snapshot) pairs of the numerical content of a result: raw arrays, lists of them, and the public data
    attributes of quara objects"""
    if isinstance(val, np.ndarray):
        return [((lambda a=val: a), np.array(val))]
    if isinstance(val, (list, tuple)):
        return [r for v in val for r in _readers(v)]
    t = type(val).__name__
    if t == "State":
        return [((lambda o=val: o.vec), np.array(val.vec))]
    if t == "Povm":
        return [((lambda o=val, k=k: o.vecs[k]), np.array(v)) for k, v in enumerate(val.vecs)]
    if t in ("Gate", "EffectiveLindbladian"):
        return [((lambda o=val: o.hs), np.array(val.hs))]
    if t == "MProcess":
        return [((lambda o=val, k=k: o.hss[k]), np.array(v)) for k, v in enumerate(val.hss)]
    if t == "StateEnsemble":
        out = [((lambda o=val, k=k: o.states[k].vec), np.array(st.vec)) for k, st in enumerate(val.states)]
        return out + [((lambda o=val: np.asarray(o.prob_dist.ps, dtype=float)), np.array(val.prob_dist.ps, dtype=float))]
    return []


class Sys:
    """one composite system + vectorised transcription of qv.ref for it (cross-checked against qv.ref)"""

    def __init__(self, skey, names=None, basis=None):
        from quara.objects.composite_system_typical import generate_composite_system

        mode, num = SYSDEF[skey]
        self.skey = skey
        if basis == "hermitian":
            from quara.objects.matrix_basis import get_normalized_hermitian_basis

            self.c_sys = generate_composite_system(mode, num, ids_esys=list(names) if names else None,
                                                   basis=get_normalized_hermitian_basis(2 if mode == "qubit" else 3))
        else:
            self.c_sys = generate_composite_system(mode, num, ids_esys=list(names) if names else None)
        self.names = sorted(names) if names else list(range(num))
        self.dims = [2 if mode == "qubit" else 3] * num
        self.d = SYSDIM[skey]
        self.B = gen.basis_of(self.c_sys)
        self.F = np.array([b.reshape(-1) for b in self.B])            # rows vec(B_a), row-major
        G = self.F.conj() @ self.F.T
        self.C = np.linalg.solve(G, self.F.conj())                    # x = C vec(X)
        self.vI = np.eye(self.d).reshape(-1)

    def coeffs(self, X):
        return self.C @ np.asarray(X, dtype=complex).reshape(-1)

    def op(self, x):
        return (self.F.T @ np.asarray(x, dtype=complex)).reshape(self.d, self.d)

    def hs_of_super(self, S):
        return self.C @ S @ self.F.T

    def hs_of_kraus(self, ks):
        return self.hs_of_super(sum(np.kron(k, k.conj()) for k in ks))       # vec(K X K^+) = (K (x) conj K) vec X

    def hs_of_unitary(self, u):
        return self.hs_of_kraus([u])

    def hs_of_commutator(self, h):
        e = np.eye(self.d)
        return self.hs_of_super(-1j * (np.kron(h, e) - np.kron(e, h.T)))     # X -> -i[H,X]

    def superop(self, hs):
        return self.F.T @ np.asarray(hs, dtype=complex) @ self.C

    def trace_defect(self, hs, generator=False):
        """max_b |Tr E(B_b) - Tr B_b|  (generator: max_b |Tr L(B_b)|)"""
        t = self.vI @ self.superop(hs) @ self.F.T
        if not generator:
            t = t - self.vI @ self.F.T
        return float(np.max(np.abs(t)))

    def gate_viol(self, hs):
        d = self.d
        S = self.superop(hs)
        choi = S.reshape(d, d, d, d).transpose(0, 2, 1, 3).reshape(d * d, d * d)   # sum E(|i><j|) (x) |i><j|
        return {"eq": self.trace_defect(hs), "ineq": ref.psd_violation(choi)}

    def generator_viol(self, L):
        """sizes by which L fails to generate a CPTP semigroup: eq = max_b |Tr L(B_b)|; ineq = hermiticity-preservation
        and conditional complete positivity  (1-|W><W|) Choi(L) (1-|W><W|) >= 0,  |W> = sum_i |ii>/sqrt d  (GKSL theorem)"""
        d = self.d
        S = self.superop(L)
        choi = S.reshape(d, d, d, d).transpose(0, 2, 1, 3).reshape(d * d, d * d)
        w = np.eye(d).reshape(-1) / np.sqrt(d)
        P = np.eye(d * d) - np.outer(w, w)
        return {"eq": self.trace_defect(L, generator=True),
                "ineq": max(ref.herm_violation(choi) / 2, ref.psd_violation(P @ ref.herm_part(choi) @ P))}

    def apply(self, hs, rho):
        return self.op(np.asarray(hs) @ self.coeffs(rho))

    def self_check(self, rng):
        u = ref.rand_unitary(self.d, rng)
        e1 = err(self.hs_of_unitary(u), ref.hs_of_kraus(self.B, [u]))
        ks = ref.rand_kraus(self.d, 2, rng)
        ks[0] = ks[0] * 1.1
        hs = ref.hs_of_kraus(self.B, ks)
        v1, v2 = self.gate_viol(hs), ref.gate_violations(self.B, hs)
        e2 = max(abs(v1["eq"] - v2["eq"]), abs(v1["ineq"] - v2["ineq"]))
        h = ref.rand_herm(self.d, rng)
        e3 = err(self.hs_of_commutator(h), ref.hs_of_map(self.B, lambda X: -1j * (h @ X - X @ h)))
        cs = [ref.rand_herm(self.d, rng) + 1j * ref.rand_herm(self.d, rng)]
        L = ref.hs_of_map(self.B, lambda X: ref.gksl_rhs(h, cs, X))
        D = L - self.hs_of_commutator(h)
        g1, g2 = self.generator_viol(L), self.generator_viol(self.hs_of_commutator(h) - D)
        e4 = max(g1["eq"], g1["ineq"]) + (0.0 if g2["ineq"] > 1e-3 else 1.0)     # valid generator accepted, anti-dissipator rejected
        return max(e1, e2, e3, e4)


STATE_FORMS = ["pure_state_vector", "density_mat", "density_matrix_vector", "state"]
GATE_FORMS = ["unitary_mat", "gate_mat", "gate"]
EL_FORMS = ["hamiltonian_vec", "hamiltonian_mat", "effective_lindbladian_mat", "effective_lindbladian"]
POVM_FORMS = ["pure_state_vectors", "matrices", "vectors", "povm"]
MP_FORMS = ["set_pure_state_vectors", "set_kraus_matrices", "hss", "mprocess"]


class Run:
    def __init__(self, ctx):
        from quara.objects import effective_lindbladian_typical as ET
        from quara.objects import gate_typical as GT
        from quara.objects import mprocess_typical as MT
        from quara.objects import povm_typical as PT
        from quara.objects import qoperation_typical as QT
        from quara.objects import state_ensemble_typical as SE
        from quara.objects import state_typical as ST
        from quara.objects import tester_typical as TT

        self.ctx = ctx
        self.ST, self.PT, self.GT, self.MT, self.SE, self.ET, self.QT, self.TT = ST, PT, GT, MT, SE, ET, QT, TT
        self._sys = {}
        self._by_csys = {}
        self.enum = {}
        self.state_names = {k: list(getattr(ST, "get_state_names_" + k)()) for k in SYSDEF}
        self.povm_names = {k: list(getattr(PT, "get_povm_names_" + k)()) for k in SYSDEF}
        self.all_state = set(ST.get_state_names())
        self.all_povm = set(PT.get_povm_names())
        self.gate_names = {k: list(getattr(GT, "get_gate_names_" + k)()) for k in ("1qubit", "2qubit", "3qubit", "1qutrit")}
        self.qt2_single = list(GT.get_gate_names_2qutrit_single_base_matrix())
        self.qt2_two = list(GT.get_gate_names_2qutrit_two_base_matrices())
        self.all_gate = set(GT.get_gate_names())
        self.asym = set(GT.get_gate_names_2qubit_asymmetric()) | set(GT.get_gate_names_3qubit_asymmetric())
        self.mp_names = list(MT.get_mprocess_names_type1()) + list(MT.get_mprocess_names_type2())
        self.mp_psv = set(MT.get_mprocess_names_type1_set_pure_state_vectors())
        self.all_mp = set(self.mp_names)
        self.ens_names = list(SE.get_state_ensemble_names())
        self.rank1 = set(PT.get_povm_names_rank1())
        self.forms_ok = (list(PT.get_povm_object_names()) == POVM_FORMS and list(MT.get_mprocess_object_names()) == MP_FORMS
                         and list(QT.get_gate_object_names()) == GATE_FORMS
                         and list(QT.get_effective_lindbladian_object_names()) == EL_FORMS)
        if not self.forms_ok:
            ctx.mark_inconclusive("the catalogue's object_name lists differ from the forms this check enumerates")
        self.state_vec_cache = {}
        self.table_state_cache = {}
        self.captured = {}
        self.n_crosscheck = 0
        # history bookkeeping
        self.sfx = ""            # suffix of the keys of the history step that is running
        self.failed = set()      # keys that fired in the plain first pass of the current case
        self.bad_names = set()   # (kind, system, name) with a plain failure: not asked again in the last case
        self.case_no = 0
        self.held = []           # [case_no, label, getter, snapshot] of results the driver keeps
        self.n_second = 0
        self.lists0 = self.read_lists()
        self.hs = HookSet(ctx)
        self._install()

    # ------------------------------------------------------------------ systems
    def sys(self, skey, names=None, basis=None):
        k = (skey, tuple(names) if names else None) if basis is None else (skey, tuple(names) if names else None, basis)
        s = self._sys.get(k)
        if s is None:
            with self.hs.paused():
                s = Sys(skey, names, basis)
            e = s.self_check(np.random.default_rng(1234))
            if not e <= 1e-10:
                self.ctx.mark_inconclusive(f"vectorised reference disagrees with qv.ref on {skey}: {e}")
            self._sys[k] = s
            self._by_csys[id(s.c_sys)] = s
        return s

    def sibling(self, skey, basis=None):
        """a second composite system of the same size in the same process: other elemental ids, optionally another
        orthonormal Hermitian basis (a documented option of generate_composite_system)"""
        return self.sys(skey, SIBLING[skey], basis)

    def count_enum(self, lst, n=1):
        self.enum[lst] = self.enum.get(lst, 0) + n

    # ------------------------------------------------------------------ history bookkeeping
    def read_lists(self):
        """every get_*_names* list of the catalogues, as returned now (copies)"""
        out = {}
        for mod, label in ((self.ST, "state_typical"), (self.PT, "povm_typical"), (self.GT, "gate_typical"),
                           (self.MT, "mprocess_typical"), (self.SE, "state_ensemble_typical")):
            for nm in sorted(dir(mod)):
                fn = getattr(mod, nm)
                if not (nm.startswith("get_") and "_names" in nm and inspect.isfunction(fn) and fn.__module__ == mod.__name__):
                    continue
                if any(q.default is q.empty and q.kind in (q.POSITIONAL_ONLY, q.POSITIONAL_OR_KEYWORD, q.KEYWORD_ONLY)
                       for q in inspect.signature(fn).parameters.values()):
                    continue
                try:
                    val = fn()
                except Exception:      # noqa: BLE001 - a list that cannot be read is judged by the enumeration, not here
                    continue
                if isinstance(val, (list, tuple)):
                    out[f"{label}:{nm}"] = list(val)
        return out

    def begin_case(self):
        self.sfx = ""
        self.failed = set()
        self.case_no += 1
        self.n_second = int(self.ctx.cur_case or 0)      # rotation of the options of the second calls: a function of the case

    def end_case(self, item):
        self.reread()
        if self.failed:
            self.bad_names.add(tuple(item))
        self.sfx = ""

    @contextlib.contextmanager
    def step(self, sfx):
        old, self.sfx = self.sfx, sfx
        try:
            yield
        finally:
            self.sfx = old

    def key(self, key):
        """keys of a history step carry its suffix - unless the same mechanism already fired in the plain first pass of
        this case (then it is no history effect and keeps its ordinary key, so that known findings keep matching)"""
        if self.sfx and key is not None and key not in self.failed:
            return key + self.sfx
        return key

    def hold(self, cat, tag, objs):
        """the driver keeps results; each is snapshotted now and read again later (reread)"""
        for form, val in objs.items():
            for j, (get, snap) in enumerate(_readers(val)):
                self.held.append([self.case_no, f"{cat}:{tag}:{form}", get, snap])

    def reread(self):
        """results held by the driver (of this case and of the two cases before) must still be what they were when
        they were returned: one verdict per (case, form) with the worst deviation"""
        self.held = [h for h in self.held if h[0] >= self.case_no - 2]
        worst = {}
        for cno, label, get, snap in self.held:
            try:
                e = err(np.asarray(get()), snap)
            except Exception:      # noqa: BLE001 - an attribute that can no longer be read has changed
                e = float("inf")
            worst[(cno, label)] = max(worst.get((cno, label), 0.0), e)
        for (cno, label), e in worst.items():
            self.ctx.num("held-result-unchanged", e, TOLP, TOLF, key=f"{label}:result-changed-after-later-calls",
                         info={"label": label, "cases_later": self.case_no - cno})

    # ------------------------------------------------------------------ verdict helpers
    def num(self, oracle, e, key, info=None, tolp=TOLP):
        r = self.ctx.num(oracle, e, tolp, TOLF, key=self.key(key), info=info)
        if r == "fail" and not self.sfx:
            self.failed.add(key)
        return r

    def truth(self, oracle, ok, key=None, info=None):
        r = self.ctx.truth(oracle, ok, key=self.key(key), info=info)
        if not ok and not self.sfx:
            self.failed.add(key)
        return r

    def gen_call(self, cat, ncls, form, fn, *a, info=None, **kw):
        """a catalogue entry must be generatable"""
        ok, val = self.ctx.attempt(fn, *a, **kw)
        if ok and val is None:
            ok = False
            self.truth("generate", False, key=f"{cat}:{ncls}:generate[{form}]:returns-None", info=info)
            return False, None
        if ok:
            self.ctx.truth("generate", True)
        else:
            self.truth("generate", False, key=f"{cat}:{ncls}:generate[{form}]:" + self.ctx.exc_key(val), info=dict(info or {}, msg=str(val)[:200]))
        return ok, val

    def on_system(self, cat, ncls, form, obj, S, info=None):
        """an object generated on a composite system belongs to that system"""
        cs = getattr(obj, "composite_system", None)
        self.truth("on-system-asked", cs is not None and (cs is S.c_sys or cs == S.c_sys),
                   key=f"{cat}:{ncls}:{form}:composite_system-is-not-the-system-asked", info=info)

    def must_raise(self, oracle, key, fn, *a, info=None, **kw):
        with self.hs.paused():   # the dispatcher contracts judge catalogue entries; non-entries are judged here
            ok, val = self.ctx.attempt(fn, *a, **kw)
        self.ctx.truth(oracle, not ok, key=key, info=dict(info or {}, returned=type(val).__name__ if ok else None))
        return not ok

    # ------------------------------------------------------------------ physical (reference)
    def phys_sizes(self, obj):
        t = gen.type_of(obj)
        s = self._by_csys.get(id(obj.composite_system))
        if t == "Gate" and s is not None and s.d >= 9:
            v = s.gate_viol(obj.hs)
            if self.n_crosscheck < 3:
                self.n_crosscheck += 1
                w = gen.ref_violations(obj)
                if max(abs(v["eq"] - w["eq"]), abs(v["ineq"] - w["ineq"])) > 1e-10:
                    self.ctx.mark_inconclusive(f"vectorised gate violation sizes disagree with qv.ref: {v} vs {w}")
            return v
        return gen.ref_violations(obj)

    def judge_physical(self, cat, ncls, obj, info=None):
        v = self.phys_sizes(obj)
        self.num("physical", max(v["eq"], v["ineq"]), f"{cat}:{ncls}:not-physical", dict(info or {}, sizes=v))

    # ------------------------------------------------------------------ hooks (contracts on the dispatchers)
    def _install(self):
        hs, R = self.hs, self

        def post_state(res, snap, c_sys, state_name, *a, **k):
            R.judge_physical("state_typical", state_class(state_name), res, {"name": state_name})

        def post_povm(res, snap, povm_name, c_sys, *a, **k):
            R.judge_physical("povm_typical", povm_class(povm_name), res, {"name": povm_name})

        def post_gate(res, snap, gate_name, c_sys, ids=None, *a, **k):
            R.judge_physical("gate_typical", gate_class(gate_name), res, {"name": gate_name, "ids": ids})

        def post_mp(res, snap, c_sys, mprocess_name, *a, **k):
            R.judge_physical("mprocess_typical", mprocess_name if mprocess_name in R.all_mp else "other", res, {"name": mprocess_name})

        def post_ens(res, snap, c_sys, state_ensemble_name, *a, **k):
            ps = np.asarray(res.prob_dist.ps, dtype=float)
            e = max(abs(float(ps.sum()) - 1), float(max(0.0, -ps.min())))
            for st in res.states:
                v = gen.ref_violations(st)
                e = max(e, v["eq"], v["ineq"])
            R.num("physical", e, "state_ensemble_typical:1qubit-state-name:not-physical", {"name": state_ensemble_name})

        def post_el(res, snap, gate_name, c_sys, ids=None, *a, **k):
            s = R._by_csys.get(id(c_sys))
            if s is None:
                return
            R.num("physical", s.trace_defect(res.hs, generator=True),
                  f"effective_lindbladian_typical:{gate_class(gate_name)}:generator-not-trace-preserving", {"name": gate_name, "ids": ids})

        def post_gate_mat(res, snap, gate_name, dims=None, ids=None, *a, **k):
            R.captured[("gate_mat", gate_name)] = res

        hs.function(self.ST, "generate_state_from_name", post=post_state)
        hs.function(self.PT, "generate_povm_from_name", post=post_povm)
        hs.function(self.GT, "generate_gate_from_gate_name", post=post_gate)
        hs.function(self.MT, "generate_mprocess_from_name", post=post_mp)
        hs.function(self.SE, "generate_state_ensemble_from_name", post=post_ens)
        hs.function(self.ET, "generate_effective_lindbladian_from_gate_name", post=post_el)
        hs.function(self.GT, "generate_gate_mat_from_gate_name", post=post_gate_mat)
        for mod, nm in ((self.ST, "generate_state_object_from_state_name_object_name"),
                        (self.PT, "generate_povm_object_from_povm_name_object_name"),
                        (self.GT, "generate_gate_object_from_gate_name_object_name"),
                        (self.MT, "generate_mprocess_object_from_mprocess_name_object_name"),
                        (self.SE, "generate_state_ensemble_object_from_state_ensemble_name_object_name"),
                        (self.ET, "generate_effective_lindbladian_object_from_gate_name_object_name"),
                        (self.GT, "generate_unitary_mat_from_gate_name"),
                        (self.ET, "generate_hamiltonian_mat_from_gate_name"),
                        (self.ET, "generate_hamiltonian_vec_from_gate_name"),
                        (self.ET, "generate_effective_lindbladian_mat_from_gate_name"),
                        (self.QT, "generate_qoperation_object")):
            hs.function(mod, nm)

    # ------------------------------------------------------------------ table caches
    def tstates(self, skey):
        """(names, matrix of flattened table density matrices) of the state names listed for the system"""
        c = self.table_state_cache.get(skey)
        if c is None:
            names = self.state_names[skey]
            mats = [table_state(n) for n in names]
            keep = [(n, m) for n, m in zip(names, mats) if m is not None and m.shape[0] == SYSDIM[skey]]
            c = ([n for n, _ in keep], np.array([m.reshape(-1) for _, m in keep]))
            self.table_state_cache[skey] = c
        return c

    def lookup_state(self, skey, rho):
        names, M = self.tstates(skey)
        dist = np.max(np.abs(M - rho.reshape(-1)[None, :]), axis=1)
        k = int(np.argmin(dist))
        return names[k] if dist[k] < 1e-9 else None

    def state_vec(self, S, name):
        k = (id(S), name)
        v = self.state_vec_cache.get(k)
        if v is None:
            ok, st = self.ctx.attempt(self.ST.generate_state_from_name, S.c_sys, name)
            v = np.array(st.vec) if ok else None
            self.state_vec_cache[k] = v if v is not None else False
        return None if v is False else v


# ===================================================================== drivers: states / POVMs / mprocesses / ensembles

OTHER_SYS = {k: [o for o in SYSDEF if o != k] for k in SYSDEF}


def do_unknown(R, cat, name, valid, calls, roundrobin=0, full_first=10 ** 9, classify=None):
    """every single-edit misspelling of `name` that is not itself catalogued must raise in every form.
    calls: list of (form, fn(misspelt) -> object).  roundrobin>0: each misspelling is tried with `roundrobin` forms in
    rotation (all forms for the first `full_first` misspellings)."""
    ctx = R.ctx
    for k, (m, kind) in enumerate(sorted(misspellings(name).items())):
        if m in valid:
            continue
        if roundrobin and k >= full_first:
            sel = [calls[(k * roundrobin + j) % len(calls)] for j in range(roundrobin)]
        else:
            sel = calls
        if classify is not None:
            kind = classify(m) or kind
        for form, fn in sel:
            R.must_raise("unknown-name-raises", f"{cat}:unknown-name[{kind}]:{form}:returns-object", fn, m,
                         info={"misspelt": m, "of": name})
            ctx.nontrivial(cat, "unknown", m, form)


def state_pass(R, S, name, forms, rho_t, info, phys=True):
    """generate the given forms of a state name on S (in the given order) and judge them; returns {form: result}"""
    cat, ncls = "state_typical", state_class(name)
    objs = {}
    for form in forms:
        args = (name, form, S.c_sys) if phys else (name, form, S.c_sys, False)
        ok, val = R.gen_call(cat, ncls, form, R.QT.generate_state_object, *args, info=info)
        if ok:
            objs[form] = val
    v = objs.get("pure_state_vector")
    dm = objs.get("density_mat")
    dmv = objs.get("density_matrix_vector")
    st = objs.get("state")
    if v is not None:
        v = np.asarray(v, dtype=complex).reshape(-1)
        R.num("cross-form", abs(np.vdot(v, v).real - 1), f"{cat}:{ncls}:pure_state_vector:not-normalised", info)
        if rho_t is not None:
            R.num("textbook", err(proj(v), rho_t), f"{cat}:{ncls}:textbook", dict(info, form="pure_state_vector"))
    if dm is not None:
        dm = np.asarray(dm, dtype=complex)
        if v is not None:
            R.num("cross-form", err(dm, proj(v)), f"{cat}:{ncls}:cross-form[density_mat-vs-pure_state_vector]", info)
        if rho_t is not None:
            R.num("textbook", err(dm, rho_t), f"{cat}:{ncls}:textbook", dict(info, form="density_mat"))
    if dmv is not None:
        dmv = np.asarray(dmv)
        R.num("cross-form", float(np.max(np.abs(np.imag(dmv)))) if np.iscomplexobj(dmv) else 0.0, f"{cat}:{ncls}:density_matrix_vector:not-real", info)
        if dm is not None:
            R.num("cross-form", err(S.op(dmv), dm) if dmv.shape == (S.d ** 2,) else float("inf"),
                  f"{cat}:{ncls}:cross-form[density_matrix_vector-vs-density_mat]", info)
        elif rho_t is not None:      # asked without the density matrix (history steps): straight against the table
            R.num("textbook", err(S.op(dmv), rho_t) if dmv.shape == (S.d ** 2,) else float("inf"),
                  f"{cat}:{ncls}:textbook", dict(info, form="density_matrix_vector"))
    if st is not None:
        R.on_system(cat, ncls, "state", st, S, info)
        if dmv is not None:
            R.num("cross-form", err(np.asarray(st.vec), dmv), f"{cat}:{ncls}:cross-form[state-vs-density_matrix_vector]", info)
        if rho_t is not None:
            R.num("textbook", err(ref.state_op(S.B, st.vec), rho_t), f"{cat}:{ncls}:textbook", dict(info, form="state"))
    return objs


def state_history(R, S, skey, name, objs, rho_t, info):
    ctx, cat, ncls = R.ctx, "state_typical", state_class(name)
    # the caller overwrites the arrays it was given and asks again: other order, non-default option
    ctx.count("history:arrays-overwritten-by-the-caller", scribble([objs.get(f) for f in STATE_FORMS[:3]]))
    with R.step(":second-call"):
        o2 = state_pass(R, S, name, [f for f in reversed(STATE_FORMS) if f in objs], rho_t, info, phys=False)
    R.hold(cat, ncls, o2)
    R.hold(cat, ncls, {"state[first call]": objs.get("state")})
    # the same name on a sibling system of the same size (other ids, other Hermitian basis), then on the first again
    S2 = R.sibling(skey, "hermitian")
    with R.step(":sibling-system"):
        sib = [f for f in ("density_matrix_vector", "state") if f in objs]
        state_pass(R, S2, name, sib, rho_t, dict(info, system_names=list(S2.names), basis="normalized hermitian"))
        state_pass(R, S, name, sib[::-1], rho_t, info)
    ctx.count("history:state-cases")


def do_state(R, skey, name, unknown=True):
    ctx, S, cat = R.ctx, R.sys(skey), "state_typical"
    ncls = state_class(name)
    info = {"name": name, "system": skey}
    rho_t = table_state(name)
    if rho_t is None or rho_t.shape[0] != S.d:
        ctx.mark_inconclusive(f"textbook table has no {S.d}-dim state {name}")
        rho_t = None
    objs = state_pass(R, S, name, STATE_FORMS, rho_t, info)
    for form in STATE_FORMS:
        ctx.nontrivial(cat, name, form)
    st = objs.get("state")
    if st is not None:
        ok, st2 = ctx.attempt(R.QT.generate_qoperation, "state", name, S.c_sys)
        R.num("cross-form", err(st2.vec, st.vec) if ok else float("inf"), f"{cat}:{ncls}:cross-form[generate_qoperation-vs-state]", info)
        R.state_vec_cache[(id(S), name)] = np.array(st.vec)
    # wrong system size
    for o in OTHER_SYS[skey]:
        So = R.sys(o)
        for form in ("state", "density_matrix_vector"):
            R.must_raise("wrong-size-raises", f"{cat}:wrong-system-size[{skey}-name-on-{o}]:{form}:returns-object",
                         R.QT.generate_state_object, name, form, So.c_sys, info=info)
    if unknown:
        calls = [(f, (lambda m, f=f: R.QT.generate_state_object(m, f, S.c_sys))) for f in STATE_FORMS]
        do_unknown(R, cat, name, R.all_state, calls)
    state_history(R, S, skey, name, objs, rho_t, info)


def povm_pass(R, S, name, forms, tab, info, phys=True, quiet=()):
    """generate the given forms of a POVM name on S and judge them; forms in `quiet` may refuse (documented: the
    pure-state vectors exist for rank-1 POVMs only) - if they answer they must agree"""
    ctx, cat, ncls = R.ctx, "povm_typical", povm_class(name)
    objs = {}
    for form in forms:
        if form == "vectors":
            fn, args, kw = R.PT.generate_povm_object_from_povm_name_object_name, (name, form), {"basis": S.c_sys.basis()}
        elif form == "povm" and not phys:
            fn, args, kw = R.QT.generate_povm_object, (name, form, S.c_sys, False), {}
        else:
            fn, args, kw = R.QT.generate_povm_object, (name, form, S.c_sys), {}
        if form in quiet:
            ok, val = ctx.attempt(fn, *args, **kw)
            ctx.skip("generate") if not ok else None
        else:
            ok, val = R.gen_call(cat, ncls, form, fn, *args, info=info, **kw)
        if ok:
            objs[form] = val

    def table_err(ops):
        return max([err(a, b) for a, b in zip(ops, tab)] + [0.0]) if len(ops) == len(tab) else float("inf")
    ms = objs.get("matrices")
    if ms is not None:
        ms = [np.asarray(m, dtype=complex) for m in ms]
        if tab is not None:
            R.num("textbook", table_err(ms), f"{cat}:{ncls}:textbook", dict(info, form="matrices"))
    psv = objs.get("pure_state_vectors")
    if psv is not None and ms is not None:
        e = max([err(proj(v), m) for v, m in zip(psv, ms)] + [0.0]) if len(psv) == len(ms) else float("inf")
        R.num("cross-form", e, f"{cat}:{ncls}:cross-form[pure_state_vectors-vs-matrices]", info)
    elif psv is not None and tab is not None:
        R.num("textbook", table_err([proj(v) for v in psv]), f"{cat}:{ncls}:textbook", dict(info, form="pure_state_vectors"))
    vs = objs.get("vectors")
    if vs is not None and ms is not None:
        e = max([err(S.op(v), m) for v, m in zip(vs, ms)] + [0.0]) if len(vs) == len(ms) else float("inf")
        R.num("cross-form", e, f"{cat}:{ncls}:cross-form[vectors-vs-matrices]", info)
    elif vs is not None and tab is not None:
        ok_shape = all(np.asarray(v).shape == (S.d ** 2,) for v in vs)
        R.num("textbook", table_err([S.op(v) for v in vs]) if ok_shape else float("inf"), f"{cat}:{ncls}:textbook", dict(info, form="vectors"))
    pv = objs.get("povm")
    if pv is not None:
        R.on_system(cat, ncls, "povm", pv, S, info)
        if vs is not None:
            e = max([err(np.asarray(a), np.asarray(b)) for a, b in zip(pv.vecs, vs)] + [0.0]) if len(pv.vecs) == len(vs) else float("inf")
            R.num("cross-form", e, f"{cat}:{ncls}:cross-form[povm-vs-vectors]", info)
        if tab is not None:
            R.num("textbook", table_err(ref.povm_ops(S.B, pv.vecs)), f"{cat}:{ncls}:textbook", dict(info, form="povm"))
    return objs


def povm_history(R, S, skey, name, objs, tab, info, quiet):
    ctx, cat, ncls = R.ctx, "povm_typical", povm_class(name)
    ctx.count("history:arrays-overwritten-by-the-caller", scribble([objs.get(f) for f in POVM_FORMS[:3]]))
    with R.step(":second-call"):
        o2 = povm_pass(R, S, name, [f for f in reversed(POVM_FORMS) if f in objs], tab, info, phys=False, quiet=quiet)
    R.hold(cat, ncls, o2)
    R.hold(cat, ncls, {"povm[first call]": objs.get("povm")})
    S2 = R.sibling(skey, "hermitian")
    with R.step(":sibling-system"):
        sib = [f for f in ("vectors", "povm") if f in objs]
        povm_pass(R, S2, name, sib, tab, dict(info, system_names=list(S2.names), basis="normalized hermitian"))
        povm_pass(R, S, name, sib[::-1], tab, info)
    ctx.count("history:povm-cases")


def do_povm(R, skey, name, unknown=True):
    ctx, S, cat = R.ctx, R.sys(skey), "povm_typical"
    ncls = povm_class(name)
    info = {"name": name, "system": skey}
    is_r1 = all(p in R.rank1 for p in name.split("_"))
    quiet = () if is_r1 else ("pure_state_vectors",)
    tab = table_povm(name)
    if tab is None or tab[0].shape[0] != S.d:
        ctx.mark_inconclusive(f"textbook table has no {S.d}-dim POVM {name}")
        tab = None
    objs = povm_pass(R, S, name, POVM_FORMS, tab, info, quiet=quiet)
    for form in POVM_FORMS:
        ctx.nontrivial(cat, name, form)
    pv = objs.get("povm")
    if pv is not None:
        ok, p2 = ctx.attempt(R.QT.generate_qoperation, "povm", name, S.c_sys)
        e = max(err(np.asarray(a), np.asarray(b)) for a, b in zip(p2.vecs, pv.vecs)) if ok and len(p2.vecs) == len(pv.vecs) else float("inf")
        R.num("cross-form", e, f"{cat}:{ncls}:cross-form[generate_qoperation-vs-povm]", info)
    for o in OTHER_SYS[skey]:
        So = R.sys(o)
        R.must_raise("wrong-size-raises", f"{cat}:wrong-system-size[{skey}-name-on-{o}]:povm:returns-object",
                     R.QT.generate_povm_object, name, "povm", So.c_sys, info=info)
        R.must_raise("wrong-size-raises", f"{cat}:wrong-system-size[{skey}-name-on-{o}]:vectors:returns-object",
                     R.PT.generate_povm_object_from_povm_name_object_name, name, "vectors", basis=So.c_sys.basis(), info=info)
    if unknown:
        calls = [("pure_state_vectors", lambda m: R.QT.generate_povm_object(m, "pure_state_vectors", S.c_sys)),
                 ("matrices", lambda m: R.QT.generate_povm_object(m, "matrices", S.c_sys)),
                 ("vectors", lambda m: R.PT.generate_povm_object_from_povm_name_object_name(m, "vectors", basis=S.c_sys.basis())),
                 ("povm", lambda m: R.QT.generate_povm_object(m, "povm", S.c_sys))]
        do_unknown(R, cat, name, R.all_povm, calls,
                   classify=lambda m: "unlisted-product-of-listed-atoms" if m and all(atom_povm(q) is not None for q in m.split("_")) else None)
    povm_history(R, S, skey, name, objs, tab, info, quiet)


def judge_mp_table(R, S, name, got, tab, info, form):
    """Hilbert-Schmidt matrices of the outcomes of a catalogued instrument against the documented Kraus operators"""
    ctx, cat = R.ctx, "mprocess_typical"
    hs_t = [S.hs_of_kraus(o) for o in tab]
    got = [np.asarray(h) for h in got]
    if len(got) != len(hs_t):
        R.num("textbook", float("inf"), f"{cat}:{name}:textbook[number-of-outcomes]", info)
        return
    e = max(err(a, b) for a, b in zip(got, hs_t))
    # the same instrument with its outcomes in another order is a different mechanism from a wrong instrument
    best = min(max(err(got[p[i]], hs_t[i]) for i in range(len(got))) for p in itertools.permutations(range(len(got))))
    if e >= TOLF and best <= TOLP:
        # The outcome order of an instrument is a labelling convention; the only source for it is a docstring
        # (bell-type1 documents Psi+,Psi-,Phi+,Phi- while the code and the POVM catalogue entry `bell` use
        # Phi+,Phi-,Psi+,Psi-).  A docstring is not one of the alternative descriptions the statement compares:
        # recorded, not judged; the order is still pinned by cross-form[instrument-povm-vs-povm-catalogue].
        if not R.sfx:
            ctx.count(f"recorded-not-judged:{cat}:{name}:outcome-order-differs-from-docstring")
        ctx.skip("textbook")
    else:
        R.num("textbook", e, f"{cat}:{name}:textbook[{form}]", info)


def mprocess_pass(R, S, name, forms, tab, info, phys=True, quiet=(), table_forms=("mprocess",)):
    ctx, cat = R.ctx, "mprocess_typical"
    objs = {}
    for form in forms:
        kw = {} if phys or form != "mprocess" else {"is_physicality_required": False}
        if form in quiet:
            ok, val = ctx.attempt(R.QT.generate_mprocess_object, name, form, S.c_sys)   # listed only for the pure-state names
            ctx.skip("generate") if not ok else None
        else:
            ok, val = R.gen_call(cat, name, form, R.QT.generate_mprocess_object, name, form, S.c_sys, info=info, **kw)
        if ok:
            objs[form] = val
    ks = objs.get("set_kraus_matrices")
    psv = objs.get("set_pure_state_vectors")
    hss = objs.get("hss")
    mp = objs.get("mprocess")
    if ks is not None:
        ks = [[np.asarray(k, dtype=complex) for k in o] for o in ks]
    if psv is not None and ks is not None:
        same = len(psv) == len(ks) and all(len(a) == len(b) for a, b in zip(psv, ks))
        e = max(err(proj(v), k) for a, b in zip(psv, ks) for v, k in zip(a, b)) if same else float("inf")
        R.num("cross-form", e, f"{cat}:{name}:cross-form[set_pure_state_vectors-vs-set_kraus_matrices]", info)
    hs_k = [ref.hs_of_kraus(S.B, o) for o in ks] if ks is not None else None
    if hss is not None and hs_k is not None:
        e = max(err(np.asarray(a), b) for a, b in zip(hss, hs_k)) if len(hss) == len(hs_k) else float("inf")
        R.num("cross-form", e, f"{cat}:{name}:cross-form[hss-vs-set_kraus_matrices]", info)
    if mp is not None:
        R.on_system(cat, name, "mprocess", mp, S, info)
    if mp is not None and hss is not None:
        e = max(err(np.asarray(a), np.asarray(b)) for a, b in zip(mp.hss, hss)) if len(mp.hss) == len(hss) else float("inf")
        R.num("cross-form", e, f"{cat}:{name}:cross-form[mprocess-vs-hss]", info)
    if tab is not None:
        if mp is not None and "mprocess" in table_forms:
            judge_mp_table(R, S, name, mp.hss, tab, info, "mprocess")
        if hss is not None and "hss" in table_forms:
            judge_mp_table(R, S, name, hss, tab, info, "hss")
        if hs_k is not None and "set_kraus_matrices" in table_forms:
            judge_mp_table(R, S, name, hs_k, tab, info, "set_kraus_matrices")
        if psv is not None and "set_pure_state_vectors" in table_forms:
            judge_mp_table(R, S, name, [S.hs_of_kraus([proj(v) for v in o]) for o in psv], tab, info, "set_pure_state_vectors")
    if tab is not None and mp is not None:
        # POVM of the instrument == POVM catalogue entry of the same base name, in the same order
        base = name.rsplit("-", 1)[0]
        if base in R.all_povm and ks is not None:
            ok, pm = ctx.attempt(R.PT.generate_povm_matrices_from_name, base)
            if ok and len(pm) == len(ks):
                e = max(err(sum(k.conj().T @ k for k in o), np.asarray(m)) for o, m in zip(ks, pm))
                R.num("cross-form", e, f"{cat}:{name}:cross-form[instrument-povm-vs-povm-catalogue]", info)
    return objs


def mprocess_history(R, S, skey, name, objs, tab, info, quiet):
    ctx, cat = R.ctx, "mprocess_typical"
    ctx.count("history:arrays-overwritten-by-the-caller", scribble([objs.get(f) for f in MP_FORMS[:3]]))
    with R.step(":second-call"):
        o2 = mprocess_pass(R, S, name, [f for f in reversed(MP_FORMS) if f in objs], tab, info, phys=False, quiet=quiet)
    R.hold(cat, name, o2)
    R.hold(cat, name, {"mprocess[first call]": objs.get("mprocess")})
    S2 = R.sibling(skey)
    with R.step(":sibling-system"):
        sib = [f for f in ("hss", "mprocess") if f in objs]
        mprocess_pass(R, S2, name, sib, tab, dict(info, system_names=list(S2.names)), table_forms=("hss", "mprocess"))
        mprocess_pass(R, S, name, sib[::-1], tab, info, table_forms=("hss", "mprocess"))
    # a third system of the same size whose FIRST computational-basis request is the non-default ordering (a public
    # query of the composite system without documented side effects), then the catalogue on it
    S3 = R.sys(skey, [n + 20 for n in SIBLING[skey]])
    if not getattr(S3, "_qv_column_major_asked", False):
        S3._qv_column_major_asked = True
        ctx.attempt(S3.c_sys.comp_basis, mode="column_major")
    with R.step(":after-column-major-request"):
        mprocess_pass(R, S3, name, sib, tab, dict(info, system_names=list(S3.names)), table_forms=("hss", "mprocess"))
    ctx.count("history:mprocess-cases")


def do_mprocess(R, name):
    ctx, cat = R.ctx, "mprocess_typical"
    skey = MP_SYS.get(name)
    if skey is None:
        ctx.mark_inconclusive(f"textbook table has no mprocess {name}")
        return
    S = R.sys(skey)
    info = {"name": name, "system": skey}
    quiet = () if name in R.mp_psv else ("set_pure_state_vectors",)
    tab = table_mprocess(name)
    if tab is None:
        ctx.mark_inconclusive(f"textbook table has no mprocess {name}")
    objs = mprocess_pass(R, S, name, MP_FORMS, tab, info, quiet=quiet)
    for form in MP_FORMS:
        ctx.nontrivial(cat, name, form)
    for o in OTHER_SYS[skey]:
        So = R.sys(o)
        for form in ("hss", "mprocess"):
            R.must_raise("wrong-size-raises", f"{cat}:wrong-system-size[{skey}-name-on-{o}]:{form}:returns-object",
                         R.QT.generate_mprocess_object, name, form, So.c_sys, info=info)
    calls = [(f, (lambda m, f=f: R.QT.generate_mprocess_object(m, f, S.c_sys))) for f in MP_FORMS]
    do_unknown(R, cat, name, R.all_mp, calls)
    mprocess_history(R, S, skey, name, objs, tab, info, quiet)


def ensemble_pass(R, S, name, info, phys=True):
    cat, ncls = "state_ensemble_typical", "1qubit-state-name"
    a2 = (name, S.c_sys) if phys else (name, S.c_sys, False)
    if phys:
        ok, ens = R.gen_call(cat, ncls, "state_ensemble", R.QT.generate_state_ensemble_object, name, "state_ensemble", S.c_sys, info=info)
    else:       # the wrapper in qoperation_typical has no such option; the catalogue's own dispatcher has
        ok, ens = R.gen_call(cat, ncls, "state_ensemble", R.SE.generate_state_ensemble_object_from_state_ensemble_name_object_name,
                             name, "state_ensemble", S.c_sys, False, info=info)
    ok2, el = R.gen_call(cat, ncls, "elements", R.SE.generate_state_ensemble_elements_from_name, *a2, info=info)
    if ok and ok2:
        states, ps = el
        same = len(states) == len(ens.states) == len(ps)
        e = max([err(np.asarray(a.vec), np.asarray(b.vec)) for a, b in zip(states, ens.states)] + [err(np.asarray(ens.prob_dist.ps, float), np.asarray(ps, float))]) if same else float("inf")
        R.num("cross-form", e, f"{cat}:{ncls}:cross-form[ensemble-vs-elements]", info)
    if ok:
        for st in ens.states:
            R.on_system(cat, ncls, "state_ensemble", st, S, info)
    return {"state_ensemble": ens} if ok else {}


def do_ensemble(R, name):
    ctx, cat, S = R.ctx, "state_ensemble_typical", R.sys("1qubit")
    ncls = "1qubit-state-name"
    info = {"name": name}
    objs = ensemble_pass(R, S, name, info)
    ctx.nontrivial(cat, name)
    for o in OTHER_SYS["1qubit"]:
        R.must_raise("wrong-size-raises", f"{cat}:wrong-system-size[1qubit-name-on-{o}]:state_ensemble:returns-object",
                     R.QT.generate_state_ensemble_object, name, "state_ensemble", R.sys(o).c_sys, info=info)
    do_unknown(R, cat, name, set(R.ens_names), [("state_ensemble", lambda m: R.QT.generate_state_ensemble_object(m, "state_ensemble", S.c_sys))])
    if objs:        # (names that cannot be generated at all have been reported by the first pass)
        with R.step(":second-call"):
            o2 = ensemble_pass(R, S, name, info, phys=False)
        R.hold(cat, ncls, o2)
        R.hold(cat, ncls, {"state_ensemble[first call]": objs.get("state_ensemble")})
        S2 = R.sibling("1qubit")
        with R.step(":sibling-system"):
            ensemble_pass(R, S2, name, dict(info, system_names=list(S2.names)))
            ensemble_pass(R, S, name, info)
        ctx.count("history:ensemble-cases")



# ===================================================================== driver: gates + effective Lindbladians

def map_inputs(R, skey, name):
    """named input states on which the action of the gate is compared with the table"""
    if skey == "1qubit":
        return list(R.state_names[skey])
    if skey == "2qubit":
        return list(R.state_names[skey])
    if skey == "3qubit":
        z = ["_".join(t) for t in itertools.product(("z0", "z1"), repeat=3)]
        return z + ["x0_x0_x0", "z1_z1_x0", "z1_x0_z1", "x0_z1_z1", "z1_a_x0", "a_z1_x0", "x0_a_z1", "z1_y0_x1", "y1_x0_z1", "ghz", "werner"]
    if skey == "1qutrit":
        return list(R.state_names[skey])
    if skey == "2qutrit":
        parts = name.split("_")
        if len(parts) != 1:
            return []
        m = RE_QT2_PART.match(parts[0])
        if not m or "i" not in (m.group(1), m.group(2)):
            return []
        atoms = [n for n in R.state_names["1qutrit"] if RE_QT_STATE.match(n)]
        idle = ["01z0", "12x0"]
        if m.group(1) == "i":
            return [a + "_" + b for a in idle for b in atoms]
        return [a + "_" + b for a in atoms for b in idle]
    return []


def gate_setup(R, S, name, ids):
    """(tag, info, textbook unitary, its HS matrix) of a gate name on S with one ordering of the ids"""
    skey = S.skey
    ncls = gate_class(name)
    icls = ids_class(ids) if len(ids) > 1 and skey != "2qutrit" else "ascending"
    tag = f"{ncls}:ids={icls}" if name in R.asym or (len(ids) > 1 and skey != "2qutrit" and name != "identity") else ncls
    info = {"name": name, "ids": list(ids), "system": skey, "system_names": list(S.names)}
    pos = [S.names.index(i) for i in ids]
    u_t = table_unitary(name, pos, skey)
    if u_t is None or u_t.shape[0] != S.d:
        return tag, info, None, None
    return tag, info, u_t, S.hs_of_unitary(u_t)


def gate_pass(R, S, name, ids, forms, el_forms, u_t, hs_t, tag, info, el_phys=True, g_phys=True, maps=True, dims=None, omit=False):
    """generate the given forms of a gate name and of the effective Lindbladian of the same name on S and judge them.
    omit=True: the optional arguments dims / ids are not handed over (single-system gates, documented defaults);
    g_phys / el_phys=False: objects are asked with is_physicality_required=False.  Returns (gate forms, Lindbladian
    forms, HS matrix of the catalogue gate)"""
    ctx = R.ctx
    cat, ecat = "gate_typical", "effective_lindbladian_typical"
    skey = S.skey
    dims = list(S.dims) if dims is None else dims
    objs = {}
    R.captured.pop(("gate_mat", name), None)
    for form in forms:
        kw = {} if g_phys or form != "gate" else {"is_physicality_required": False}
        if omit:
            ok, val = R.gen_call(cat, tag, form, R.QT.generate_gate_object, name, form, c_sys=S.c_sys, info=dict(info, dims_ids="omitted"), **kw)
        else:
            ok, val = R.gen_call(cat, tag, form, R.QT.generate_gate_object, name, form, dims, list(ids), S.c_sys, info=info, **kw)
        if ok:
            objs[form] = val
    u = objs.get("unitary_mat")
    gm = objs.get("gate_mat")
    g = objs.get("gate")
    hs_u = None
    if u is not None:
        u = np.asarray(u, dtype=complex)
        if u.shape != (S.d, S.d):
            R.num("cross-form", float("inf"), f"{cat}:{tag}:unitary_mat:wrong-shape", info)
            u = None
    if u is not None:
        R.num("cross-form", err(u @ u.conj().T, np.eye(S.d)), f"{cat}:{tag}:unitary_mat:not-unitary", info)
        hs_u = S.hs_of_unitary(u)
        R.num("textbook", err(hs_u, hs_t), f"{cat}:{tag}:textbook", dict(info, form="unitary_mat"))
        if S.d <= 4:
            R.num("cross-form", err(hs_u, ref.hs_of_kraus(S.B, [u])), "check:vectorised-hs-vs-ref", info)
    if gm is None and ("gate_mat", name) in R.captured and g is not None:
        gm = R.captured[("gate_mat", name)]          # the gate_mat the Gate was built from (seen by the dispatcher hook)
    if gm is not None:
        gm = np.asarray(gm)
        R.num("cross-form", float(np.max(np.abs(np.imag(gm)))) if np.iscomplexobj(gm) else 0.0, f"{cat}:{tag}:gate_mat:not-real", info)
        if hs_u is not None:
            R.num("cross-form", err(gm, hs_u), f"{cat}:{tag}:cross-form[gate_mat-vs-unitary_mat]", info)
        R.num("textbook", err(gm, hs_t), f"{cat}:{tag}:textbook", dict(info, form="gate_mat"))
    if g is not None:
        R.on_system(cat, tag, "gate", g, S, info)
        if gm is not None:
            R.num("cross-form", err(np.asarray(g.hs), gm), f"{cat}:{tag}:cross-form[gate-vs-gate_mat]", info)
        R.num("textbook", err(np.asarray(g.hs), hs_t), f"{cat}:{tag}:textbook", dict(info, form="gate"))
        if S.d <= 4:
            ok, g2 = ctx.attempt(R.QT.generate_qoperation, "gate", name, S.c_sys, list(ids))
            R.num("cross-form", err(g2.hs, g.hs) if ok else float("inf"), f"{cat}:{tag}:cross-form[generate_qoperation-vs-gate]", info)
    hs_cat = np.asarray(g.hs) if g is not None else (np.array(gm) if gm is not None else hs_u)   # (a raw gate_mat may be overwritten later by the driver: copy)
    # ---- effective Lindbladian catalogue of the same name
    eo = {}
    for form in el_forms:
        kw = {}
        if form == "effective_lindbladian":
            kw["is_physicality_required"] = bool(el_phys)
        if omit:
            ok, val = R.gen_call(ecat, tag, form, R.QT.generate_effective_lindbladian_object, name, form, c_sys=S.c_sys,
                                 info=dict(info, dims_ids="omitted"), **kw)
        else:
            ok, val = R.gen_call(ecat, tag, form, R.QT.generate_effective_lindbladian_object, name, form, dims, list(ids), S.c_sys, info=info, **kw)
        if ok:
            eo[form] = val
    h = eo.get("hamiltonian_mat")
    hv = eo.get("hamiltonian_vec")
    lm = eo.get("effective_lindbladian_mat")
    el = eo.get("effective_lindbladian")
    l_ref = None
    if h is not None:
        h = np.asarray(h, dtype=complex)
        if h.shape != (S.d, S.d):
            R.num("cross-form", float("inf"), f"{ecat}:{tag}:hamiltonian_mat:wrong-shape", info)
            h = None
    if h is not None:
        R.num("cross-form", ref.herm_violation(h), f"{ecat}:{tag}:hamiltonian_mat:not-hermitian", info)
        hs_h = S.hs_of_unitary(expm_herm(h))
        if hs_u is not None:
            R.num("cross-form", err(hs_h, hs_u), f"{ecat}:{tag}:cross-form[expm(-iH)-vs-unitary_mat]", info)
        R.num("textbook", err(hs_h, hs_t), f"{ecat}:{tag}:textbook", dict(info, form="expm(-iH)"))
        l_ref = S.hs_of_commutator(h)           # GKSL generator with Hamiltonian H and no dissipator: physical by structure
    if hv is not None and h is not None:
        hv = np.asarray(hv)
        R.num("cross-form", err(S.op(hv), h) if hv.shape == (S.d ** 2,) else float("inf"), f"{ecat}:{tag}:cross-form[hamiltonian_vec-vs-hamiltonian_mat]", info)
    elif hv is not None and "hamiltonian_mat" not in el_forms:     # asked alone (history steps): straight against the table
        hv = np.asarray(hv)
        e = err(S.hs_of_unitary(expm_herm(S.op(hv))), hs_t) if hv.shape == (S.d ** 2,) else float("inf")
        R.num("textbook", e, f"{ecat}:{tag}:textbook", dict(info, form="expm(-iH) of hamiltonian_vec"))
    if lm is not None:
        lm = np.asarray(lm)
        if l_ref is not None:
            R.num("cross-form", err(lm, l_ref), f"{ecat}:{tag}:cross-form[effective_lindbladian_mat-vs(-i[H,.])]", info)
        elif el is None and "hamiltonian_mat" not in el_forms:    # asked alone (history steps)
            from scipy.linalg import expm

            R.num("textbook", err(expm(lm), hs_t) if lm.shape == hs_t.shape else float("inf"), f"{ecat}:{tag}:textbook",
                  dict(info, form="expm(effective_lindbladian_mat)"), tolp=TOLP_EXP)
    if el is not None:
        R.on_system(ecat, tag, "effective_lindbladian", el, S, info)
        lh = np.asarray(el.hs)
        if lm is not None:
            R.num("cross-form", err(lh, lm), f"{ecat}:{tag}:cross-form[effective_lindbladian-vs-effective_lindbladian_mat]", info)
        if l_ref is not None:
            R.num("cross-form", err(lh, l_ref), f"{ecat}:{tag}:cross-form[effective_lindbladian-vs(-i[H,.])]", info)
        gv = S.generator_viol(lh)      # TP generator and PSD dissipator (conditional complete positivity), independent of H
        R.num("physical", max(gv["eq"], gv["ineq"]), f"{ecat}:{tag}:generator-not-physical", dict(info, sizes=gv))
        from scipy.linalg import expm

        ex = expm(np.asarray(lh, dtype=float) if not np.iscomplexobj(lh) else lh)
        v = S.gate_viol(ex)
        R.num("physical", max(v["eq"], v["ineq"]), f"{ecat}:{tag}:expm(L)-not-physical", dict(info, sizes=v), tolp=TOLP_EXP)
        if hs_cat is not None:
            R.num("expmL-vs-gate", err(ex, hs_cat), f"{ecat}:{tag}:expm(L)-vs-gate-of-the-same-name", info, tolp=TOLP_EXP)
        R.num("textbook", err(ex, hs_t), f"{ecat}:{tag}:textbook", dict(info, form="expm(L)"), tolp=TOLP_EXP)
    # ---- named gates map named states as the table says (catalogue gate on catalogue states)
    if maps and g is not None:
        n_hit = 0
        worst, wname = 0.0, None
        for a in map_inputs(R, skey, name):
            ra = table_state(a)
            if ra is None or ra.shape[0] != S.d:
                continue
            b = R.lookup_state(skey, u_t @ ra @ u_t.conj().T)
            if b is None:
                continue
            va, vb = R.state_vec(S, a), R.state_vec(S, b)
            if va is None or vb is None:
                continue
            n_hit += 1
            e = err(np.asarray(g.hs) @ va, vb)
            if e >= worst:
                worst, wname = e, (a, b)
        if n_hit:
            R.num("maps-named-states", worst, f"{cat}:{tag}:maps-named-states", dict(info, worst=wname, pairs=n_hit))
            ctx.count("named-state-pairs", n_hit)
        else:
            ctx.skip("maps-named-states")
    return objs, eo, hs_cat


GATE_RAW = ["unitary_mat", "gate_mat"]
EL_RAW = ["hamiltonian_vec", "hamiltonian_mat", "effective_lindbladian_mat"]


def gate_history(R, S, name, ids, objs, eo, u_t, hs_t, tag, info, dims, hist):
    """history steps of one gate case; hist: "full" (all forms again), "raw" (2-qutrit: the matrices again, the objects
    for every 4th name), "min" (thorough tier, names asked in reduced form: unitary and Hamiltonian again)"""
    ctx = R.ctx
    cat, ecat = "gate_typical", "effective_lindbladian_typical"
    single = len(S.names) == 1
    R.n_second += 1
    ctx.count("history:arrays-overwritten-by-the-caller", scribble([objs.get(f) for f in GATE_RAW] + [eo.get(f) for f in EL_RAW]))
    if hist == "full" or (hist == "raw" and R.n_second % 4 == 0):
        f2, e2 = [f for f in reversed(GATE_FORMS) if f in objs], [f for f in reversed(EL_FORMS) if f in eo]
    elif hist == "raw":
        f2 = [f for f in ("gate_mat", "unitary_mat") if f in objs]
        e2 = [f for f in ("effective_lindbladian_mat", "hamiltonian_mat") if f in eo]
    else:
        f2, e2 = [f for f in ("unitary_mat",) if f in objs], [f for f in ("hamiltonian_mat",) if f in eo]
    omit = single and name != "identity" and R.n_second % 2 == 1
    with R.step(":second-call"):
        o2, eo2, _ = gate_pass(R, S, name, ids, f2, e2, u_t, hs_t, tag, info, el_phys=False, g_phys=False, maps=False, dims=dims, omit=omit)
    R.hold(cat, tag, o2)
    R.hold(ecat, tag, eo2)
    R.hold(cat, tag, {"gate[first call]": objs.get("gate")})
    R.hold(ecat, tag, {"effective_lindbladian[first call]": eo.get("effective_lindbladian")})
    if hist == "full" and S.skey != "2qutrit":
        # the same name on a sibling system of the same size (other ids, same relative order), then on the first one again
        S2 = R.sibling(S.skey)
        ids2 = [S2.names[S.names.index(i)] for i in ids]
        tag2, info2, u2, hs2 = gate_setup(R, S2, name, ids2)
        with R.step(":sibling-system"):
            if u2 is not None:
                gate_pass(R, S2, name, ids2, [f for f in ("gate",) if f in objs], [f for f in ("effective_lindbladian",) if f in eo],
                          u2, hs2, tag2, info2, maps=False, el_phys=single)
            gate_pass(R, S, name, ids, [f for f in ("gate",) if f in objs], [], u_t, hs_t, tag, info, maps=False, dims=dims)
    ctx.count("history:gate-cases")


def do_gate(R, S, name, ids, forms, el_forms, el_phys=True, maps=True, dims_arg=None, hist="full"):
    """one catalogue gate name on system S with one ordering of the ids; returns the HS matrix of the catalogue unitary"""
    ctx = R.ctx
    cat, ecat = "gate_typical", "effective_lindbladian_typical"
    tag, info, u_t, hs_t = gate_setup(R, S, name, ids)
    if u_t is None:
        ctx.mark_inconclusive(f"textbook table has no {S.d}-dim gate {name}")
        return None
    objs, eo, hs_cat = gate_pass(R, S, name, ids, forms, el_forms, u_t, hs_t, tag, info, el_phys=el_phys, maps=maps, dims=dims_arg)
    for form in forms:
        ctx.nontrivial(cat, name, form, tuple(ids), tuple(S.names))
    for form in el_forms:
        ctx.nontrivial(ecat, name, form, tuple(ids), tuple(S.names))
    if hist:
        gate_history(R, S, name, ids, objs, eo, u_t, hs_t, tag, info, dims_arg, hist)
    return hs_cat



def gate_unknown(R, S, name, ids, roundrobin, full_first, valid=None):
    dims = list(S.dims)
    calls = [(f, (lambda m, f=f: R.QT.generate_gate_object(m, f, dims, list(ids), S.c_sys))) for f in GATE_FORMS]
    calls += [(f, (lambda m, f=f: R.QT.generate_effective_lindbladian_object(m, f, dims, list(ids), S.c_sys))) for f in EL_FORMS]
    do_unknown(R, "gate_typical", name, valid if valid is not None else R.all_gate, calls, roundrobin=roundrobin, full_first=full_first)


def gate_wrong_size(R, skey, name, ids_of, others=None):
    for o in (others or OTHER_SYS[skey]):
        So = R.sys(o)
        ids = ids_of(So)
        info = {"name": name, "ids": ids}
        R.must_raise("wrong-size-raises", f"gate_typical:wrong-system-size[{skey}-name-on-{o}]:gate:returns-object",
                     R.QT.generate_gate_object, name, "gate", list(So.dims), ids, So.c_sys, info=info)
        R.must_raise("wrong-size-raises", f"effective_lindbladian_typical:wrong-system-size[{skey}-name-on-{o}]:effective_lindbladian:returns-object",
                     R.QT.generate_effective_lindbladian_object, name, "effective_lindbladian", list(So.dims), ids, So.c_sys, False, info=info)


def ids_for(skey_of_name, So):
    """ids handed over when a name is tried on a system of another size: as many as the name's roles, taken from So"""
    n = {"1qubit": 1, "2qubit": 2, "3qubit": 3, "1qutrit": 1, "2qutrit": 2}[skey_of_name]
    base = list(So.names) + [max(So.names) + 1 + k for k in range(3)]
    return base[:n]


def do_gate_ids(R, skey, name, variants, forms, el_forms, el_phys_for=lambda S, ids: True):
    """all id permutations of one multi-qubit gate on the given systems + the ids oracles"""
    ctx = R.ctx
    for S in variants:
        res = {}
        for ids in itertools.permutations(S.names):
            res[ids] = do_gate(R, S, name, list(ids), forms, el_forms, el_phys=el_phys_for(S, ids))
        asc = tuple(S.names)
        for ids, hs_c in res.items():
            if ids == asc or hs_c is None or res.get(asc) is None:
                continue
            pa, pi = list(range(len(asc))), [S.names.index(i) for i in ids]
            t_same = err(S.hs_of_unitary(table_unitary(name, pi, skey)), S.hs_of_unitary(table_unitary(name, pa, skey))) < 1e-9
            c_same = err(hs_c, res[asc]) < 1e-9
            tag = f"{name}:ids={ids_class(ids)}"
            if t_same:
                ctx.truth("ids", c_same, key=f"gate_typical:{tag}:symmetric-gate-depends-on-ids", info={"ids": ids})
            else:
                ctx.truth("ids", not c_same, key=f"gate_typical:{name}:ids-ignored", info={"ids": ids, "names": S.names})


# ===================================================================== legacy constructors / tester_typical

def do_legacy(R):
    from quara.objects import gate as GM
    from quara.objects import povm as PM
    from quara.objects import state as SM

    ctx = R.ctx
    S1, S2q = R.sys("1qubit"), R.sys("2qubit")

    def cmp(label, fn, args, want, get):
        ok, obj = ctx.attempt(fn, *args)
        if not ok:
            ctx.truth("legacy", False, key=f"legacy:{label}:" + ctx.exc_key(obj), info={"msg": str(obj)[:200]})
            return
        okw, w = ctx.attempt(want)
        if not okw:
            ctx.skip("legacy")
            return
        a, b = get(obj), get(w)
        e = max([err(np.asarray(x), np.asarray(y)) for x, y in zip(a, b)] + [0.0]) if len(a) == len(b) else float("inf")
        R.num("legacy", e, f"legacy:{label}:differs-from-catalogue")
        ctx.nontrivial("legacy", label)
        v = gen.ref_violations(obj)
        R.num("physical", max(v["eq"], v["ineq"]), f"legacy:{label}:not-physical")

    sv = lambda o: [o.vec]            # noqa: E731
    pv = lambda o: list(o.vecs)       # noqa: E731
    gh = lambda o: [o.hs]             # noqa: E731
    for nm in ("x0", "x1", "y0", "y1", "z0", "z1"):
        cmp(f"state.get_{nm}_1q", getattr(SM, f"get_{nm}_1q"), (S1.c_sys,), lambda nm=nm: R.ST.generate_state_from_name(S1.c_sys, nm), sv)
        cmp(f"state_typical.get_state_{nm}_1q", getattr(R.ST, f"get_state_{nm}_1q"), (S1.c_sys,), lambda nm=nm: R.ST.generate_state_from_name(S1.c_sys, nm), sv)
    cmp("state_typical.get_state_a_1q", R.ST.get_state_a_1q, (S1.c_sys,), lambda: R.ST.generate_state_from_name(S1.c_sys, "a"), sv)
    cmp("state.get_bell_2q", SM.get_bell_2q, (S2q.c_sys,), lambda: R.ST.generate_state_from_name(S2q.c_sys, "bell_phi_plus"), sv)
    cmp("state_typical.get_state_bell_2q", R.ST.get_state_bell_2q, (S2q.c_sys,), lambda: R.ST.generate_state_from_name(S2q.c_sys, "bell_phi_plus"), sv)
    for a in "xyz":
        cmp(f"povm.get_{a}_povm", getattr(PM, f"get_{a}_povm"), (S1.c_sys,), lambda a=a: R.PT.generate_povm_from_name(a, S1.c_sys), pv)
        for b in "xyz":
            cmp(f"povm.get_{a}{b}_povm", getattr(PM, f"get_{a}{b}_povm"), (S2q.c_sys,), lambda a=a, b=b: R.PT.generate_povm_from_name(a + "_" + b, S2q.c_sys), pv)
    for fn, nm in (("get_i", "identity"), ("get_x", "x"), ("get_y", "y"), ("get_z", "z"), ("get_h", "hadamard"), ("get_root_x", "x90"),
                   ("get_root_y", "y90"), ("get_s", "phase"), ("get_sdg", "phase_daggered"), ("get_t", "piover8")):
        cmp(f"gate.{fn}", getattr(GM, fn), (S1.c_sys,), lambda nm=nm: R.GT.generate_gate_from_gate_name(nm, S1.c_sys), gh)
    cmp("gate.get_x_rotation(pi/2)", GM.get_x_rotation, (np.pi / 2, S1.c_sys), lambda: R.GT.generate_gate_from_gate_name("x90", S1.c_sys), gh)
    cmp("gate.get_i[2qubit]", GM.get_i, (S2q.c_sys,), lambda: R.GT.generate_gate_from_gate_name("identity", S2q.c_sys), gh)
    cmp("gate.get_cz", GM.get_cz, (S2q.c_sys,), lambda: R.GT.generate_gate_from_gate_name("cz", S2q.c_sys), gh)
    cmp("gate.get_swap", GM.get_swap, (S2q.c_sys,), lambda: R.GT.generate_gate_from_gate_name("swap", S2q.c_sys), gh)
    for S in (S2q, R.sys("2qubit", GAPPED["2qubit"])):
        es = S.c_sys.elemental_systems
        for c in (0, 1):
            ids = [es[c].name, es[1 - c].name]
            cmp(f"gate.get_cnot[control={'first' if c == 0 else 'second'}]", GM.get_cnot, (S.c_sys, es[c]),
                lambda S=S, ids=ids: R.GT.generate_gate_from_gate_name("cx", S.c_sys, ids), gh)
            # and against the table directly
            ok, g = ctx.attempt(GM.get_cnot, S.c_sys, es[c])
            if ok:
                R.num("textbook", err(np.asarray(g.hs), S.hs_of_unitary(table_unitary("cx", [c, 1 - c], "2qubit"))),
                      f"legacy:gate.get_cnot[control={'first' if c == 0 else 'second'}]:textbook")


def do_tester(R):
    ctx = R.ctx

    def cmp(label, fn, S, atoms, names, gen_one, get):
        ok, objs = ctx.attempt(fn, S.c_sys, atoms)
        if not ok:
            ctx.truth("cross-form", False, key=f"tester_typical:{label}:" + ctx.exc_key(objs), info={"msg": str(objs)[:200]})
            return
        if len(objs) != len(names):
            R.num("cross-form", float("inf"), f"tester_typical:{label}:number-of-objects")
            return
        worst = 0.0
        for o, nm in zip(objs, names):
            okw, w = ctx.attempt(gen_one, nm)
            if not okw:
                continue
            a, b = get(o), get(w)
            worst = max(worst, max([err(np.asarray(x), np.asarray(y)) for x, y in zip(a, b)] + [0.0]) if len(a) == len(b) else float("inf"))
            ctx.nontrivial("tester", label, nm)
        R.num("cross-form", worst, f"tester_typical:{label}:differs-from-catalogue-entry-of-the-joined-name")

    sv = lambda o: [o.vec]           # noqa: E731
    pv = lambda o: list(o.vecs)      # noqa: E731
    q1 = R.state_names["1qubit"]
    qt = R.state_names["1qutrit"]
    for skey, atoms in (("1qubit", q1), ("2qubit", q1), ("1qutrit", qt)):
        S = R.sys(skey)
        n = SYSDEF[skey][1]
        names = ["_".join(t) for t in itertools.product(atoms, repeat=n)]
        cmp(f"generate_tester_states[{skey}]", R.TT.generate_tester_states, S, list(atoms), names,
            lambda nm, S=S: R.ST.generate_state_from_name(S.c_sys, nm), sv)
    p1 = R.povm_names["1qubit"]
    pt = R.povm_names["1qutrit"]
    for skey, atoms in (("1qubit", p1), ("2qubit", p1), ("1qutrit", pt), ("2qutrit", pt)):
        S = R.sys(skey)
        n = SYSDEF[skey][1]
        names = ["_".join(t) for t in itertools.product(atoms, repeat=n)]
        cmp(f"generate_tester_povms[{skey}]", R.TT.generate_tester_povms, S, list(atoms), names,
            lambda nm, S=S: R.PT.generate_povm_from_name(nm, S.c_sys), pv)


# ===================================================================== last case of a shard: every name asked again

def _generate_all(R, kind, a, name):
    """the plain generations of one item, unjudged (used to rebuild the history when the last case is replayed alone);
    returns False when one of them raised (such a name is reported in its own case and not asked again)"""
    calls = []
    if kind == "state":
        S = R.sys(a)
        calls = [(R.QT.generate_state_object, (name, f, S.c_sys)) for f in STATE_FORMS]
    elif kind == "povm":
        S = R.sys(a)
        r1 = all(q in R.rank1 for q in name.split("_"))
        calls = [(R.QT.generate_povm_object, (name, f, S.c_sys)) for f in POVM_FORMS if f != "vectors" and (r1 or f != "pure_state_vectors")]
    elif kind == "mprocess" and name in MP_SYS:
        S = R.sys(MP_SYS[name])
        calls = [(R.QT.generate_mprocess_object, (name, f, S.c_sys)) for f in MP_FORMS if f != "set_pure_state_vectors" or name in R.mp_psv]
    elif kind == "ensemble":
        calls = [(R.QT.generate_state_ensemble_object, (name, "state_ensemble", R.sys("1qubit").c_sys))]
    elif kind in ("identity", "gate1", "gate2", "gate3", "qt2"):
        if kind == "qt2":
            systems = [R.sys("2qutrit")]
        elif kind == "gate3":
            systems = [R.sys("3qubit") if a == "contiguous" else R.sys("3qubit", GAPPED["3qubit"])]
        elif kind == "gate2":
            systems = [R.sys("2qubit"), R.sys("2qubit", GAPPED["2qubit"])]
        else:
            systems = [R.sys(a)]
        for S in systems:
            for ids in (itertools.permutations(S.names) if kind in ("gate2", "gate3") else [tuple(S.names)]):
                calls += [(R.QT.generate_gate_object, (name, f, list(S.dims), list(ids), S.c_sys)) for f in GATE_FORMS]
                calls += [(R.QT.generate_effective_lindbladian_object, (name, f, list(S.dims), list(ids), S.c_sys, False)) for f in EL_FORMS]
    good = True
    for fn, args in calls:
        try:
            fn(*args)
        except Exception:      # noqa: BLE001 - judged in the item's own case
            good = False
    return good


def do_again(R, items):
    """every name of the shard once more after all the others were asked: reverse order; small systems in every form,
    large ones in one form in rotation (multi-qubit gates: every id order); judged against the textbook table.  Then the
    legacy constructors / tester sets a second time, and the name lists against the lists read at the start."""
    ctx = R.ctx
    if ctx.only_case is not None:
        with R.hs.paused():
            for kind, a, name in items:
                if not _generate_all(R, kind, a, name):
                    R.bad_names.add((kind, a, name))
    with R.step(":asked-again-after-other-names"):
        for j, (kind, a, name) in enumerate(reversed(items)):
            if (kind, a, name) in R.bad_names:
                ctx.count("history:not-asked-again(plain failure in its own case)")
                continue
            info = {"name": name, "system": a}
            if kind == "state":
                S = R.sys(a)
                rho_t = table_state(name)
                rho_t = rho_t if rho_t is not None and rho_t.shape[0] == S.d else None
                state_pass(R, S, name, STATE_FORMS[::-1] if S.d <= 4 else [STATE_FORMS[j % 4]], rho_t, info)
            elif kind == "povm":
                S = R.sys(a)
                tab = table_povm(name)
                tab = tab if tab is not None and tab[0].shape[0] == S.d else None
                r1 = all(q in R.rank1 for q in name.split("_"))
                forms = POVM_FORMS[::-1] if S.d <= 4 else [POVM_FORMS[j % 4]]
                forms = [f for f in forms if r1 or f != "pure_state_vectors"] or ["matrices"]
                povm_pass(R, S, name, forms, tab, info)
            elif kind == "mprocess" and name in MP_SYS:
                S = R.sys(MP_SYS[name])
                forms = [f for f in reversed(MP_FORMS) if f != "set_pure_state_vectors" or name in R.mp_psv]
                mprocess_pass(R, S, name, forms, table_mprocess(name), dict(info, system=MP_SYS[name]), table_forms=tuple(forms))
            elif kind == "ensemble":
                ensemble_pass(R, R.sys("1qubit"), name, info)
            elif kind in ("identity", "gate1"):
                S = R.sys(a)
                ids = list(S.names)
                tag, ginfo, u_t, hs_t = gate_setup(R, S, name, ids)
                if u_t is None:
                    continue
                if S.d <= 4:
                    gate_pass(R, S, name, ids, GATE_FORMS[::-1], EL_FORMS[::-1], u_t, hs_t, tag, ginfo, maps=False)
                else:
                    gate_pass(R, S, name, ids, ["unitary_mat"], ["hamiltonian_mat"], u_t, hs_t, tag, ginfo, maps=False)
            elif kind == "gate2":
                for S in (R.sys("2qubit", GAPPED["2qubit"]), R.sys("2qubit")):
                    for ids in reversed(list(itertools.permutations(S.names))):
                        tag, ginfo, u_t, hs_t = gate_setup(R, S, name, list(ids))
                        if u_t is not None:
                            gate_pass(R, S, name, list(ids), GATE_FORMS[::-1], EL_FORMS[::-1], u_t, hs_t, tag, ginfo, maps=False)
            elif kind == "gate3":
                S = R.sys("3qubit") if a == "contiguous" else R.sys("3qubit", GAPPED["3qubit"])
                for ids in reversed(list(itertools.permutations(S.names))):
                    tag, ginfo, u_t, hs_t = gate_setup(R, S, name, list(ids))
                    if u_t is not None:
                        gate_pass(R, S, name, list(ids), ["gate_mat", "unitary_mat"], ["hamiltonian_mat"], u_t, hs_t, tag, ginfo, maps=False)
            elif kind == "qt2":
                S = R.sys("2qutrit")
                ids = list(S.names)
                tag, ginfo, u_t, hs_t = gate_setup(R, S, name, ids)
                if u_t is None:
                    continue
                rot = ("unitary_mat", "hamiltonian_mat", "gate_mat", "hamiltonian_vec") if ctx.tier == "quick" else ("unitary_mat", "hamiltonian_mat")
                form = rot[j % len(rot)]
                gate_pass(R, S, name, ids, [form] if form in GATE_FORMS else [], [form] if form in EL_FORMS else [],
                          u_t, hs_t, tag, ginfo, maps=False)
            ctx.count("history:names-asked-again")
    kinds = {k for k, _, _ in items}
    with R.step(":second-call"):
        if "legacy" in kinds:
            do_legacy(R)
        if "tester" in kinds:
            do_tester(R)
    # the lists of names themselves: what a list function returns must not depend on what was asked in between
    now = R.read_lists()
    for label in sorted(R.lists0):
        ctx.truth("name-lists-stable", now.get(label) == R.lists0[label], key=f"{label}:list-of-names-changed-after-later-calls",
                  info={"length_at_start": len(R.lists0[label]), "length_now": len(now.get(label) or [])})



# ===================================================================== run_shard

def build_items(R, p, tier):
    part = p["part"]
    it = []
    if part == "small":
        for sk in ("1qubit", "2qubit", "1qutrit"):
            it += [("state", sk, n) for n in R.state_names[sk]]
            it += [("povm", sk, n) for n in R.povm_names[sk]]
        it += [("mprocess", None, n) for n in R.mp_names]
        it += [("ensemble", None, n) for n in R.ens_names]
        it += [("legacy", None, None), ("tester", None, None), ("probe", None, None)]
    elif part == "gate-small":
        it += [("identity", sk, "identity") for sk in SYSDEF]
        it += [("gate1", "1qubit", n) for n in R.gate_names["1qubit"]]
        it += [("gate2", "2qubit", n) for n in R.gate_names["2qubit"]]
        it += [("gate1", "1qutrit", n) for n in R.gate_names["1qutrit"]]
    elif part in ("state", "povm"):
        lst = (R.state_names if part == "state" else R.povm_names)[p["sys"]]
        it += [(part, p["sys"], n) for n in lst[p["lo"]:p["hi"]]]
    elif part == "gate3":
        gs = R.gate_names["3qubit"] if p["gate"] == "both" else [p["gate"]]
        it += [("gate3", p["csys"], g) for g in gs]
    elif part == "qt2-single":
        it += [("qt2", "single", n) for n in R.qt2_single[p["lo"]:p["hi"]]]
    elif part == "qt2-two":
        names = p["names"] if "names" in p else R.qt2_two[p["lo"]:p["hi"]]
        it += [("qt2", "two", n) for n in names]
    return it


def run_shard(ctx):
    t0, c0 = time.time(), time.process_time()
    bad = table_self_test()
    if bad:
        ctx.mark_inconclusive(f"textbook table self-test failed: {bad[:5]}")
        return
    p = ctx.params
    R = Run(ctx)
    full = ctx.tier == "quick" or p.get("full", True)
    try:
        items = build_items(R, p, ctx.tier)
        for i in ctx.cases(len(items) + 1):
            R.begin_case()
            if i == len(items):           # the history case: every name of the shard again
                do_again(R, items)
                R.end_case(("again", None, None))
                continue
            kind, a, name = items[i]
            if kind == "state":
                do_state(R, a, name)
                R.count_enum("state:" + a)
            elif kind == "povm":
                do_povm(R, a, name)
                R.count_enum("povm:" + a)
            elif kind == "mprocess":
                do_mprocess(R, name)
                R.count_enum("mprocess")
            elif kind == "ensemble":
                do_ensemble(R, name)
                R.count_enum("ensemble")
            elif kind == "legacy":
                do_legacy(R)
            elif kind == "tester":
                do_tester(R)
            elif kind == "probe":
                do_probe(R)
            elif kind == "identity":
                S = R.sys(a)
                do_gate(R, S, "identity", list(S.names), GATE_FORMS, EL_FORMS, el_phys=(a not in ("3qubit", "2qutrit")))
                R.count_enum("gate:identity")
            elif kind == "gate1":
                S = R.sys(a)
                do_gate(R, S, name, list(S.names), GATE_FORMS, EL_FORMS)
                gate_wrong_size(R, a, name, lambda So, a=a: ids_for(a, So))
                gate_unknown(R, S, name, list(S.names), roundrobin=2, full_first=3)
                R.count_enum("gate:" + a)
            elif kind == "gate2":
                do_gate_ids(R, a, name, [R.sys("2qubit"), R.sys("2qubit", GAPPED["2qubit"])], GATE_FORMS, EL_FORMS)
                gate_wrong_size(R, a, name, lambda So, a=a: ids_for(a, So))
                S = R.sys("2qubit")
                gate_unknown(R, S, name, list(S.names), roundrobin=2, full_first=3)
                R.count_enum("gate:" + a)
            elif kind == "gate3":
                if a == "contiguous":
                    do_gate_ids(R, "3qubit", name, [R.sys("3qubit")], GATE_FORMS, EL_FORMS)
                    gate_wrong_size(R, "3qubit", name, lambda So: ids_for("3qubit", So))
                    S = R.sys("3qubit")
                    gate_unknown(R, S, name, list(S.names), roundrobin=2, full_first=3)
                    R.count_enum("gate:3qubit")
                else:
                    do_gate_ids(R, "3qubit", name, [R.sys("3qubit", GAPPED["3qubit"])], GATE_FORMS,
                                ["hamiltonian_vec", "hamiltonian_mat", "effective_lindbladian_mat"])
                    R.count_enum("gate:3qubit-gapped")
            elif kind == "qt2":
                S = R.sys("2qutrit")
                first = a == "single" and R.enum.get("gate:2qutrit-single", 0) == 0
                one_other = [OTHER_SYS["2qutrit"][i % 4]]
                if a == "single" or full:
                    do_gate(R, S, name, list(S.names), GATE_FORMS, EL_FORMS, el_phys=first, maps=(a == "single"), hist="raw")
                else:
                    extra = i % 8 == 0
                    do_gate(R, S, name, list(S.names), GATE_FORMS if extra else ["unitary_mat", "gate"],
                            EL_FORMS if extra else ["hamiltonian_mat", "effective_lindbladian"], el_phys=first, maps=False,
                            hist="raw" if extra else "min")
                if a == "single":
                    gate_unknown(R, S, name, list(S.names), roundrobin=1, full_first=3)
                    gate_wrong_size(R, "2qutrit", name, lambda So: ids_for("2qutrit", So), others=one_other)
                else:
                    ms = sorted(m for m in misspellings(name).items() if m[0] not in R.all_gate)
                    rng = ctx.rng()
                    pick = [ms[int(k)] for k in rng.choice(len(ms), size=min(len(ms), 3 if full else 1), replace=False)]
                    allf = GATE_FORMS + EL_FORMS
                    for j, (m, kind_m) in enumerate(pick):
                        for f in [allf[(i + 3 * j + q) % 7] for q in range(3)] if full else ("unitary_mat", "gate"):
                            fn = R.QT.generate_gate_object if f in GATE_FORMS else R.QT.generate_effective_lindbladian_object
                            R.must_raise("unknown-name-raises", f"gate_typical:unknown-name[{kind_m}]:{f}:returns-object", fn, m, f,
                                         list(S.dims), list(S.names), S.c_sys, info={"misspelt": m, "of": name})
                            ctx.nontrivial("gate_typical", "unknown", m, f)
                    if (full and i % 5 == 0) or (not full and i % 10 == 0):
                        gate_wrong_size(R, "2qutrit", name, lambda So: ids_for("2qutrit", So), others=one_other)
                R.count_enum("gate:2qutrit-" + a)
            if i < 3 and kind in ("state", "povm", "gate1", "gate2", "gate3", "qt2"):
                ctx.sample({"catalogue": kind, "system_or_class": a, "name": name})
            R.end_case(items[i])
    finally:
        R.hs.uninstall()
    ctx.extra["enum"] = R.enum
    ctx.extra["sizes"] = _catalogue_sizes()
    ctx.extra["hook_counts"] = R.hs.counts
    ctx.extra["cpu_s"] = time.process_time() - c0
    ctx.extra["wall_s"] = time.time() - t0
    ctx.extra["part"] = p["part"]


def do_probe(R):
    """facts recorded as notes (not verdicts): wrapper gaps that do not contradict the statement"""
    ctx, S = R.ctx, R.sys("1qubit")
    with R.hs.paused():
        ok, val = ctx.attempt(R.QT.generate_qoperation_object, "povm", "z", "vectors", c_sys=S.c_sys)
    if not ok:
        ctx.note(f"qoperation_typical.generate_qoperation_object(mode='povm', object_name='vectors') cannot pass a basis: {type(val).__name__}")


# ===================================================================== finalize (offline checker over all shards)

HOOKS_REQUIRED = ["state_typical.generate_state_from_name", "povm_typical.generate_povm_from_name",
                  "gate_typical.generate_gate_from_gate_name", "mprocess_typical.generate_mprocess_from_name",
                  "state_ensemble_typical.generate_state_ensemble_from_name",
                  "effective_lindbladian_typical.generate_effective_lindbladian_from_gate_name",
                  "gate_typical.generate_gate_mat_from_gate_name", "gate_typical.generate_unitary_mat_from_gate_name",
                  "state_typical.generate_state_object_from_state_name_object_name",
                  "povm_typical.generate_povm_object_from_povm_name_object_name",
                  "gate_typical.generate_gate_object_from_gate_name_object_name",
                  "mprocess_typical.generate_mprocess_object_from_mprocess_name_object_name",
                  "effective_lindbladian_typical.generate_effective_lindbladian_object_from_gate_name_object_name",
                  "qoperation_typical.generate_qoperation_object"]


def finalize(merged, ctx):
    enum, sizes, hooks = {}, None, {}
    cpu = 0.0
    two_expected = 0
    for e in merged["extra"]:
        x = e.get("extra") or {}
        for k, v in (x.get("enum") or {}).items():
            enum[k] = enum.get(k, 0) + v
        for k, v in (x.get("hook_counts") or {}).items():
            hooks[k] = hooks.get(k, 0) + v
        cpu += float(x.get("cpu_s", 0.0))
        if x.get("sizes"):
            if sizes is not None and sizes != x["sizes"]:
                ctx.mark_inconclusive("shards saw catalogue lists of different lengths")
            sizes = x["sizes"]
        p = e.get("params") or {}
        if p.get("part") == "qt2-two":
            two_expected += len(p["names"]) if "names" in p else p["hi"] - p["lo"]
    if sizes is None:
        ctx.mark_inconclusive("no shard reported the catalogue sizes")
        return
    want = {}
    for k in SYSDEF:
        want["state:" + k] = sizes["state:" + k]
        want["povm:" + k] = sizes["povm:" + k]
    for k in ("1qubit", "2qubit", "3qubit", "1qutrit"):
        want["gate:" + k] = sizes["gate:" + k]
    want["gate:3qubit-gapped"] = sizes["gate:3qubit"]
    want["gate:identity"] = len(SYSDEF)
    want["gate:2qutrit-single"] = sizes["gate:2qutrit-single"]
    want["gate:2qutrit-two"] = sizes["gate:2qutrit-two"] if ctx.tier == "thorough" else two_expected
    want["mprocess"] = sizes["mprocess:type1"] + sizes["mprocess:type2"]
    want["ensemble"] = sizes["ensemble"]
    for k, n in want.items():
        ok = enum.get(k, 0) == n
        if ok:
            ctx.truth("enumeration-complete", True)
        else:
            ctx.mark_inconclusive(f"enumerated {enum.get(k, 0)} names of {k}, the catalogue list has {n}")
    # list arithmetic of the catalogue itself (total lists are the concatenation of the per-system lists)
    if sizes["state:all"] != sum(sizes["state:" + k] for k in SYSDEF) or sizes["povm:all"] != sum(sizes["povm:" + k] for k in SYSDEF):
        ctx.mark_inconclusive("get_state_names / get_povm_names is not the concatenation of the per-system lists")
    if sizes["gate:all"] != 1 + sum(sizes["gate:" + k] for k in ("1qubit", "2qubit", "3qubit", "1qutrit")) + sizes["gate:2qutrit"] \
            or sizes["gate:2qutrit"] != sizes["gate:2qutrit-single"] + sizes["gate:2qutrit-two"]:
        ctx.mark_inconclusive("get_gate_names is not the concatenation of the per-system lists")
    for h in HOOKS_REQUIRED:
        if hooks.get(h, 0) == 0:
            ctx.mark_inconclusive(f"dispatcher never evaluated: {h}")
    ctx.count("cpu_s_total", int(round(cpu)))
    ctx.note(f"names enumerated per list: {enum}; catalogue sizes: {sizes}; dispatcher evaluations: {hooks}; cpu_s={cpu:.0f}")
