"""C20  Experiments and tomographies accept exactly the well-formed schedules.

Contracts on Experiment.__init__, the four object-list setters, the schedules
setter, calc_prob_dist and the four standard tomography constructors.  The
oracle is `analyse` / `tomography_shape` below: a transcription of the property
statement that never looks at quara's validation code.  The workload is the
complete enumeration of a bounded schedule language (see RULE / EXHAUSTIVE_SCOPE).

History / combination steps (shard modes "history", "tomo-history", class 5 of
"special"): the same hook oracles are reached through objects WITH A PAST - an
experiment asked before and after every public list setter (query -> setter ->
query, grow / shrink ladders with rejected setters in between), asked twice and
in another order while a twin of the same sizes holding other objects is asked in
between, obtained through copy() (and copy of the copy; the original afterwards),
used after the data-generating methods, given the schedule list of another living
experiment, built with seed_data / positional arguments; tomographies built for
list sizes 1..3 in turn, with every usable non-default constructor option, from
schedule lists that come out of the library, and executed repeatedly with two true
objects while other tomographies of the same class stay alive.  Keys of verdicts
reached in such a step end in the step's suffix (":after-query", ":after-setter",
":second-call", ":interleaved-twin", ":via-copy", ":after-copy",
":shared-schedule-list", ":interleaved-sizes", ":schedules-from-library",
":option-<name>").  Only public methods and setters are used; nothing beyond the
statement is judged (copy() of an accepted experiment is an experiment with the
same well-formed schedule list, so it must be accepted; an accepted own-shape
tomography must execute through generate_prob_dists_sequence as well).
"""
import contextlib
import copy as _copy
import inspect
import itertools
import numbers
from collections.abc import Sequence

import numpy as np

from qv import gen
from qv.monitor import HookSet, digest

ID = "C20"
RULE = ("every schedule of length 0..4 over a 28-item alphabet (4 kinds x indices {-1,0,1,2} + 12 malformed items incl. two integral-float indices 0.0 / 1.0 that compare equal to well-formed items: arity 1/3, "
        "list item, non-str / unknown / capitalised kind, float / bool / str / None index) x object-list configurations "
        "(all lists of length 2; empty gate+mprocess lists; None placeholders; thorough: 6 more, and length 5 over the 16 "
        "well-typed items for 4 configurations), non-sequence schedules, non-list schedule containers, multi-schedule lists, every setter "
        "transition (4 lists x 6 replacement lists, schedule replacement, seeded setter walks) from every accepting "
        "configuration, and every schedule of length <= 4 over the 16 well-typed items as custom `schedules` of the four "
        "tomography classes; a case is distinct by (call site, schedule list, list sizes) and non-trivial when it is "
        "accepted by the specification or has exactly one defect class (single-fault neighbours of the language).  "
        "History / combination steps: from every accepting (configuration, schedule) one case with a twin experiment of the same "
        "sizes asked in turn and twice, query -> list setter -> query for 4 lists x 6 replacements, a grow / shrink ladder per "
        "list with rejected setters in between, copy() and copy of the copy, the data-generating methods before and after a "
        "setter, the living schedule list given to experiments of other sizes (positional arguments, seed_data); per tomography "
        "class every schedule of length <= 3 over the 16 well-typed items for list sizes 1..3 in turn, 4 non-default option sets "
        "x (own-shape lists, other shapes, every defect class, 'all'), library-made schedule lists handed to other sizes, and "
        "repeated execution of living tomographies with two true objects")
EXHAUSTIVE = {"quick": True, "thorough": True}
EXHAUSTIVE_SCOPE = ("Experiment constructor: all 637,421 schedules of length 0..4 over the 28-item alphabet x 3 list "
                    "configurations (quick) / x 9 configurations plus all 16^5 length-5 schedules over the well-typed items x 4 "
                    "configurations (thorough); tomography constructors: all 69,905 single custom schedules of length 0..4 over "
                    "the 16 well-typed items per class.  Setter walks, multi-schedule lists and container classes are "
                    "enumerated over fixed finite pools, not over the whole product language.")
_X = "quara/qcircuit/experiment.py:Experiment."
_T = "quara/protocol/qtomography/standard/"
ANCHORS = [
    _X + "_validate_schedules", _X + "_validate_schedule_order", _X + "_validate_schedule_item", _X + "calc_prob_dist",
    _T + "standard_qst.py:StandardQst._validate_schedules", _T + "standard_povmt.py:StandardPovmt._validate_schedules",
    _T + "standard_qpt.py:StandardQpt._validate_schedules", _T + "standard_qmpt.py:StandardQmpt._validate_schedules",
    _T + "standard_qtomography.py:StandardQTomography._validate_schedules_str",
]
REQUIRED_REACH = ANCHORS
REQUIRED_ORACLES = ["Experiment.ctor.accept", "Experiment.ctor.error-type", "Experiment.list-setter.accept",
                    "Experiment.schedules.setter.accept", "Experiment.setter.rejected-unchanged",
                    "calc_prob_dist.executes", "calc_prob_dist.sum-to-one", "calc_prob_dist.none-placeholder",
                    "tomography.ctor.accept", "tomography.ctor.string", "Experiment.copy.accept", "tomography.execution"]
MIN_EVALS = {"quick": 1000000, "thorough": 5000000}
WATCHDOG = {"quick": 900, "thorough": 3600}
ASSUMPTIONS = [
    "the C20 statement is the specification: `analyse` / `tomography_shape` in qv/checks/c20.py transcribe it",
    "a list (not tuple) item, a capitalised kind and a float index are malformed; a negative index is out of range",
    "left open by the statement and therefore not judged: bool / numpy-integer indices that are in range as integers, "
    "tuple or str subclasses, schedule containers that are not lists (tuple of well-formed schedules, None, int, iterators), "
    "the exception type of a tomography-shape rejection, the empty schedule list given to a tomography class, "
    "execution of accepted schedules that do not end in their only POVM",
    "history steps use public methods and setters only; copy() of an experiment accepted with a well-formed list must be "
    "accepted; the tomography classes cannot be built with is_physicality_required=True at all (zero template object), so "
    "that option is not combined with schedules",
]

KINDS = ("state", "povm", "gate", "mprocess")
LISTARG = {"state": "states", "povm": "povms", "gate": "gates", "mprocess": "mprocesses"}

# ------------------------------------------------------------------ oracle


def analyse(schedule, sizes):
    """The property statement, transcribed.  Returns (definite defects, open points).
    Well-formed  <=>  both sets are empty.  `sizes` maps kind -> length of its object list."""
    if not isinstance(schedule, Sequence):
        return {"non-sequence-iterable-schedule" if hasattr(schedule, "__iter__") else "non-sequence-schedule"}, set()
    bad, amb, kinds = set(), set(), []
    if len(schedule) < 2:
        bad.add("too-short")
    for item in schedule:
        kind = None
        if not isinstance(item, tuple):
            bad.add("item-not-tuple")
        elif len(item) != 2:
            bad.add("item-arity")
        elif not isinstance(item[0], str):
            bad.add("kind-not-str")
        elif item[0] not in KINDS:
            bad.add("kind-capitalised" if item[0].lower() in KINDS else "kind-unknown")
        else:
            kind, idx = item
            if type(item) is not tuple or type(kind) is not str:
                amb.add("item-subclass")
            if not isinstance(idx, numbers.Integral):
                bad.add("index-not-int")
            elif idx < 0:
                bad.add("index-negative")
            elif idx >= sizes[kind]:
                bad.add("index-too-large")
            elif type(idx) is not int:  # bool, numpy integers: "integer" in one reading only
                amb.add("index-bool" if isinstance(idx, (bool, np.bool_)) else "index-non-builtin-integer")
        kinds.append(kind)
    if kinds and kinds[0] is not None and kinds[0] != "state":
        bad.add("first-not-state")
    if kinds.count("state") >= 2:
        bad.add("extra-state")
    if kinds.count("povm") >= 2:
        bad.add("two-povms")
    if kinds and kinds[-1] is not None and kinds[-1] not in ("povm", "mprocess"):
        bad.add("last-not-measurement")
    return bad, amb


TOMO_MIDDLE = {"qst": (), "povmt": (), "qpt": ("gate",), "qmpt": ("mprocess",)}


def tomography_shape(kind, schedule, sizes):
    """own shape of the tomography class: state, [the estimated gate / mprocess], povm; indices in range"""
    want = ("state",) + TOMO_MIDDLE[kind] + ("povm",)
    if not isinstance(schedule, Sequence) or len(schedule) != len(want):
        return False
    for item, k in zip(schedule, want):
        if not (type(item) is tuple and len(item) == 2 and item[0] == k and type(item[1]) is int and 0 <= item[1] < sizes[k]):
            return False
    return True


def defect_class(bad):
    bad = sorted(bad)
    return bad[0] if len(bad) == 1 else "multiple-defects"


def valid_class(schedule):
    ks = [it[0] for it in schedule]
    c = "ends-" + ks[-1]
    if "povm" in ks[:-1]:
        c += "+povm-inside"
    if "mprocess" in ks[1:-1]:
        c += "+mprocess-inside"
    if "gate" in ks:
        c += "+gate"
    return c


def expected_list(schedules, sizes):
    """(verdict, class, boundary) for a schedule list: verdict True / False / None (left open);
    boundary = inside the language or exactly one defect class away from it"""
    if type(schedules) is not list and type(schedules) is not tuple:
        return None, "non-list-schedules", False
    open_cls = None
    for s in schedules:
        bad, amb = analyse(s, sizes)
        if bad:
            return False, defect_class(bad), len(bad) == 1
        if amb:
            open_cls = defect_class(amb)
    if open_cls:
        return None, open_cls, False
    if type(schedules) is tuple:
        return None, "tuple-of-schedules", False
    return True, (valid_class(schedules[0]) if schedules else "empty-schedule-list"), True


# ------------------------------------------------------------------- hooks


class Mon:
    def __init__(self, ctx):
        self.ctx = ctx
        self.physical = set()   # ids of objects known to be physical (fixtures)
        self.keep = []
        self.deep_budget = 40
        self.tag = ""           # history suffix of the keys of every hook verdict (set by the history workloads)
        self.trail = []         # the public operations of the current history, for the info of a violation

    # ---- history bookkeeping
    @contextlib.contextmanager
    def tagged(self, tag):
        old, self.tag = self.tag, tag
        try:
            yield
        finally:
            self.tag = old

    def step(self, text):
        self.trail.append(text)
        if len(self.trail) > 40:
            del self.trail[:-40]

    def hist(self, info=None):
        info = dict(info or {})
        if self.trail:
            info["history"] = " -> ".join(self.trail[-16:])
        return info

    # ---- helpers
    def sizes_of(self, lists):
        """sizes dict or None when the object lists themselves are not what the statement talks about"""
        Q = self.Q
        out = {}
        for k, cls in (("state", Q.State), ("povm", Q.Povm), ("gate", Q.Gate), ("mprocess", Q.MProcess)):
            lst = lists[k]
            if lst is None:
                out[k] = 0
                continue
            if type(lst) is not list and type(lst) is not tuple:
                return None
            for o in lst:
                if o is not None and not isinstance(o, cls):
                    return None
            out[k] = len(lst)
        return out

    def judge(self, site, oracle, schedules, sizes, exc):
        """accepted <=> specification; a rejection uses one of the two schedule errors.  Returns (verdict, boundary)."""
        ctx = self.ctx
        want, cls, boundary = expected_list(schedules, sizes)
        E = self.E

        def truth(name, ok, key):
            if ok:
                ctx.truth(name, True)
            else:
                ctx.truth(name, False, key=key + self.tag, info=self.hist({
                    "schedules": repr(schedules)[:300], "sizes": sizes, "class": cls,
                    "raised": None if exc is None else f"{type(exc).__name__}: {str(exc)[:120]}"}))

        if want is None:
            ctx.skip(oracle + ".accept")
            ctx.count("open:" + cls + (":accepted" if exc is None else ":rejected"))
            if exc is not None and cls != "non-list-schedules":
                # in either reading a rejection must use the two schedule errors
                truth(oracle + ".error-type", isinstance(exc, E), f"{site}:{cls}:raises-{type(exc).__name__}")
        elif want:
            truth(oracle + ".accept", exc is None, f"{site}:rejects-valid:{cls}:{type(exc).__name__}")
        else:
            truth(oracle + ".accept", exc is not None, f"{site}:accepts:{cls}")
            if exc is not None:
                truth(oracle + ".error-type", isinstance(exc, E), f"{site}:{cls}:raises-{type(exc).__name__}")
        return want, boundary

    def light(self, e):
        s = e.schedules
        return (id(e.states), tuple(map(id, e.states)), id(e.povms), tuple(map(id, e.povms)), id(e.gates), tuple(map(id, e.gates)),
                id(e.mprocesses), tuple(map(id, e.mprocesses)), id(s), repr(s))

    # ---- install
    def install(self):
        from quara.qcircuit import experiment as xm
        from quara.protocol.qtomography.standard.standard_povmt import StandardPovmt
        from quara.protocol.qtomography.standard.standard_qmpt import StandardQmpt
        from quara.protocol.qtomography.standard.standard_qpt import StandardQpt
        from quara.protocol.qtomography.standard.standard_qst import StandardQst

        ctx = self.ctx
        self.Q = gen.q()
        self.X = xm.Experiment
        self.E = (xm.QuaraScheduleItemError, xm.QuaraScheduleOrderError)
        self.T = {"qst": StandardQst, "povmt": StandardPovmt, "qpt": StandardQpt, "qmpt": StandardQmpt}
        hs = self.hs = HookSet(ctx)
        MISSING = object()

        # ---------------- constructor
        def ctor_lists(schedules=MISSING, states=None, povms=None, gates=None, mprocesses=None, seed_data=None):
            return schedules, {"state": states, "povm": povms, "gate": gates, "mprocess": mprocesses}

        def ctor_judge(exc, a, kw):
            try:
                schedules, lists = ctor_lists(*a, **kw)
            except TypeError:
                return
            sizes = None if schedules is MISSING else self.sizes_of(lists)
            if sizes is None:
                ctx.skip("Experiment.ctor.accept")
                return
            want, boundary = self.judge("Experiment.ctor", "Experiment.ctor", schedules, sizes, exc)
            if boundary:
                ctx.nontrivial("ctor", repr(schedules), "%d.%d.%d.%d" % tuple(sizes[k] for k in KINDS))

        hs.method(self.X, "__init__", post=lambda r, snap, self_, *a, **kw: ctor_judge(None, a, kw),
                  on_exc=lambda exc, snap, self_, *a, **kw: ctor_judge(exc, a, kw))

        # ---------------- setters (HookSet.method wraps only the getter of a property)
        def hook_setter(name, pre, post, on_exc):
            raw = inspect.getattr_static(self.X, name)
            label = f"Experiment.{name}.setter"
            new = property(raw.fget, hs._wrap(label, raw.fset, pre, post, on_exc), raw.fdel, raw.__doc__)
            setattr(self.X, name, new)
            hs._undo.append((self.X, name, raw))

        def set_pre(e, value):
            deep = None
            if self.deep_budget > 0:
                self.deep_budget -= 1
                deep = digest(e)
            return self.light(e), deep

        def mk_list_setter(kind):
            name = LISTARG[kind]
            site = f"Experiment.{name}.setter"

            def fin(exc, snap, e, value):
                sizes = snap[2] if snap else None
                if sizes is None:
                    ctx.skip("Experiment.list-setter.accept")
                    return
                scheds = e.schedules
                want, boundary = self.judge(site, "Experiment.list-setter", scheds, sizes, exc)
                if boundary:
                    ctx.nontrivial(site, repr(scheds), "%d.%d.%d.%d" % tuple(sizes[k] for k in KINDS))
                if exc is None:
                    ok = getattr(e, name) is value
                    ctx.truth("Experiment.setter.stores", ok, key=f"{site}:accepted-value-not-stored" + self.tag,
                              info=None if ok else self.hist())
                else:
                    self.unchanged(site, e, snap)

            def pre(e, value):
                # sizes must be computed before the call: `value` replaces the old list only on success
                lists = {"state": e.states, "povm": e.povms, "gate": e.gates, "mprocess": e.mprocesses}
                lists[kind] = value
                return set_pre(e, value) + (None if value is None else self.sizes_of(lists),)

            hook_setter(name, pre, lambda r, snap, e, value: fin(None, snap, e, value),
                        lambda exc, snap, e, value: fin(exc, snap, e, value))

        for k in KINDS:
            mk_list_setter(k)

        def sched_fin(exc, snap, e, value):
            site = "Experiment.schedules.setter"
            sizes = self.sizes_of({"state": e.states, "povm": e.povms, "gate": e.gates, "mprocess": e.mprocesses})
            if sizes is None:
                ctx.skip("Experiment.schedules.setter.accept")
                return
            want, boundary = self.judge(site, "Experiment.schedules.setter", value, sizes, exc)
            if boundary:
                ctx.nontrivial(site, repr(value), "%d.%d.%d.%d" % tuple(sizes[k] for k in KINDS))
            if exc is None:
                ok = e.schedules is value
                ctx.truth("Experiment.setter.stores", ok, key=f"{site}:accepted-value-not-stored" + self.tag,
                          info=None if ok else self.hist())
            else:
                self.unchanged(site, e, snap)

        hook_setter("schedules", set_pre, lambda r, snap, e, value: sched_fin(None, snap, e, value),
                    lambda exc, snap, e, value: sched_fin(exc, snap, e, value))

        # ---------------- calc_prob_dist
        def path_of(e, idx):
            """(objects on the path, ends in its only POVM) or None when the call is outside the statement"""
            scheds = e.schedules
            if type(idx) is not int or type(scheds) not in (list, tuple) or not (0 <= idx < len(scheds)):
                return None
            sizes = self.sizes_of({"state": e.states, "povm": e.povms, "gate": e.gates, "mprocess": e.mprocesses})
            if sizes is None:
                return None
            s = scheds[idx]
            bad, amb = analyse(s, sizes)
            if bad or amb:
                return None  # lists mutated in place after validation etc.: not an accepted schedule
            lists = {"state": e.states, "povm": e.povms, "gate": e.gates, "mprocess": e.mprocesses}
            objs = [lists[k][i] for k, i in s]
            ks = [k for k, _ in s]
            return s, objs, (ks[-1] == "povm" and ks.count("povm") == 1)

        def cpd_post(result, snap, e, *a, **kw):
            idx = kw.get("schedule_index", a[0] if a else None)
            p = path_of(e, idx)
            if p is None:
                ctx.skip("calc_prob_dist.executes")
                return
            s, objs, ends_povm = p
            info = self.hist({"schedule": repr(s), "class": valid_class(s)})
            tag = self.tag
            if any(o is None for o in objs):
                ctx.truth("calc_prob_dist.none-placeholder", False, key="calc_prob_dist:none-placeholder:no-error" + tag, info=info)
                return
            if not ends_povm:
                ctx.skip("calc_prob_dist.executes")
                return
            ctx.truth("calc_prob_dist.executes", True)
            if not all(id(o) in self.physical for o in objs):
                ctx.skip("calc_prob_dist.sum-to-one")
                return
            n = len(objs[-1].vecs)
            for o in objs:
                if isinstance(o, self.Q.MProcess):
                    n *= len(o.hss)
            v = np.asarray(result)
            shape_ok = v.ndim == 1 and v.shape[0] == n and v.dtype.kind == "f"
            ctx.truth("calc_prob_dist.length", shape_ok, key=f"calc_prob_dist:wrong-length:{valid_class(s)}{tag}",
                      info=dict(info, shape=list(v.shape), want=n))
            if not shape_ok:
                return
            ctx.num("calc_prob_dist.sum-to-one", abs(float(np.sum(v)) - 1.0), 1e-12, 1e-9,
                    key=f"calc_prob_dist:not-normalised:{valid_class(s)}{tag}", info=info)
            ctx.num("calc_prob_dist.non-negative", max(0.0, -float(np.min(v))), 1e-12, 1e-9,
                    key=f"calc_prob_dist:negative-probability:{valid_class(s)}{tag}", info=info)

        def cpd_exc(exc, snap, e, *a, **kw):
            idx = kw.get("schedule_index", a[0] if a else None)
            p = path_of(e, idx)
            if p is None:
                ctx.skip("calc_prob_dist.executes")
                return
            s, objs, ends_povm = p
            info = self.hist({"schedule": repr(s), "raised": f"{type(exc).__name__}: {str(exc)[:160]}"})
            if any(o is None for o in objs):
                ctx.truth("calc_prob_dist.none-placeholder", isinstance(exc, ValueError),
                          key=f"calc_prob_dist:none-placeholder:raises-{type(exc).__name__}{self.tag}", info=info)
            elif ends_povm:
                ctx.truth("calc_prob_dist.executes", False,
                          key=f"calc_prob_dist:accepted-schedule-fails:{valid_class(s)}:{ctx.exc_key(exc)}{self.tag}", info=info)
            else:
                ctx.skip("calc_prob_dist.executes")
                ctx.count("open:calc_prob_dist-fails:" + valid_class(s))

        hs.method(self.X, "calc_prob_dist", post=cpd_post, on_exc=cpd_exc)

        # ---------------- tomography constructors
        def mk_tomo(kind, cls):
            names = list(inspect.signature(cls.__init__).parameters)[1:]
            site = f"{cls.__name__}.ctor"

            def fin(exc, a, kw):
                args = dict(zip(names, a))
                args.update(kw)
                scheds = args.get("schedules", "all")
                nst = len(args["states"]) if "states" in args else 1
                npo = len(args["povms"]) if "povms" in args else 1
                sizes = {"state": nst, "povm": npo, "gate": 1 if kind == "qpt" else 0, "mprocess": 1 if kind == "qmpt" else 0}
                info = {"schedules": repr(scheds)[:300], "sizes": sizes,
                        "raised": None if exc is None else f"{type(exc).__name__}: {str(exc)[:120]}"}
                tag = self.tag
                if self.trail:
                    info = self.hist(info)
                    info["options"] = repr({k: v for k, v in args.items() if k not in ("states", "povms", "schedules")})[:200]
                if isinstance(scheds, str):
                    if type(scheds) is not str:
                        ctx.skip("tomography.ctor.string")
                    elif scheds == "all":
                        ctx.truth("tomography.ctor.string", exc is None, key=f"{site}:rejects-all:{type(exc).__name__}{tag}", info=info)
                    else:
                        ctx.truth("tomography.ctor.string", exc is not None, key=f"{site}:accepts:unsupported-string{tag}", info=info)
                    ctx.nontrivial(site, scheds)
                    return
                want, cls_, boundary = expected_list(scheds, sizes)
                if want is None or (want and not scheds):
                    ctx.skip("tomography.ctor.accept")  # open points; empty schedule list
                    return
                shape = all(tomography_shape(kind, s, sizes) for s in scheds)
                if want and shape:
                    ctx.truth("tomography.ctor.accept", exc is None, key=f"{site}:rejects-own-shape:{type(exc).__name__}{tag}", info=info)
                    ctx.nontrivial(site, repr(scheds), "%d.%d.%d.%d" % tuple(sizes[k] for k in KINDS))
                elif want:
                    w = next(s for s in scheds if not tomography_shape(kind, s, sizes))
                    ctx.truth("tomography.ctor.accept", exc is not None, key=f"{site}:accepts:other-shape:{valid_class(w)}:len{len(w)}{tag}", info=info)
                    ctx.nontrivial(site, repr(scheds), "%d.%d.%d.%d" % tuple(sizes[k] for k in KINDS))
                else:
                    ctx.truth("tomography.ctor.accept", exc is not None, key=f"{site}:accepts:{cls_}{tag}", info=info)
                    if boundary:
                        ctx.nontrivial(site, repr(scheds), "%d.%d.%d.%d" % tuple(sizes[k] for k in KINDS))

            def post(result, snap, self_, *a, **kw):
                fin(None, a, kw)
                args = dict(zip(names, a))
                args.update(kw)
                if args.get("schedules", "all") != "all":
                    return
                # the "all" expansion must consist of schedules of the class's own shape
                e = self_.experiment
                sizes = self.sizes_of({"state": e.states, "povm": e.povms, "gate": e.gates, "mprocess": e.mprocesses})
                if sizes is not None and type(e.schedules) is list and all(not any(analyse(s, sizes)) for s in e.schedules):
                    bad = [s for s in e.schedules if not tomography_shape(kind, s, sizes)]
                    ctx.truth("tomography.stored-shape", not bad, key=f"{site}:all-expands-to-other-shape" + self.tag,
                              info=self.hist({"schedule": repr(bad[:1])}))

            hs.method(cls, "__init__", post=post, on_exc=lambda exc, snap, self_, *a, **kw: fin(exc, a, kw))

        for k, c in self.T.items():
            mk_tomo(k, c)
        return self

    def unchanged(self, site, e, snap):
        ok = self.light(e) == snap[0]
        if ok and snap[1] is not None:
            ok = digest(e) == snap[1]
        self.ctx.truth("Experiment.setter.rejected-unchanged", ok, key=f"{site}:rejected-setter-changed-experiment" + self.tag,
                       info=None if ok else self.hist())


# ---------------------------------------------------------------- alphabet

WELL_TYPED = [(k, i) for k in KINDS for i in (-1, 0, 1, 2)]
MALFORMED = [("state",), ("povm", 0, 0), ["gate", 0], (1, 0), ("circuit", 0), ("State", 0),
             ("gate", 0.5), ("povm", True), ("state", "0"), ("mprocess", None),
             # integral floats: equal (==, hash) to a well-formed in-range item, yet not integer indices
             ("gate", 0.0), ("povm", 1.0)]
# 28 items: 16 well-typed + arity 1 / 3, list item, non-str / unknown / capitalised kind, float / bool / str / None index,
# two integral-float indices
ALPHABET = WELL_TYPED + MALFORMED

# configurations: kind -> list of fixture indices / None placeholders; "omit" = argument not passed
CONFIGS = {
    "all2": {"state": [0, 1], "povm": [0, 1], "gate": [0, 1], "mprocess": [0, 1]},
    "no-gate-mprocess": {"state": [0, 1], "povm": [0, 1], "gate": [], "mprocess": []},
    "none-placeholders": {"state": [0, None], "povm": [None, 1], "gate": [0, None], "mprocess": [None, 1]},
    "all1": {"state": [0], "povm": [1], "gate": [1], "mprocess": [0]},
    "all3": {"state": [0, 1, 0], "povm": [0, 1, 1], "gate": [1, 0, 1], "mprocess": [1, 1, 0]},
    "no-states": {"state": [], "povm": [0, 1], "gate": [0, 1], "mprocess": [0, 1]},
    "no-povms": {"state": [0, 1], "povm": [], "gate": [0, 1], "mprocess": [0, 1]},
    "omitted": {"state": [0, 1], "povm": [0, 1, 0], "gate": "omit", "mprocess": "omit"},
    "mixed-1-2-0-3": {"state": [None], "povm": [0, 1], "gate": [], "mprocess": [0, 1, None]},
}
QUICK_CONFIGS = ["all2", "no-gate-mprocess", "none-placeholders"]
LEN5_CONFIGS = QUICK_CONFIGS + ["all3"]


def configs_for(tier):
    return QUICK_CONFIGS if tier == "quick" else list(CONFIGS)


def fixtures(ctx, mon):
    """two physical objects of every type on one qubit (different outcome counts)"""
    rng = ctx.rng()
    c = gen.make_csys([2])
    fx = {"state": [gen.rand_state(c, rng), gen.rand_state(c, rng, rank=1)],
          "povm": [gen.rand_povm(c, 2, rng), gen.rand_povm(c, 3, rng)],
          "gate": [gen.rand_gate(c, rng), gen.rand_gate(c, rng, r=1)],
          "mprocess": [gen.rand_mprocess(c, 2, rng), gen.rand_mprocess(c, 3, rng)]}
    for lst in fx.values():
        for o in lst:
            mon.physical.add(id(o))
    mon.keep.append(fx)
    return fx


def realise(cfg, fx):
    """keyword arguments (fresh lists) of a configuration"""
    kw = {}
    for k, spec in cfg.items():
        if spec == "omit":
            continue
        kw[LISTARG[k]] = [None if j is None else fx[k][j] for j in spec]
    return kw


def sizes_of_cfg(cfg):
    return {k: (0 if v == "omit" else len(v)) for k, v in cfg.items()}


# ------------------------------------------------------------------ shards


def _spread(ids, n):
    return [ids[i::n] for i in range(n) if ids[i::n]]


def shards(tier, seed):
    out = []
    nA = len(ALPHABET)
    for part in _spread(list(range(nA * nA + 1)), 24):
        out.append({"mode": "enum", "cases": part, "weight": len(part) * (1 if tier == "quick" else 3)})
    if tier == "thorough":
        for part in _spread(list(range(16 * 16)), 32):
            out.append({"mode": "enum5", "cases": part, "weight": len(part) * 18})
    out.append({"mode": "special", "weight": 5})
    ns = 8 if tier == "quick" else 16
    for r in range(ns):
        out.append({"mode": "setters", "residue": r, "modulus": ns, "weight": 60})
    for kind in TOMO_MIDDLE:
        for part in _spread(list(range(17)), 2):
            out.append({"mode": "tomo", "kind": kind, "cases": part, "weight": 24})
    # history / combination steps (new shards at the end: the older shards keep their indices and RNG streams)
    nh = 8 if tier == "quick" else 16
    for r in range(nh):
        out.append({"mode": "history", "residue": r, "modulus": nh, "weight": 50})
    for kind in TOMO_MIDDLE:
        out.append({"mode": "tomo-history", "kind": kind, "weight": 30})
    return out


# ---------------------------------------------------------------- workload


def build(mon, cfg, fx, schedules, run=True):
    """construct (the hooks judge); run every schedule of an accepted experiment"""
    ctx = mon.ctx
    try:
        e = mon.X(schedules=schedules, **realise(cfg, fx))
    except Exception:  # noqa: BLE001 - judged by the constructor hook
        ctx.count("ctor-rejected")
        return None
    ctx.count("ctor-accepted")
    if run and type(schedules) in (list, tuple):
        for i in range(len(schedules)):
            try:
                e.calc_prob_dist(i)
                ctx.count("calc_prob_dist-returned")
            except Exception:  # noqa: BLE001 - judged by the calc_prob_dist hook
                ctx.count("calc_prob_dist-raised")
    return e


def run_enum(ctx, mon, fx):
    p = ctx.params
    A = ALPHABET if p["mode"] == "enum" else WELL_TYPED
    n = len(A)
    cfg_names = LEN5_CONFIGS if p["mode"] == "enum5" else configs_for(ctx.tier)
    cfgs = [CONFIGS[c] for c in cfg_names]
    total = 0
    for ci in ctx.cases(len(p["cases"])):
        pid = p["cases"][ci]
        if p["mode"] == "enum5":
            a, b = divmod(pid, n)
            gen_s = ([A[a], A[b], *suf] for suf in itertools.product(A, repeat=3))
        elif pid == n * n:
            gen_s = itertools.chain([[]], ([x] for x in A))
        else:
            a, b = divmod(pid, n)
            gen_s = ([A[a], A[b], *suf] for extra in (0, 1, 2) for suf in itertools.product(A, repeat=extra))
        first = True
        for s in gen_s:
            for cfg in cfgs:
                build(mon, cfg, fx, [s])
                total += 1
            if first and ci < 3:
                ctx.sample({"site": "Experiment.ctor", "schedule": repr(s), "configs": cfg_names,
                            "spec": [sorted(x) for x in analyse(s, sizes_of_cfg(cfgs[0]))]})
                first = False
    ctx.extra["enumerated"] = total


def accepting(cfg):
    """all well-formed schedules of length 2..4 over the in-range items of a configuration (by the specification)"""
    sizes = sizes_of_cfg(cfg)
    items = [(k, i) for k in KINDS for i in range(sizes[k])]
    out = []
    for n in (2, 3, 4):
        for s in itertools.product(items, repeat=n):
            if not any(analyse(list(s), sizes)):
                out.append(list(s))
    return out


def defect_pool():
    """one schedule per defect class (single faults of a valid schedule) + container variants"""
    v = [("state", 0), ("gate", 0), ("povm", 1)]
    pool = [[], [("state", 0)], [("povm", 0)], v[1:], v[:2], [v[0], v[0], v[2]], [v[0], v[2], v[2]], [v[0], ("povm", 0), v[2]],
            [v[0], v[2], ("mprocess", 1)], [v[0], ("mprocess", 0), ("mprocess", 1)], [v[2], v[1], v[0]],
            [v[0], ("gate", -1), v[2]], [v[0], ("gate", 2), v[2]], [v[0], v[1], ("povm", 3)], [("state", 2), v[2]]]
    for m in MALFORMED:
        pool += [[v[0], m, v[2]], [m, v[2]], [v[0], m]]
    return pool


def non_sequences():
    ok = [("state", 0), ("povm", 1)]
    return [("none", lambda: None), ("int", lambda: 5), ("float", lambda: 2.5), ("iterator", lambda: iter(list(ok))),
            ("generator", lambda: (x for x in ok)), ("set", lambda: set(ok)), ("dict", lambda: {ok[0]: 0, ok[1]: 1}),
            ("str", lambda: "sp"), ("tuple", lambda: tuple(ok)), ("tuple-bad", lambda: (ok[0], ("povm", 2)))]


def run_special(ctx, mon, fx):
    X = mon.X
    cfgs = [CONFIGS[c] for c in configs_for(ctx.tier)]
    ok = [("state", 0), ("povm", 1)]
    ok2 = [("state", 1), ("povm", 1)]
    classes = []
    # 0: schedules that are not sequences / other containers, alone and next to a valid schedule, ctor and setter
    def c_nonseq():
        for cfg in cfgs:
            for name, mk in non_sequences():
                for lst in (lambda: [mk()], lambda: [list(ok), mk()], lambda: [mk(), list(ok)]):
                    build(mon, cfg, fx, lst())
                    e = build(mon, CONFIGS["all2"], fx, [list(ok)])
                    try:
                        e.schedules = lst()
                    except Exception:  # noqa: BLE001
                        pass
    classes.append(c_nonseq)
    # 1: schedule containers that are not lists
    def c_nonlist():
        for cfg in cfgs:
            for mk in (lambda: None, lambda: 5, lambda: (), lambda: (list(ok),), lambda: (list(ok), [ok[0]]),
                       lambda: iter([list(ok)]), lambda: "all", lambda: {0: list(ok)}):
                build(mon, cfg, fx, mk(), run=False)
                e = build(mon, CONFIGS["all2"], fx, [list(ok)])
                try:
                    e.schedules = mk()
                except Exception:  # noqa: BLE001
                    pass
    classes.append(c_nonlist)
    # 2: multi-schedule lists: every defect class at every position among valid schedules
    def c_multi():
        for cfg in cfgs:
            build(mon, cfg, fx, [])
            build(mon, cfg, fx, [list(ok), list(ok2)])
            build(mon, cfg, fx, [list(ok)] * 3)
            for d in defect_pool():
                for lst in ([list(ok), d], [d, list(ok)], [list(ok), list(ok2), d], [list(ok), d, list(ok2)], [d, d]):
                    build(mon, cfg, fx, lst)
    classes.append(c_multi)
    # 3: open points (never judged on acceptance): bool / numpy indices, subclasses
    def c_open():
        class T2(tuple):
            pass

        class S2(str):
            pass

        for cfg in cfgs:
            for it in (("povm", True), ("povm", False), ("povm", np.int64(1)), ("povm", np.int32(0)), ("povm", np.int64(7)),
                       ("povm", np.bool_(True)), T2(("povm", 1)), (S2("povm"), 1), ("povm", np.float64(1.0)), ("povm", 1.0),
                       ("povm", 1 + 0j), ("povm", "1"), ("povm", [1]), ("povm", (1,))):
                build(mon, cfg, fx, [[("state", 0), it]])
                build(mon, cfg, fx, [[("state", 0), ("gate", 0), it]])
    classes.append(c_open)
    # 4: None placeholders on / off the executed path; calc_prob_dist index handling stays outside the statement
    def c_none():
        cfg = CONFIGS["none-placeholders"]
        for s in accepting(cfg):
            build(mon, cfg, fx, [s])
        for s in accepting(CONFIGS["mixed-1-2-0-3"]):
            build(mon, CONFIGS["mixed-1-2-0-3"], fx, [s])
        e = build(mon, CONFIGS["all2"], fx, [list(ok), [("state", 1), ("mprocess", 0), ("povm", 0)]])
        for idx in (0, 1, 2, -1, None, 1.0, True):
            try:
                e.calc_prob_dist(idx)
            except Exception:  # noqa: BLE001
                pass
        for call in (e.calc_prob_dists, e.copy, lambda: e.copy().calc_prob_dists(), lambda: e.generate_data(1, 5, 7),
                     lambda: e.generate_dataset([3, 4], 7)):
            try:
                call()
            except Exception:  # noqa: BLE001
                ctx.count("driver-call-raised")
    classes.append(c_none)
    # 5 (history / combination): constructor options - seed_data given, every argument positional, explicit None lists -
    # x every defect class next to a valid schedule, on experiments that are then asked twice
    def c_options():
        X = mon.X
        with mon.tagged(":option-seed_data+positional"):
            for cfg in cfgs:
                kw = realise(cfg, fx)
                for d in [list(ok2)] + defect_pool():
                    for lst in ([list(ok), d], [d]):
                        mon.trail = [f"Experiment({repr(lst)[:120]}, ..., seed_data) positional"]
                        try:
                            e = X(lst, kw.get("states"), kw.get("povms"), kw.get("gates"), kw.get("mprocesses"), 11)
                        except Exception:  # noqa: BLE001 - judged by the constructor hook
                            continue
                        ask(mon, e)
                        ask(mon, e, -1)
                        try:
                            e.schedules = [d]
                        except Exception:  # noqa: BLE001
                            pass
        mon.trail = []
    classes.append(c_options)
    for i in ctx.cases(len(classes)):
        classes[i]()
    ctx.note("not judged (left open by the statement): acceptance of bool / numpy-integer indices in range, tuple / str subclasses, "
             "tuple-of-schedules and other non-list containers (None, int, iterator: TypeError or silent acceptance), "
             "tomography rejections' exception type (StandardQmpt raises IndexError for a 2-item schedule), the empty "
             "schedule list for tomographies, execution of accepted schedules not ending in their only POVM "
             "([state, mprocess] and [state, povm, mprocess] are accepted and calc_prob_dist raises AttributeError)")


def replacement_lists(kind, fx):
    o = fx[kind]
    return [[], [o[0]], [o[1], o[0]], [o[0], o[1], o[0]], [None, None], [None, o[1], None]]


def run_setters(ctx, mon, fx):
    p = ctx.params
    names = configs_for(ctx.tier)
    work = [(cn, s) for cn in names for s in accepting(CONFIGS[cn])]
    mine = [w for j, w in enumerate(work) if j % p["modulus"] == p["residue"]]
    A = ALPHABET
    pool = [[]] + [[x] for x in A] + [[x, y] for x in A for y in A]
    pool += defect_pool()
    pool3 = [list(t) for t in itertools.product(WELL_TYPED, repeat=3)] if ctx.tier == "thorough" else []
    allok = {cn: accepting(CONFIGS[cn]) for cn in names}
    for ci in ctx.cases(len(mine)):
        cn, s = mine[ci]
        cfg = CONFIGS[cn]
        rng = ctx.rng()
        # (a) every replacement of every list, each from a fresh accepting experiment
        for kind in KINDS:
            for new in replacement_lists(kind, fx):
                e = build(mon, cfg, fx, [list(s)], run=False)
                if e is None:
                    break
                try:
                    setattr(e, LISTARG[kind], new)
                    ctx.count("setter-accepted")
                    try:
                        e.calc_prob_dist(0)
                    except Exception:  # noqa: BLE001
                        pass
                except Exception:  # noqa: BLE001
                    ctx.count("setter-rejected")
        # (b) schedule replacement on one long-lived experiment (rejected replacements must leave it intact)
        e = build(mon, cfg, fx, [list(s)], run=False)
        if e is None:
            continue
        for new in itertools.chain(pool, pool3 if len(s) == 2 else ()):
            try:
                e.schedules = [list(new)]
                ctx.count("setter-accepted")
            except Exception:  # noqa: BLE001
                ctx.count("setter-rejected")
        for new in allok[cn]:
            try:
                e.schedules = [list(s), list(new)]
            except Exception:  # noqa: BLE001
                pass
        # (c) seeded walk: lists and schedules replaced in turn on one experiment
        e = build(mon, cfg, fx, [list(s)], run=False)
        for step in range(24 if e is not None else 0):
            r = int(rng.integers(0, 6))
            try:
                if r < 4:
                    kind = KINDS[r]
                    opts = replacement_lists(kind, fx)
                    setattr(e, LISTARG[kind], opts[int(rng.integers(0, len(opts)))])
                elif r == 4:
                    ok = allok[names[int(rng.integers(0, len(names)))]]
                    e.schedules = [list(ok[int(rng.integers(0, len(ok)))]) for _ in range(int(rng.integers(0, 3)))]
                else:
                    e.schedules = [list(pool[int(rng.integers(0, len(pool)))])]
                ctx.count("setter-accepted")
            except Exception:  # noqa: BLE001
                ctx.count("setter-rejected")
            if step % 6 == 5:
                for i in range(len(e.schedules)):
                    try:
                        e.calc_prob_dist(i)
                    except Exception:  # noqa: BLE001
                        pass
        if ci < 2:
            ctx.sample({"site": "setters", "config": cn, "start": repr(s)})


def run_tomo(ctx, mon, fx):
    p = ctx.params
    kind = p["kind"]
    cls = mon.T[kind]
    states, povms = list(fx["state"]), list(fx["povm"])
    true_obj = {"qst": fx["state"][0], "povmt": fx["povm"][1], "qpt": fx["gate"][0], "qmpt": fx["mprocess"][0]}[kind]
    for o in (true_obj,):
        mon.physical.add(id(o))

    def make(schedules):
        try:
            if kind == "qst":
                qt = cls(povms, schedules=schedules)
            elif kind == "povmt":
                qt = cls(states, 3, schedules=schedules)
            elif kind == "qpt":
                qt = cls(states, povms, schedules=schedules)
            else:
                qt = cls(states, povms, 2, schedules=schedules)
        except Exception:  # noqa: BLE001 - judged by the hooks
            ctx.count("tomography-rejected")
            return None
        ctx.count("tomography-accepted")
        try:
            seq = qt.generate_prob_dists_sequence(true_obj)   # executes every schedule (calc_prob_dist hook judges)
        except Exception:  # noqa: BLE001
            ctx.count("tomography-execution-raised")
            return qt
        # the tomography's own execution path of the accepted schedules (its model of the same circuits): must run
        # and give, per schedule, a normalised distribution of the circuit's length
        if len(seq) == 0:
            ctx.count("open:tomography-with-empty-schedule-list:nothing-to-execute")
            return qt
        ok, pd = ctx.attempt(qt.calc_prob_dists, true_obj)
        if not ok:
            ctx.violation(f"{cls.__name__}.calc_prob_dists:accepted-schedules-fail:" + ctx.exc_key(pd), {"schedules": repr(schedules)[:200]})
            return qt
        lens_c = [int(np.size(x)) for x in seq]
        lens_m = [int(np.size(x)) for x in pd]
        if not ctx.truth("tomography.model-execution:lengths", lens_c == lens_m,
                         key=f"{cls.__name__}.calc_prob_dists:accepted-schedules:wrong-distribution-lengths",
                         info={"circuit": lens_c, "model": lens_m, "schedules": repr(schedules)[:200]}):
            return qt
        for x in pd:
            x = np.asarray(x, dtype=float)
            ctx.num("tomography.model-execution:normalised", max(abs(float(x.sum()) - 1.0), max(0.0, -float(x.min()))), 1e-9, 1e-6,
                    key=f"{cls.__name__}.calc_prob_dists:accepted-schedules:not-a-normalised-distribution")
        return qt

    A = WELL_TYPED
    n = len(A)
    total = 0
    for ci in ctx.cases(len(p["cases"])):
        pid = p["cases"][ci]
        if pid < n:
            for extra in (0, 1, 2, 3):
                for suf in itertools.product(A, repeat=extra):
                    make([[A[pid], *suf]])
                    total += 1
        else:
            make([[]])
            total += 1
            for s in ("all", "All", "ALL", "", "all ", "none", "default", "a"):
                make(s)
            make([])
            own = [[("state", 0)] + [(m, 0) for m in TOMO_MIDDLE[kind]] + [("povm", 0)]]
            own.append([own[0][0], *own[0][1:-1], ("povm", 1)] if kind != "povmt" else [("state", 1), ("povm", 0)])
            make([list(own[0]), list(own[1])])
            make([list(own[1]), list(own[0])])                  # not in list order
            make([list(own[0]), list(own[1]), list(own[0])])    # repetition: more schedules than POVMs
            make([tuple(own[0])])
            make((list(own[0]),))
            others = [[("state", 0), ("povm", 0)], [("state", 0), ("gate", 0), ("povm", 0)], [("state", 0), ("mprocess", 0), ("povm", 0)],
                      [("state", 0), ("mprocess", 0)], [("state", 0), ("mprocess", 0), ("povm", 0), ("mprocess", 0)],
                      [("state", 0), ("gate", 0), ("gate", 0), ("povm", 0)], [("state", 1), ("povm", 1)]]
            for d in others + defect_pool():
                make([list(own[0]), d])
                make([d, list(own[1])])
            for m in MALFORMED + [None, 5]:
                for pos in range(len(own[0])):
                    s = list(own[0])
                    s[pos] = m
                    make([s])
                make([list(own[0]) + [m]])
            for name, mk in non_sequences():
                make([mk()])
            ctx.sample({"site": cls.__name__, "own_shape": repr(own)})
    ctx.extra["tomo_enumerated"] = total


# ------------------------------------------------- history / combination steps
#
# The workloads above build a fresh object for every case and ask it once (the seeded setter walk excepted).  The steps
# below reach the SAME oracles (the hooks; nothing new is demanded) through objects with a history: asked before and
# after public setters, asked twice and interleaved with a twin of the same sizes, obtained through copy() or from a
# previous library call, used after the data-generating methods, and built with non-default constructor options.
# `mon.tagged(suffix)` appends the suffix to the key of every hook verdict reached inside.


def twin_cfg(cfg):
    """same list sizes, another object (or placeholder) at every index"""
    return {k: (v if v == "omit" else [None if j is None else 1 - j for j in v]) for k, v in cfg.items()}


def probe(kind, i, e):
    """a schedule that is well-formed but for the range of index i of `kind` (the hooks decide with the lists in force)"""
    if kind == "state":
        return [("state", i), ("povm", 0)] if len(e.povms) else [("state", i), ("mprocess", 0)]
    if kind == "povm":
        return [("state", 0), ("povm", i)]
    if kind == "gate":
        return [("state", 0), ("gate", i), ("povm", 0)] if len(e.povms) else [("state", 0), ("gate", i), ("mprocess", 0)]
    return [("state", 0), ("mprocess", i), ("povm", 0)] if len(e.povms) else [("state", 0), ("mprocess", i)]


def ask(mon, e, order=1):
    """run every schedule (calc_prob_dist hook judges each call)"""
    ctx = mon.ctx
    idx = list(range(len(e.schedules)))[::order]
    for i in idx:
        try:
            e.calc_prob_dist(i)
            ctx.count("history:calc_prob_dist-returned")
        except Exception:  # noqa: BLE001 - judged by the hook
            ctx.count("history:calc_prob_dist-raised")


def look(mon, e):
    """the public read accessors (not judged themselves: a lazily built table behind them is what matters)"""
    for k in KINDS:
        try:
            e.num_qoperations(k)
            e.qoperations(k)
        except Exception:  # noqa: BLE001
            mon.ctx.count("history:accessor-raised")


def assign(mon, e, name, value, what):
    """public setter; the hooks judge acceptance, storage and rejected-unchanged"""
    mon.step(f"{name}={what}")
    try:
        setattr(e, name, value)
        mon.ctx.count("history:setter-accepted")
        return True
    except Exception:  # noqa: BLE001
        mon.ctx.count("history:setter-rejected")
        return False


def describe(lst):
    return "[" + ",".join("None" if o is None else "o" for o in lst) + "]"


def probes_after(mon, e, kind):
    """schedules at and beyond the end of the list now in force, then back to a schedule inside it"""
    n = len(getattr(e, LISTARG[kind]))
    for i in (n - 1, n, 0, n + 1):
        if assign(mon, e, "schedules", [probe(kind, i, e)], f"[probe({kind},{i})]"):
            ask(mon, e)


def generate_calls(mon, e):
    """data-generating methods: they execute schedules (judged by the calc_prob_dist hook) and look like mutators"""
    n = len(e.schedules)
    calls = [("calc_prob_dists", e.calc_prob_dists), ("generate_data", lambda: e.generate_data(0, 4, 7)),
             ("generate_dataset", lambda: e.generate_dataset([3] * n, 7)),
             ("generate_empi_dist_sequence", lambda: e.generate_empi_dist_sequence(n - 1, [2, 4], 7)),
             ("generate_empi_dists_sequence", lambda: e.generate_empi_dists_sequence([[2] * n, [4] * n], 7)),
             ("reset_seed_data", lambda: e.reset_seed_data(3))]
    for name, call in calls:
        mon.step(name)
        try:
            call()
        except Exception:  # noqa: BLE001 - placeholders, schedules not ending in a POVM, scipy's strict multinomial
            mon.ctx.count("history:generate-call-raised")


def copy_of(mon, e, tag, cls):
    """copy() of an accepted experiment is an experiment with the same well-formed schedule list: it must be accepted"""
    ctx = mon.ctx
    mon.step("copy()")
    with mon.tagged(tag):
        ok, c = ctx.attempt(e.copy)
    if ok:
        ctx.truth("Experiment.copy.accept", True)
        return c
    ctx.truth("Experiment.copy.accept", False, key=f"Experiment.copy:rejects-valid:{cls}:{type(c).__name__}{tag}",
              info=mon.hist({"schedules": repr(e.schedules)[:300], "raised": f"{type(c).__name__}: {str(c)[:160]}"}))
    return None


def history_case(ctx, mon, fx, cn, s, others, rng):
    X = mon.X
    cfg = CONFIGS[cn]
    s2 = others[int(rng.integers(0, len(others)))]
    cls = valid_class(s)

    def fresh(schedules, cfg_=cfg, **kw):
        mon.trail = [f"Experiment({repr(schedules)[:120]}, sizes={sizes_of_cfg(cfg_)})"]
        try:
            return X(schedules=schedules, **realise(cfg_, fx), **kw)
        except Exception:  # noqa: BLE001 - judged by the constructor hook
            ctx.count("history:ctor-rejected")
            return None

    # -- S1: asked twice, in another order, interleaved with a twin of the same sizes holding other objects
    a = fresh([list(s), list(s2)])
    b = fresh([list(s), list(s2)], twin_cfg(cfg))
    pair = [e for e in (a, b) if e is not None]
    if a is not None:
        ask(mon, a)
    if b is not None:
        with mon.tagged(":interleaved-twin"):
            mon.step("twin asked after the first")
            ask(mon, b)
    with mon.tagged(":second-call"):
        mon.step("calc_prob_dist x all (twin interleaved)")
        for e in pair:
            look(mon, e)
            ask(mon, e, -1)
        for e in reversed(pair):
            ask(mon, e)
            # the setter given what the getter returns, and an equal new list: both well-formed, both must be accepted
            assign(mon, e, "schedules", e.schedules, "same-object")
            assign(mon, e, "schedules", [list(x) for x in e.schedules], "equal-copy")
            ask(mon, e)

    # -- S2: query -> public list setter -> query, every list x every replacement
    for kind in KINDS:
        for new in replacement_lists(kind, fx):
            e = fresh([list(s)])
            if e is None:
                break
            ask(mon, e)
            look(mon, e)
            with mon.tagged(":after-query"):
                assign(mon, e, LISTARG[kind], new, describe(new))
            with mon.tagged(":after-setter"):
                ask(mon, e)
                look(mon, e)
                probes_after(mon, e, kind)

    # -- S3: one long-lived experiment per kind: grow / shrink ladder, rejected setters in between
    for kind in KINDS:
        o = fx[kind]
        e = fresh([list(s)])
        if e is None:
            break
        name = LISTARG[kind]
        ask(mon, e)
        look(mon, e)
        with mon.tagged(":after-setter"):
            for new in ([o[0], o[1], o[0]], [o[1]], [o[0], o[1]], [None, o[0], None, o[1]], []):
                probes_after(mon, e, kind)             # ends on index 0 ... or on what the old list allowed
                assign(mon, e, name, new, describe(new))
                look(mon, e)
                probes_after(mon, e, kind)
                # a list that the schedule in force cannot live with (rejected), then the same questions again
                assign(mon, e, "schedules", [probe(kind, len(getattr(e, name)) - 1, e)], "[probe(last)]")
                assign(mon, e, name, [o[0]] if len(getattr(e, name)) > 1 else [], "shorter")
                probes_after(mon, e, kind)
            assign(mon, e, "schedules", [list(s)], "start")   # rejected unless the lists allow it again

    # -- S4: provenance: copy(), copy of the copy; setters on the copy; the original afterwards
    e = fresh([list(s), list(s2)], seed_data=int(rng.integers(0, 100)))
    if e is not None:
        ask(mon, e)
        c = copy_of(mon, e, ":via-copy", cls)
        if c is not None:
            with mon.tagged(":via-copy"):
                ask(mon, c)
                look(mon, c)
                kind = KINDS[int(rng.integers(0, 4))]
                opts = replacement_lists(kind, fx)
                new = opts[int(rng.integers(0, len(opts)))]
                assign(mon, c, LISTARG[kind], new, describe(new))
                ask(mon, c)
                probes_after(mon, c, kind)
                c2 = copy_of(mon, c, ":via-copy", "copy-of-copy")
                if c2 is not None:
                    ask(mon, c2)
                    probes_after(mon, c2, KINDS[int(rng.integers(0, 4))])
            with mon.tagged(":after-copy"):
                mon.step("original again")
                ask(mon, e)
                for kind in KINDS:
                    probes_after(mon, e, kind)

    # -- S5: data-generating methods, a setter, the same methods again
    e = fresh([list(s), list(s2)])
    if e is not None:
        generate_calls(mon, e)
        with mon.tagged(":second-call"):
            ask(mon, e, -1)
        kind = KINDS[int(rng.integers(0, 4))]
        opts = replacement_lists(kind, fx)
        new = opts[int(rng.integers(0, len(opts)))]
        with mon.tagged(":after-query"):
            assign(mon, e, LISTARG[kind], new, describe(new))
        with mon.tagged(":after-setter"):
            ask(mon, e)
            generate_calls(mon, e)
            probes_after(mon, e, kind)
            generate_calls(mon, e)
            ask(mon, e)

    # -- S6: the schedule list of a living experiment given to experiments of other sizes, and constructor options
    src = fresh([list(s), list(s2)])
    if src is not None:
        with mon.tagged(":shared-schedule-list"):
            for other in configs_for(ctx.tier):
                mon.trail = [f"Experiment(schedules of a living experiment, sizes={sizes_of_cfg(CONFIGS[other])})"]
                kw = realise(CONFIGS[other], fx)
                try:
                    e = X(src.schedules, kw.get("states"), kw.get("povms"), kw.get("gates"), kw.get("mprocesses"), 5)
                    ask(mon, e)
                except Exception:  # noqa: BLE001 - judged by the constructor hook
                    ctx.count("history:ctor-rejected")
            ask(mon, src)
    mon.trail = []
    ctx.nontrivial("history", cn, repr(s), repr(s2))


def run_history(ctx, mon, fx):
    p = ctx.params
    names = configs_for(ctx.tier)
    allok = {cn: accepting(CONFIGS[cn]) for cn in names}
    work = [(cn, s) for cn in names for s in allok[cn]]
    mine = [w for j, w in enumerate(work) if j % p["modulus"] == p["residue"]]
    for ci in ctx.cases(len(mine)):
        cn, s = mine[ci]
        history_case(ctx, mon, fx, cn, s, allok[cn], ctx.rng())
        if ci < 2:
            ctx.sample({"site": "history", "config": cn, "start": repr(s),
                        "steps": "twice+twin, query-setter-query x 24, ladder x 4, copy, generate-methods, shared schedule list"})


def extra_fixtures(ctx, mon, fx):
    """second true objects on the fixtures' composite system (own RNG stream: the fixtures stay what they were)"""
    rng = ctx.rng(7)
    c = fx["state"][0].composite_system
    ex = {"state": gen.rand_state(c, rng), "povm": gen.rand_povm(c, 3, rng), "gate": gen.rand_gate(c, rng),
          "mprocess": gen.rand_mprocess(c, 2, rng)}
    for o in ex.values():
        mon.physical.add(id(o))
    mon.keep.append(ex)
    return ex


TOMO_TRUE = {"qst": "state", "povmt": "povm", "qpt": "gate", "qmpt": "mprocess"}
# constructor options that the classes can be built with (is_physicality_required=True cannot: the zero template object is
# rejected whatever the schedules are)
TOMO_OPTIONS = [
    ("on_para_eq_constraint", {"on_para_eq_constraint": True}),
    ("estimation-object+seed", {"is_estimation_object": True, "seed_data": 7}),
    ("eps+on_para_eq_constraint+seed", {"eps_proj_physical": 1e-4, "eps_truncate_imaginary_part": 1e-4,
                                        "on_para_eq_constraint": True, "seed_data": 1}),
    ("positional", "positional"),
]


def run_tomo_history(ctx, mon, fx):
    p = ctx.params
    kind = p["kind"]
    cls = mon.T[kind]
    with mon.hs.paused():
        ex = extra_fixtures(ctx, mon, fx)
    tk = TOMO_TRUE[kind]
    true1 = {"qst": fx["state"][0], "povmt": fx["povm"][1], "qpt": fx["gate"][0], "qmpt": fx["mprocess"][0]}[kind]
    true2 = ex[tk]
    mon.physical.add(id(true1))
    S, P = fx["state"], fx["povm"]
    states_n = {1: [S[1]], 2: [S[0], S[1]], 3: [S[1], S[0], S[1]]}
    povms_n = {1: [P[1]], 2: [P[0], P[1]], 3: [P[1], P[0], P[1]]}
    # the list that the class does not take has one (placeholder) entry: its size is 1 whatever we choose
    sizes_variants = {"qst": [(1, 1), (1, 2), (1, 3)], "povmt": [(1, 1), (2, 1), (3, 1)],
                      "qpt": [(1, 1), (2, 2), (3, 3), (1, 3), (3, 1)], "qmpt": [(1, 1), (2, 2), (3, 3), (1, 3), (3, 1)]}[kind]

    def construct(schedules, nst, npo, opt=None):
        st, po = states_n[nst], povms_n[npo]
        mon.step(f"{cls.__name__}(states={nst}, povms={npo}, options={opt[0] if opt else None}, schedules={repr(schedules)[:100]})")
        try:
            if opt is not None and opt[1] == "positional":
                tail = (False, False, False, None, None, None, schedules)
                a = {"qst": (po,), "povmt": (st, 3), "qpt": (st, po), "qmpt": (st, po, 2)}[kind]
                return cls(*a, *tail)
            kw = dict(opt[1]) if opt is not None else {}
            if kind == "qst":
                return cls(po, schedules=schedules, **kw)
            if kind == "povmt":
                return cls(st, 3, schedules=schedules, **kw)
            if kind == "qpt":
                return cls(st, po, schedules=schedules, **kw)
            return cls(st, po, 2, schedules=schedules, **kw)
        except Exception:  # noqa: BLE001 - judged by the hooks
            ctx.count("history:tomography-rejected")
            return None

    def execute(qt, true_obj, schedules, tag, own):
        """both execution paths of an accepted tomography; `own`: by the specification the schedules are a non-empty
        list of schedules of the class's shape, so everything promised for accepted schedules applies"""
        name = cls.__name__
        info = mon.hist({"schedules": repr(schedules)[:200]})
        with mon.tagged(tag):
            ok, seq = ctx.attempt(qt.generate_prob_dists_sequence, true_obj)   # the calc_prob_dist hook judges every schedule
        if not ok:
            if own:
                ctx.truth("tomography.execution", False, key=f"{name}.generate_prob_dists_sequence:accepted-schedules-fail:"
                          + ctx.exc_key(seq) + tag, info=info)
            return
        if not own or len(seq) == 0:
            return
        ctx.truth("tomography.execution", True)
        ok, pd = ctx.attempt(qt.calc_prob_dists, true_obj)
        if not ok:
            ctx.violation(f"{name}.calc_prob_dists:accepted-schedules-fail:" + ctx.exc_key(pd) + tag, info)
            return
        lens_c = [int(np.size(x)) for x in seq]
        lens_m = [int(np.size(x)) for x in pd]
        if not ctx.truth("tomography.model-execution:lengths", lens_c == lens_m,
                         key=f"{name}.calc_prob_dists:accepted-schedules:wrong-distribution-lengths{tag}",
                         info=dict(info, circuit=lens_c, model=lens_m)):
            return
        for x in pd:
            x = np.asarray(x, dtype=float)
            ctx.num("tomography.model-execution:normalised", max(abs(float(x.sum()) - 1.0), max(0.0, -float(x.min()))), 1e-9, 1e-6,
                    key=f"{name}.calc_prob_dists:accepted-schedules:not-a-normalised-distribution{tag}", info=info)

    def is_own(schedules, nst, npo):
        sizes = {"state": nst if kind != "qst" else 1, "povm": npo if kind != "povmt" else 1,
                 "gate": 1 if kind == "qpt" else 0, "mprocess": 1 if kind == "qmpt" else 0}
        return (type(schedules) is list and len(schedules) > 0 and expected_list(schedules, sizes)[0] is True
                and all(tomography_shape(kind, s, sizes) for s in schedules))

    def go(schedules, nst, npo, opt=None, tag="", true_obj=None):
        with mon.tagged(tag):
            qt = construct(schedules, nst, npo, opt)
        if qt is None:
            return None
        ctx.count("history:tomography-accepted")
        if schedules == "all":
            sch, own = qt.experiment.schedules, True
        else:
            sch, own = schedules, is_own(schedules, nst, npo)
        execute(qt, true1 if true_obj is None else true_obj, sch, tag, own)
        return qt

    mid = [(m, 0) for m in TOMO_MIDDLE[kind]]

    def own_list(pairs):
        return [[("state", i)] + mid + [("povm", j)] for i, j in pairs]

    A = WELL_TYPED
    n = len(A)
    blocks = list(range(n)) + ["options", "twice", "provenance"]
    for ci in ctx.cases(len(blocks)):
        blk = blocks[ci]
        mon.trail = []
        if blk == "options":
            # (d) every non-default constructor option x own-shape lists, other shapes, every defect class, "all"
            nst, npo = (1, 2) if kind == "qst" else (2, 1) if kind == "povmt" else (2, 2)
            st_i = [0] if kind == "qst" else [0, 1]
            po_j = [0] if kind == "povmt" else [0, 1]
            full = [(i, j) for i in st_i for j in po_j]
            cands = ["all", "All", own_list(full), own_list(full[::-1]), own_list(full[:1]), own_list(full + full[:1]),
                     own_list(full[-1:]), [tuple(own_list(full[:1])[0])]]
            cands += [[[("state", 0), ("povm", 0)]], [[("state", 0), ("gate", 0), ("povm", 0)]], [[("state", 0), ("mprocess", 0), ("povm", 0)]],
                      [[("state", 0), ("gate", 0), ("gate", 0), ("povm", 0)]], [[("state", 0), ("mprocess", 0)]]]
            cands += [own_list(full[:1]) + [d] for d in defect_pool()] + [[d] + own_list(full[-1:]) for d in defect_pool()]
            for oname, o in TOMO_OPTIONS:
                for sch in cands:
                    mon.trail = []
                    go(_copy.deepcopy(sch), nst, npo, (oname, o), tag=":option-" + oname)
            ctx.nontrivial("tomo-history", kind, "options")
        elif blk == "twice":
            # (a)+(c) two living tomographies of the same class and size, asked in turn with two true objects
            nst, npo = (1, 2) if kind == "qst" else (2, 1) if kind == "povmt" else (2, 2)
            full = [(i, j) for i in range(1 if kind == "qst" else 2) for j in range(1 if kind == "povmt" else 2)]
            for opt in (None, TOMO_OPTIONS[0]):
                mon.trail = []
                la, lb = own_list(full), own_list(full[::-1])
                qa, qb = go(la, nst, npo, opt), go(lb, nst, npo, opt)
                qc = go("all", nst, npo, opt)
                for rnd, t in enumerate((true2, true1, true2)):
                    for qt, sch in ((qa, la), (qb, lb), (qc, "all"), (qb, lb), (qa, la)):
                        if qt is None:
                            continue
                        mon.step(f"execute #{rnd + 2}")
                        execute(qt, t, qt.experiment.schedules if sch == "all" else sch, ":second-call", True)
                        if rnd == 0:
                            mon.step("generate_empi_dists / reset_seed")
                            try:
                                qt.generate_empi_dists(t, 8, 3)
                                qt.reset_seed(4)
                            except Exception:  # noqa: BLE001 - scipy's strict multinomial
                                ctx.count("history:generate-call-raised")
            ctx.nontrivial("tomo-history", kind, "twice")
        elif blk == "provenance":
            # (b) schedule lists that come out of the library / are shared between tomographies of different sizes
            big = (1, 3) if kind == "qst" else (3, 1) if kind == "povmt" else (3, 3)
            for opt in (None, TOMO_OPTIONS[0]):
                for rnd in range(2):
                    tag = ":schedules-from-library" if rnd == 0 else ":schedules-from-library:second-call"
                    seen = []
                    for nst, npo in sizes_variants + sizes_variants[::-1]:
                        mon.trail = []
                        qt = go("all", nst, npo, opt, tag=":interleaved-sizes" + (":second-call" if rnd else ""))
                        if qt is None:
                            continue
                        seen.append(qt)
                        lib = qt.experiment.schedules
                        go(lib, nst, npo, opt, tag=tag)                       # the very list a living tomography holds
                        go(qt.experiment.copy().schedules, nst, npo, opt, tag=tag)
                        for m_st, m_po in sizes_variants:                     # ... given to the other sizes
                            go(lib, m_st, m_po, opt, tag=tag)
                        go(_copy.deepcopy(lib), *big, opt, tag=tag)
                    for qt in seen:                                           # all of them are still alive: ask again
                        execute(qt, true2, qt.experiment.schedules, ":second-call", True)
            ctx.nontrivial("tomo-history", kind, "provenance")
        else:
            # (c) every schedule of length <= 3 whose first item is A[blk], for lists of several sizes IN TURN (so a
            # verdict remembered from the previous sizes is exposed), plain and with the first non-default option
            for extra in (0, 1, 2):
                for suf in itertools.product(A, repeat=extra):
                    for nst, npo in sizes_variants:
                        mon.trail = []
                        go([[A[blk], *suf]], nst, npo, tag=":interleaved-sizes")
            ctx.nontrivial("tomo-history", kind, "sizes", repr(A[blk]))
    mon.trail = []


def run_shard(ctx):
    mon = Mon(ctx).install()
    hs = mon.hs
    try:
        with hs.paused():
            fx = fixtures(ctx, mon)
        mode = ctx.params["mode"]
        if mode in ("enum", "enum5"):
            run_enum(ctx, mon, fx)
            need = ["Experiment.__init__"]
        elif mode == "special":
            run_special(ctx, mon, fx)
            need = ["Experiment.__init__", "Experiment.schedules.setter", "Experiment.calc_prob_dist"]
        elif mode == "setters":
            run_setters(ctx, mon, fx)
            need = ["Experiment.__init__", "Experiment.schedules.setter"] + [f"Experiment.{LISTARG[k]}.setter" for k in KINDS]
        elif mode == "history":
            run_history(ctx, mon, fx)
            need = ["Experiment.__init__", "Experiment.schedules.setter", "Experiment.calc_prob_dist"] + [f"Experiment.{LISTARG[k]}.setter" for k in KINDS]
        elif mode == "tomo-history":
            run_tomo_history(ctx, mon, fx)
            need = [f"{mon.T[ctx.params['kind']].__name__}.__init__", "Experiment.__init__", "Experiment.calc_prob_dist"]
        else:
            run_tomo(ctx, mon, fx)
            need = [f"{mon.T[ctx.params['kind']].__name__}.__init__", "Experiment.__init__"]
    finally:
        hs.uninstall()
    ctx.extra["hook_counts"] = hs.counts
    if ctx.only_case is None:
        hs.require(need)


def finalize(merged, ctx):
    """the enumeration really was complete"""
    tier = ctx.tier
    ncfg = len(configs_for(tier))
    nA = len(ALPHABET)
    got = {"enum": 0, "enum5": 0, "tomo": {}}
    for sh in merged["extra"]:
        m = sh["params"].get("mode")
        if m in ("enum", "enum5"):
            got[m] += sh["extra"].get("enumerated", 0)
        elif m == "tomo":
            k = sh["params"]["kind"]
            got["tomo"][k] = got["tomo"].get(k, 0) + sh["extra"].get("tomo_enumerated", 0)
    want = sum(nA ** k for k in range(5)) * ncfg
    ctx.truth("enumeration.complete", got["enum"] == want, key="harness:enumeration-incomplete", info={"got": got["enum"], "want": want})
    if got["enum"] != want:
        ctx.mark_inconclusive(f"enumeration incomplete: {got['enum']} != {want}")
    if tier == "thorough":
        w5 = 16 ** 5 * len(LEN5_CONFIGS)
        if got["enum5"] != w5:
            ctx.mark_inconclusive(f"length-5 enumeration incomplete: {got['enum5']} != {w5}")
    wt = sum(16 ** k for k in range(5))
    for k in TOMO_MIDDLE:
        if got["tomo"].get(k, 0) != wt:
            ctx.mark_inconclusive(f"tomography enumeration incomplete for {k}: {got['tomo'].get(k, 0)} != {wt}")
