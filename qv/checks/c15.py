"""C15  Monte-Carlo simulations are reproducible with independent repetitions;
noise models physical; built-in physicality check correct.

Offline checker over *run records* plus contracts on the real functions.

A run record is, per SimulationResult, the byte digests of the true object,
the tester objects, every (n, empirical distribution) per repetition, every
estimated_var per repetition and the check result (wall-clock fields
excluded).  Records are produced by `execute_simulation` (single setting) and
by `execute_simulation_test_settings` (flow, pdf_mode="none", results in a
scratch directory under /verif/.work/C15/, removed afterwards).

Verdicts
* repeat            same settings and seeds, same process  => identical records
* schedule          flow with parallel_mode None vs every single level at k
                    workers and all four levels at k (k = 2 and 4, one worker
                    count per shard so that the loky executor is re-used)
* fresh-process     same setting in another process (child of the shard, and
                    the serial records of the two shards of a group compared in
                    finalize)
* re-estimate       re_estimate / re_estimate_sequence / execute_estimation /
                    re_estimate_sequence_from_index / load_simulation_results
                    reproduce the stored estimates bitwise
* independence      (contract on both entry points) no two repetitions of a run
                    have identical empirical-distribution sequences; a collision
                    is a violation only when the reference bound on the chance
                    of a legitimate collision is <= 1e-12
* noise             (contracts on the three depolarised generators and on the
                    random-Lindbladian setting) generated objects physical by
                    the reference; depolarised(p) == (1-p) ideal + p maximally
                    mixed (Heisenberg dual for POVMs, Tr(.)I/d for maps)
* physicality-check (contract on execute_physicality_violation_check, also
                    evaluated on the flow's own internal calls) the returned
                    bool equals the reference decision, three-zone around the
                    documented thresholds (1e-5; Settings atol for the built-in
                    equality); results are genuine or have their stored variable
                    vectors overwritten by the monitor.

History / combination steps (the oracles are the ones above; keys that only a
history step can produce end with a suffix naming it)
* options           loss-minimisation cases draw non-default loss options (custom
                    weights) and algorithm options (gamma, mu, mode_proj_order) next to
                    the non-default mode_proj_order of the projected linear estimator:
                    every stored / copied / pickled / re-used setting must keep them
* flow              the in-process repetition is ONE call over two test settings of
                    the same shape (this case's test-setting OBJECT, used by the
                    baseline run before or afterwards, and a rival with another true
                    object, noise, seeds and option values, half of the time sharing
                    the loss / algorithm objects); this case's part must equal the
                    baseline ("...:re-used-setting-object+other-setting-in-same-call");
                    a plain repetition (fresh objects, alone) is run only when that
                    fails or cannot be run, to tell the two apart.  Re-estimation uses
                    the results / files of either run (test_setting_index 0 or 1).
                    After the child and all worker schedules the results handed out
                    first are digested again ("returned-results-changed-by-later-runs")
                    and re-estimated / re-loaded once more (":after-later-runs")
* single setting    a rival setting of the same shape is run in between; the
                    repetition uses the same tomography object with the RIVAL's used
                    loss / algorithm objects and this setting's own options
                    (":re-used-objects"), or the setting stored in the first result
                    (":via-stored-setting"), or setting.copy() (":via-copy"); the first
                    result is digested again at the end
                    ("returned-result-changed-by-later-run")
* physicality check the same check object is asked a second time (show_detail varied)
* noise             a second generation setting of the same class / size generates in
                    between and the first is asked again; a fresh random-Lindbladian
                    setting with the same parameters and seed must give the same object
                    (":fresh-setting-object-after-other-setting", ":re-used-object-...")
"""
import contextlib
import hashlib
import json
import os
import shutil
import subprocess
import sys
import zlib

import numpy as np

from qv import env, gen, ref
from qv.monitor import HookSet

ID = "C15"
# the imaginary-part truncation threshold is deliberately DIFFERENT from every eps_proj_physical used (1e-5, 1e-7, 1e-9):
# settings stored in results must keep the two apart (missed seeded change C15-3)
EPS_TRUNC = 1e-6
RULE = ("flow settings: unknown type (state, povm, gate, mprocess on 1 qubit; state on 1 qutrit in thorough) x noise "
        "(depolarised p in [0.02,0.5], random Lindbladian strength 1e-3..0.3, and mixtures of methods) x int data/object "
        "seeds (0 and small ints included) x n_sample 2..3 x n_rep 2..6 x num_data lists x estimator cases (linear, "
        "projected linear, max-likelihood and least-squares PGDB; para True/False) x parallel_mode in {None, each of the 4 "
        "levels at k, all levels at k}, k in {2,4}; single settings: the same with seed kinds int (argument / setting), "
        "Generator (MT19937 / PCG64), None; noise models: typical and random physical bases, p in {0,1} and random, "
        "strengths 1e-3..1; physicality check: estimator x para x algo-option flags matrix on genuine results and on results "
        "whose stored variable vectors were overwritten with clean interior points plus one vector violating eq or ineq by "
        "delta in {0.09 thr, 11 thr, 1e-2} at a random (repetition, data size) (last data size in half of the cases). "
        "A case is distinct by its rounded setting / parameters and non-trivial when it is run under >1 worker, or repeated, "
        "or uses an int seed, or a boundary rate/strength, or a tampered result. History / combination: loss-minimisation "
        "cases draw non-default loss options (custom weights) and algorithm options (gamma, mu, mode_proj_order); the "
        "in-process repetition of a flow is one call over two test settings of the same shape (this case's used test-setting "
        "object at index 0 or 1, rival before or after the baseline, helper objects shared in half of the cases); stored "
        "results are re-digested, re-estimated and re-loaded after all later runs; single settings are repeated with the "
        "tomography and helper objects a rival run has used, or through the stored setting / copy(); check objects and "
        "generation settings are asked again after another object of the same class and size")
_S = "quara/simulation/standard_qtomography_simulation.py:"
_F = "quara/simulation/standard_qtomography_simulation_flow.py:"
_D = "quara/simulation/depolarized_qoperation_generation_setting.py:DepolarizedQOperationGenerationSetting."
_P = "quara/data_analysis/physicality_violation_check.py:"
ANCHORS = [
    _S + "execute_simulation", _S + "generate_empi_dists_and_calc_estimate", _S + "execute_estimation",
    _S + "re_estimate", _S + "re_estimate_sequence", _S + "re_estimate_sequence_from_index", _S + "load_simulation_results",
    _F + "execute_simulation_test_settings", _F + "execute_simulation_test_setting_unit",
    _F + "execute_simulation_sample_unit", _F + "execute_simulation_case_unit",
    _D + "generate_state", _D + "generate_povm", _D + "generate_gate", _D + "generate_mprocess",
    "quara/simulation/random_effective_lindbladian_generation_setting.py:RandomEffectiveLindbladianGenerationSetting.generate",
    "quara/simulation/standard_qtomography_simulation_check.py:StandardQTomographySimulationCheck.execute_physicality_violation_check",
    _P + "is_physical_qobjects_all", _P + "is_eq_constraint_satisfied_all", _P + "is_ineq_constraint_satisfied_all",
    "quara/objects/qoperation_typical.py:generate_qoperation_depolarized",
    "quara/objects/tester_typical.py:generate_tester_states_depolarized",
    "quara/objects/tester_typical.py:generate_tester_povms_depolarized",
]
REQUIRED_REACH = ANCHORS
REQUIRED_ORACLES = ["flow.repeat", "flow.schedule", "flow.fresh-process", "single.repeat", "independence.flow",
                    "independence.single", "re-estimate", "noise.physical", "noise.depolarized-mix",
                    "noise.lindbladian-reproducible", "physicality-check"]
MIN_EVALS = {"quick": 8000, "thorough": 60000}
WATCHDOG = {"quick": 900, "thorough": 3600}
ASSUMPTIONS = [
    "joblib/loky start worker processes that import quara from the tree under test (probed in every worker shard)",
    "a collision of two repetitions is judged only when a reference bound (product over schedules and sample-size "
    "increments of the largest binomial point mass of the reference outcome probabilities) puts its chance below 1e-12",
    "documented thresholds of the physicality check: 1e-5 (inequality; equality without parametrisation), Settings atol "
    "(equality under parametrisation)",
]

LEVELS = ["per_sample_unit", "per_data_generation", "per_estimator_unit", "per_estimator_execution"]
TYPES = ["state", "povm", "gate", "mprocess"]
THR = 1e-5  # documented threshold (quara/data_analysis/physicality_violation_check.py: __eq_const_eps_false, __ineq_const_eps)
COLLISION_MAX = 1e-12

TESTERS = {
    ("state", "S1"): [("povm", n) for n in ("x", "y", "z")],
    ("povm", "S1"): [("state", n) for n in ("x0", "y0", "z0", "z1")],
    ("gate", "S1"): [("state", n) for n in ("x0", "y0", "z0", "z1")] + [("povm", n) for n in ("x", "y", "z")],
    ("mprocess", "S1"): [("state", n) for n in ("x0", "y0", "z0", "z1")] + [("povm", n) for n in ("x", "y", "z")],
    ("state", "S3"): [("povm", n) for n in ("01x3", "01y3", "z3", "12x3", "12y3", "02x3", "02y3")],
}
TRUE_NAMES = {
    ("state", "S1"): ["a", "x0", "y1", "z0", "z1", "y0"],
    ("povm", "S1"): ["x", "y", "z"],
    ("gate", "S1"): ["x90", "y90", "z90", "hadamard", "phase", "piover8", "x180", "identity"],
    ("mprocess", "S1"): ["x-type1", "y-type1", "z-type1", "z-type2", "x-type2"],
    ("state", "S3"): ["01z0", "02z1", "0_1_2_superposition"],
}


# ===================================================================== helpers


@contextlib.contextmanager
def quiet():
    """quara's flow prints a lot (in-process part only; workers write to the shard log)."""
    if os.environ.get("QV_C15_LOUD"):
        yield
        return
    with open(os.devnull, "w") as dn, contextlib.redirect_stdout(dn), contextlib.redirect_stderr(dn):
        yield


def _ab(a):
    a = np.ascontiguousarray(np.asarray(a))
    return (str(a.dtype) + str(a.shape)).encode() + a.tobytes()


def _hx(b):
    return hashlib.blake2b(b, digest_size=8).hexdigest()


def raw_list(q):
    raw = gen.raw_params(q)
    return list(raw) if isinstance(raw, list) else [raw]


def obj_digest(q):
    return _hx(type(q).__name__.encode() + b"".join(_ab(p) for p in raw_list(q)))


def _scalar(v):
    if isinstance(v, (bool, np.bool_)):
        return bool(v)
    if isinstance(v, (int, np.integer)):
        return int(v)
    if isinstance(v, (float, np.floating)):
        return float(v).hex()
    if isinstance(v, str):
        return v
    return None


def check_summary(cr):
    if cr is None:
        return None
    out = {"total": bool(cr.get("total_result")), "name": cr.get("name"), "results": []}
    for r in cr.get("results", []):
        det = r.get("detail")
        d = {}
        if isinstance(det, dict):
            for k in sorted(det):
                s = _scalar(det[k])
                if s is not None:
                    d[k] = s
        out["results"].append([r.get("name"), bool(r.get("result")), d])
    return out


def record_of(r):
    """digest record of one SimulationResult (no wall-clock fields)."""
    ss = r.simulation_setting
    empi = []
    for rep in r.empi_dists_sequences:
        h = hashlib.blake2b(digest_size=8)
        for per_n in rep:
            h.update(b"[")
            for n, d in per_n:
                h.update(repr(int(n)).encode())
                h.update(_ab(d))
        empi.append(h.hexdigest())
    est = []
    for er in r.estimation_results:
        h = hashlib.blake2b(digest_size=8)
        for v in er.estimated_var_sequence:
            h.update(_ab(v))
        est.append(h.hexdigest())
    ri = r.result_index
    return {
        "idx": None if ri is None else [ri.get("test_setting_index"), ri.get("sample_index"), ri.get("case_index")],
        "name": ss.name,
        "true": obj_digest(ss.true_object),
        "testers": [obj_digest(t) for t in ss.tester_objects],
        "empi": empi,
        "est": est,
        "check": json.dumps(check_summary(r.check_result), sort_keys=True),
    }


COMPONENTS = ["true", "testers", "empi", "est", "check"]
COMP_NAME = {"order": "result-order", "true": "true-object", "testers": "tester-objects", "empi": "empirical-distributions",
             "est": "estimates", "check": "check-result"}


def records_equal(base, other):
    return len(base) == len(other) and all(b["idx"] == o["idx"] and b["name"] == o["name"] and all(b[c] == o[c] for c in COMPONENTS)
                                           for b, o in zip(base, other))


def part_of(records, tsi):
    """records of test setting `tsi` of a run over several test settings, re-indexed as if it had been run alone"""
    return [dict(r, idx=[0] + list(r["idx"][1:])) for r in records if r["idx"] is not None and r["idx"][0] == tsi]


def compare_records(ctx, oracle, keyprefix, base, other, info=None, suffix=""):
    """component-wise comparison in causal order; only the most upstream
    differing component of a result is reported (the rest follows from it).
    `suffix` names the history step whose run is compared (keys end with it)."""
    info = dict(info or {})
    ok = len(base) == len(other) and [b["idx"] for b in base] == [o["idx"] for o in other] and \
        [b["name"] for b in base] == [o["name"] for o in other]
    ctx.truth(oracle, ok, key=f"{keyprefix}:{COMP_NAME['order']}-differs{suffix}",
              info=dict(info, base=[b["idx"] for b in base], other=[o["idx"] for o in other]))
    if not ok:
        return False
    allok = True
    for b, o in zip(base, other):
        broken = False
        for c in COMPONENTS:
            if broken:
                ctx.skip(oracle)
                continue
            same = b[c] == o[c]
            ctx.truth(oracle, same, key=f"{keyprefix}:{COMP_NAME[c]}-differ{suffix}",
                      info=dict(info, result=b["idx"], case_name=b["name"], base=b[c], other=o[c]))
            if not same:
                broken = True
                allok = False
    return allok


# ------------------------------------------------------------ reference sizes


def ref_sizes(obj):
    """(eq_lo, eq_hi, ineq) reference violation sizes (the statement fixes no norm for eq)."""
    B = gen.basis_of(obj.composite_system)
    t = gen.type_of(obj)
    d = obj.composite_system.dim
    if t == "State":
        v = ref.state_violations(B, obj.vec)
        return v["eq"], v["eq"], v["ineq"]
    if t == "Povm":
        ms = ref.povm_ops(B, obj.vecs)
        D = sum(ms) - np.eye(d)
        e1 = float(np.max(np.abs(D)))
        e2 = float(np.linalg.norm(D, 2))
        ineq = max(max(ref.psd_violation(m) for m in ms), max(ref.herm_violation(m) for m in ms) / 2)
        return min(e1, e2), max(e1, e2), ineq
    hs = obj.hs if t == "Gate" else sum(np.asarray(h) for h in obj.hss)
    tr = ref.tp_violation(B, hs)
    D = ref.dual_identity(B, hs) - np.eye(d)
    e2 = float(np.max(np.abs(D)))
    e3 = tr / np.sqrt(d)
    if t == "Gate":
        ineq = ref.cp_violation(B, obj.hs)
    else:
        ineq = max(ref.cp_violation(B, h) for h in obj.hss)
    return min(tr, e2, e3), max(tr, e2, e3), ineq


def phys_err(obj):
    lo, hi, ineq = ref_sizes(obj)
    return max(hi, ineq)


# ------------------------------------------------- independence of repetitions


def schedule_probs(true_obj, testers):
    """reference outcome probabilities of every schedule of the standard
    tomography ('all' schedules), computed from raw arrays."""
    c_sys = true_obj.composite_system
    B = gen.basis_of(c_sys)
    t = gen.type_of(true_obj)
    states = [ref.op(B, x.vec) for x in testers if gen.type_of(x) == "State"]
    povms = [ref.povm_ops(B, x.vecs) for x in testers if gen.type_of(x) == "Povm"]
    out = []
    if t == "State":
        rho = ref.op(B, true_obj.vec)
        out = [ref.born(ms, rho) for ms in povms]
    elif t == "Povm":
        ms = ref.povm_ops(B, true_obj.vecs)
        out = [ref.born(ms, rho) for rho in states]
    elif t == "Gate":
        for rho in states:
            r2 = ref.apply_hs(B, true_obj.hs, rho)
            for ms in povms:
                out.append(ref.born(ms, r2))
    elif t == "MProcess":
        for rho in states:
            posts = [ref.apply_hs(B, h, rho) for h in true_obj.hss]
            for ms in povms:
                out.append(np.array([np.trace(m @ r2).real for r2 in posts for m in ms]))
    return out


def max_binom_pmf(n, p):
    from scipy.stats import binom

    p = float(min(1.0, max(0.0, p)))
    if n <= 0 or p <= 0.0 or p >= 1.0:
        return 1.0
    k = int(np.floor((n + 1) * p))
    return float(min(1.0, max(binom.pmf(k, n, p), binom.pmf(max(k - 1, 0), n, p), binom.pmf(min(k + 1, n), n, p)) * (1 + 1e-9)))


def collision_bound(true_obj, testers, num_data, n_schedules_seen):
    """upper bound on P(two independent repetitions have identical empirical
    distribution sequences); None when the reference cannot be formed."""
    try:
        probs = schedule_probs(true_obj, testers)
    except Exception:
        return None
    if not probs or len(probs) != n_schedules_seen:
        return None
    incs = []
    prev = 0
    for n in num_data:
        n = int(n)
        if n - prev > 0:
            incs.append(n - prev)
        prev = max(prev, n)
    if not incs:
        return None
    b = 1.0
    for p in probs:
        p = np.asarray(p, dtype=float)
        s = float(np.sum(p))
        if not np.isfinite(s) or s <= 0:
            return None
        p = p / s
        for n in incs:
            b *= min(max_binom_pmf(n, pi) for pi in p)
    return b


def judge_independence(ctx, oracle, keyprefix, r, info=None):
    seqs = record_of_empi(r)
    n = len(seqs)
    if n < 2:
        return
    dup = len(set(seqs)) < n
    if not dup:
        ctx.truth(oracle, True)
        return
    ss = r.simulation_setting
    n_sched = len(r.empi_dists_sequences[0][0]) if r.empi_dists_sequences and r.empi_dists_sequences[0] else 0
    b = collision_bound(ss.true_object, ss.tester_objects, ss.num_data, n_sched)
    pairs = n * (n - 1) / 2
    if b is None or b * pairs > COLLISION_MAX:
        ctx.skip(oracle)
        return
    ctx.truth(oracle, False, key=f"{keyprefix}:repetitions-identical",
              info=dict(info or {}, n_rep=n, distinct=len(set(seqs)), collision_bound=b, num_data=list(ss.num_data),
                        all_identical=len(set(seqs)) == 1))


def record_of_empi(r):
    out = []
    for rep in r.empi_dists_sequences:
        h = hashlib.blake2b(digest_size=8)
        for per_n in rep:
            h.update(b"[")
            for n, d in per_n:
                h.update(repr(int(n)).encode())
                h.update(_ab(d))
        out.append(h.hexdigest())
    return out


# ------------------------------------------------------ depolarised reference


def depolarized_error(base, got, p):
    """max abs difference between `got` and (1-p) base + p maximally mixed"""
    c_sys = base.composite_system
    B = gen.basis_of(c_sys)
    d = c_sys.dim
    t = gen.type_of(base)
    if gen.type_of(got) != t:
        return float("inf")
    I = np.eye(d)
    if t == "State":
        rho = ref.op(B, base.vec)
        want = (1 - p) * rho + p * I / d
        return float(np.max(np.abs(ref.op(B, got.vec) - want)))
    if t == "Povm":
        ms = ref.povm_ops(B, base.vecs)
        gs = ref.povm_ops(B, got.vecs)
        if len(ms) != len(gs):
            return float("inf")
        return max(float(np.max(np.abs(g - ((1 - p) * m + p * np.trace(m) * I / d)))) for m, g in zip(ms, gs))
    if t == "Gate":
        want = (1 - p) * np.asarray(base.hs) + p * ref.hs_of_map(B, lambda X: np.trace(X) * I / d)
        return float(np.max(np.abs(np.asarray(got.hs) - want)))
    if t == "MProcess":
        if len(base.hss) != len(got.hss):
            return float("inf")
        err = 0.0
        for hb, hg in zip(base.hss, got.hss):
            want = (1 - p) * np.asarray(hb) + p * ref.hs_of_map(B, lambda X, hb=hb: np.trace(ref.apply_hs(B, hb, X)) * I / d)
            err = max(err, float(np.max(np.abs(np.asarray(hg) - want))))
        return err
    return float("inf")


# ------------------------------------------------- physicality-check reference


def enforced_constraints(sr):
    """(label, para, eq_enforced, ineq_enforced) from the configuration of the run"""
    ss = sr.simulation_setting
    tn = type(ss.estimator).__name__
    para = bool(sr.estimation_results[0].estimated_qoperation.on_para_eq_constraint)
    if tn == "ProjectedLinearEstimator":
        return tn, para, True, True
    if tn == "LinearEstimator":
        return tn, para, para, False
    if tn == "LossMinimizationEstimator":
        ao = ss.algo_option
        if ao is None:
            return tn + "[no-option]", para, False, False
        eq, ineq = bool(ao.on_algo_eq_constraint), bool(ao.on_algo_ineq_constraint)
        return tn + f"[eq={int(eq)},ineq={int(ineq)}]", para, eq, ineq
    return "other", para, False, False


def phys_decision(sr):
    """reference decision of the built-in check: (want, label, worst) with want in
    {True, False, None(free zone)}"""
    from quara.settings import Settings

    label, para, eq_on, ineq_on = enforced_constraints(sr)
    thr_eq = Settings.get_atol() if para else THR
    thr_in = THR
    any_reject = None
    all_accept = True
    worst = {"eq_hi": 0.0, "ineq": 0.0}
    for er in sr.estimation_results:
        for q in er.estimated_qoperation_sequence:
            lo, hi, ineq = ref_sizes(q)
            worst["eq_hi"] = max(worst["eq_hi"], hi)
            worst["ineq"] = max(worst["ineq"], ineq)
            if eq_on:
                if lo >= 10 * thr_eq:
                    any_reject = any_reject or "eq"
                if not hi <= thr_eq / 10:
                    all_accept = False
            if ineq_on:
                if ineq >= 10 * thr_in:
                    any_reject = any_reject or "ineq"
                if not ineq <= thr_in / 10:
                    all_accept = False
    worst.update(para=para, thr_eq=thr_eq, thr_ineq=thr_in, eq_enforced=eq_on, ineq_enforced=ineq_on)
    if any_reject:
        return False, label, worst, any_reject
    if all_accept:
        return True, label, worst, None
    return None, label, worst, None


# ======================================================================= hooks


class Mon:
    """installs the contracts; `tag` is set by the driver to name the input class in keys"""

    def __init__(self, ctx):
        self.ctx = ctx
        self.hs = HookSet(ctx)
        self.tag = {}
        self.flow_noise = "none"

    def install(self):
        import quara.objects.qoperation_typical as qt
        import quara.objects.tester_typical as tt
        import quara.simulation.standard_qtomography_simulation as sim
        import quara.simulation.standard_qtomography_simulation_flow as flow
        from quara.simulation.depolarized_qoperation_generation_setting import DepolarizedQOperationGenerationSetting as DG
        from quara.simulation.random_effective_lindbladian_generation_setting import RandomEffectiveLindbladianGenerationSetting as RL
        from quara.simulation.standard_qtomography_simulation_check import StandardQTomographySimulationCheck as SC

        ctx, hs = self.ctx, self.hs

        # ---- independence of repetitions, both entry points
        def post_single(result, snap, qtomography, simulation_setting, seed_or_generator=None, *a, **kw):
            eff = seed_or_generator if seed_or_generator is not None else simulation_setting.seed_data
            if eff is None:
                kind = "none-seed"
            elif isinstance(eff, (int, np.integer)) and not isinstance(eff, bool):
                kind = "int-seed"
            elif isinstance(eff, np.random.Generator):
                kind = "generator-seed"
            else:
                kind = "other-seed"
            judge_independence(ctx, "independence.single", f"execute_simulation:{kind}", result, info={"seed_kind": kind})

        hs.function(sim, "execute_simulation", post=post_single)

        def post_flow(results, snap, *a, **kw):
            for r in results:
                judge_independence(ctx, "independence.flow", "execute_simulation_test_settings", r,
                                   info={"result_index": r.result_index})
                ss = r.simulation_setting
                if r.result_index and r.result_index.get("case_index") == 0:
                    for role, o in [("true", ss.true_object)] + [("tester", t) for t in ss.tester_objects]:
                        ctx.num("noise.physical", phys_err(o), 1e-12, 1e-9,
                                key=f"flow:noise={self.flow_noise}:{role}-object:{gen.type_of(o)}:not-physical")

        hs.function(flow, "execute_simulation_test_settings", post=post_flow)

        # ---- depolarised generators
        def judge_dep(site, base, got, p):
            t = gen.type_of(base)
            if phys_err(base) > 1e-12:
                ctx.skip("noise.depolarized-mix")
                return
            ctx.num("noise.depolarized-mix", depolarized_error(base, got, float(p)), 1e-12, 1e-9,
                    key=f"{site}:{t}:not-(1-p)*ideal+p*maximally-mixed", info={"p": float(p)})
            ctx.num("noise.physical", phys_err(got), 1e-12, 1e-9, key=f"{site}:{t}:not-physical", info={"p": float(p)})

        for nm in ("generate_state", "generate_povm", "generate_gate", "generate_mprocess"):
            def post_dg(result, snap, self, *a, **kw):
                judge_dep("DepolarizedQOperationGenerationSetting", self.qoperation_base, result, self.error_rate)

            hs.method(DG, nm, post=post_dg)

        def post_qd(result, snap, mode, name, c_sys, error_rate, ids=None, is_physicality_required=True):
            base = qt.generate_qoperation(mode=mode, name=name, c_sys=c_sys, ids=ids, is_physicality_required=is_physicality_required)
            judge_dep("generate_qoperation_depolarized", base, result, error_rate)

        hs.function(qt, "generate_qoperation_depolarized", post=post_qd)

        def mk_tester(fname, plain):
            def post(result, snap, c_sys, names, error_rates):
                bases = getattr(tt, plain)(c_sys=c_sys, names=names)
                rates = error_rates if isinstance(error_rates, list) else [error_rates] * len(names)
                ctx.truth("noise.depolarized-mix", len(result) == len(bases), key=f"{fname}:wrong-number-of-objects")
                for b, g, p in zip(bases, result, rates):
                    judge_dep(fname, b, g, p)
            return post

        hs.function(tt, "generate_tester_states_depolarized", post=mk_tester("generate_tester_states_depolarized", "generate_tester_states"))
        hs.function(tt, "generate_tester_povms_depolarized", post=mk_tester("generate_tester_povms_depolarized", "generate_tester_povms"))

        # ---- random Lindbladian noise
        # NB: RL.generate itself must not be wrapped: the flow inspects generate.__code__.co_varnames to decide whether
        # to pass the object stream (a wrapper hides the parameter and silently switches the flow to unseeded generation)
        def post_rl(result, snap, self, seed_or_generator=None):
            o = result[0] if isinstance(result, tuple) else result
            t = gen.type_of(o)
            if phys_err(self.qoperation_base) > 1e-12:
                ctx.skip("noise.physical")
                return
            ctx.num("noise.physical", phys_err(o), 1e-12, 1e-9,
                    key=f"RandomEffectiveLindbladianGenerationSetting:{t}:not-physical",
                    info={"strength_h": self.strength_h_part, "strength_k": self.strength_k_part})

        for nm in ("generate_state", "generate_povm", "generate_gate", "generate_mprocess"):
            hs.method(RL, nm, post=post_rl, label="RandomEffectiveLindbladianGenerationSetting." + nm)

        # ---- the built-in physicality check
        def post_pc(result, snap, self, *a, **kw):
            sr = self.simulation_result
            want, label, worst, why = phys_decision(sr)
            tag = self.__dict__.get("_qv_tag") or "genuine"
            if want is None:
                ctx.skip("physicality-check")
                return
            tname = gen.type_of(sr.simulation_setting.true_object)
            info = dict(worst, got=bool(result), want=want, results=tag, type=tname, estimator=label)
            if want:
                key = f"physicality_check:{label}:para={int(worst['para'])}:fails-without-enforced-constraint-violation"
            else:
                key = f"physicality_check:{label}:para={int(worst['para'])}:passes-{why}-violation-beyond-threshold"
            ctx.truth("physicality-check", bool(result) == want, key=key, info=info)
            ctx.count(f"physcheck[{tag}]:want={want}")

        hs.method(SC, "execute_physicality_violation_check", post=post_pc)
        return self


# ================================================================== settings


def shape_csys(shape):
    from quara.objects.composite_system_typical import generate_composite_system

    return generate_composite_system("qubit" if shape == "S1" else "qutrit", 1)


# (number of schedules, outcomes per schedule) of the standard tomography of each unknown: shapes of custom loss weights
WSHAPE = {("state", "S1"): (3, 2), ("povm", "S1"): (4, 2), ("gate", "S1"): (12, 2), ("mprocess", "S1"): (12, 4),
          ("state", "S3"): (7, 3)}


def draw_options(c, rng, p=0.6):
    """non-default options of the loss option and of the algorithm option of a loss-minimisation case (history /
    combination step: every stored, copied, pickled or re-used setting has to keep them).  JSON-able."""
    if c["est"] not in ("lsq", "mle") or c.get("flags") == "none":
        return c
    if rng.random() < p:
        c["lw"] = int(rng.integers(1, 2 ** 31 - 1))  # seed of custom loss weights
    ao = {}
    if rng.random() < p:
        ao["gamma"] = float(rng.choice([0.25, 0.4, 0.5]))
    if rng.random() < p:
        ao["mu"] = float(rng.choice([0.5, 0.7, 1.1]))
    if rng.random() < p:
        ao["mode_proj_order"] = "ineq_eq"
    if ao:
        c["ao"] = ao
    return c


def loss_weights(est, wshape, wseed):
    n_sched, n_out = wshape
    g = np.random.default_rng(int(wseed))
    if est == "mle":
        return [float(x) for x in g.uniform(0.5, 2.0, size=n_sched)]
    out = []
    for _ in range(n_sched):
        v = g.uniform(-1.0, 1.0, size=n_out)
        out.append(np.diag(g.uniform(0.5, 2.0, size=n_out)) + 0.2 * np.outer(v, v))  # symmetric positive definite
    return out


def make_case(c, wshape=None):
    """(name, estimator, para, (loss, loss_option), (algo, algo_option)) of a case spec"""
    from quara.loss_function.standard_qtomography_based_weighted_probability_based_squared_error import (
        StandardQTomographyBasedWeightedProbabilityBasedSquaredError as SE,
        StandardQTomographyBasedWeightedProbabilityBasedSquaredErrorOption as SEO)
    from quara.loss_function.standard_qtomography_based_weighted_relative_entropy import (
        StandardQTomographyBasedWeightedRelativeEntropy as RE, StandardQTomographyBasedWeightedRelativeEntropyOption as REO)
    from quara.minimization_algorithm.projected_gradient_descent_backtracking import (
        ProjectedGradientDescentBacktracking as PGDB, ProjectedGradientDescentBacktrackingOption as PGDBO)
    from quara.protocol.qtomography.standard.linear_estimator import LinearEstimator
    from quara.protocol.qtomography.standard.loss_minimization_estimator import LossMinimizationEstimator
    from quara.protocol.qtomography.standard.projected_linear_estimator import ProjectedLinearEstimator

    e = c["est"]
    para = bool(c.get("para", True))
    name = f"{e}({'T' if para else 'F'})" + (f"[{c['flags']}]" if c.get("flags") else "")
    if e == "lin":
        return name, LinearEstimator(), para, (None, None), (None, None)
    if e == "plin":
        # a non-default constructor option of the estimator: it has to survive every copy of the setting
        order = c.get("order")
        if order:
            return name + f"[{order}]", ProjectedLinearEstimator(mode_proj_order=order), para, (None, None), (None, None)
        return name, ProjectedLinearEstimator(), para, (None, None), (None, None)
    flags = c.get("flags", "11")
    if flags == "none":
        ao = None
    else:
        ao = PGDBO(on_algo_eq_constraint=flags[0] == "1", on_algo_ineq_constraint=flags[1] == "1",
                   mode_stopping_criterion_gradient_descent="sum_absolute_difference_variable",
                   num_history_stopping_criterion_gradient_descent=1, eps=1e-7, **dict(c.get("ao") or {}))
        if c.get("ao"):
            name += "[ao:" + ",".join(sorted(c["ao"])) + "]"
    LO = REO if e == "mle" else SEO
    if c.get("lw") is not None and wshape is not None:
        lo = LO("custom", weights=loss_weights(e, wshape, c["lw"]), weight_name="qv-custom")
        name += "[w]"
    else:
        lo = LO("identity")
    loss = (RE(), lo) if e == "mle" else (SE(), lo)
    return name, LossMinimizationEstimator(), para, loss, (PGDB(), ao)


def noise_setting(base, ns):
    from quara.simulation.standard_qtomography_simulation import NoiseSetting

    return NoiseSetting(qoperation_base=tuple(base), method=ns["method"], para=ns["para"])


def build_test_setting(spec, share=None):
    """`share`: a test setting of the same estimator cases whose loss and algorithm OBJECTS (not the options) are put
    into the new one as well (the usual way of writing several test settings: one list of helper objects)"""
    from quara.simulation.standard_qtomography_simulation import EstimatorTestSetting

    c_sys = shape_csys(spec["shape"])
    cases = [make_case(c, WSHAPE.get((spec["type"], spec["shape"]))) for c in spec["cases"]]
    if share is not None:
        cases = [(c[0], c[1], c[2], (share.loss_list[j][0], c[3][1]), (share.algo_list[j][0], c[4][1])) for j, c in enumerate(cases)]
    return EstimatorTestSetting(
        true_object=noise_setting((spec["type"], spec["true"]), spec["noise_true"]),
        tester_objects=[noise_setting(b, ns) for b, ns in zip(spec["testers"], spec["noise_testers"])],
        seed_qoperation=spec["seed_qoperation"], seed_data=spec["seed_data"], n_sample=spec["n_sample"],
        n_rep=spec["n_rep"], num_data=list(spec["num_data"]), schedules="all",
        case_names=[c[0] for c in cases], estimators=[c[1] for c in cases],
        eps_proj_physical_list=[spec["eps_proj"]] * len(cases), eps_truncate_imaginary_part_list=[EPS_TRUNC] * len(cases),
        algo_list=[c[4] for c in cases], loss_list=[c[3] for c in cases], parametrizations=[c[2] for c in cases], c_sys=c_sys)


def pick_seed(rng):
    r = rng.random()
    if r < 0.2:
        return int(rng.choice([0, 1, 2, 7, 777, 888]))
    return int(rng.integers(0, 2 ** 31 - 1))


def dep_noise(rng, lo, hi):
    return {"method": "depolarized", "para": {"error_rate": float(np.round(rng.uniform(lo, hi), 6))}}


def rl_noise(rng, lo=1e-3, hi=0.3):
    s = lambda: float(np.round(10 ** rng.uniform(np.log10(lo), np.log10(hi)), 6))  # noqa: E731
    return {"method": "random_effective_lindbladian",
            "para": {"lindbladian_base": "identity", "strength_h_part": s(), "strength_k_part": s()}}


def flow_spec(t, rng, tier, shape="S1", noise="depolarized", light=False):
    testers = TESTERS[(t, shape)]
    nt = len(testers)
    if noise == "depolarized":
        n_true, n_test, cls = dep_noise(rng, 0.05, 0.5), [dep_noise(rng, 0.02, 0.2) for _ in range(nt)], "depolarized"
    elif noise == "lindbladian":
        n_true, n_test, cls = rl_noise(rng), [rl_noise(rng) for _ in range(nt)], "random_effective_lindbladian"
    elif noise == "dep+rl":
        n_true, n_test, cls = dep_noise(rng, 0.05, 0.5), [rl_noise(rng) for _ in range(nt)], "depolarized-true+lindbladian-testers"
    elif noise == "ideal+rl":
        n_true, n_test, cls = {"method": None, "para": None}, [rl_noise(rng) for _ in range(nt)], "ideal-true+lindbladian-testers"
    elif noise == "rl+dep":
        n_true, n_test, cls = rl_noise(rng), [dep_noise(rng, 0.02, 0.2) for _ in range(nt)], "lindbladian-true+depolarized-testers"
    else:
        raise ValueError(noise)
    pT = lambda: bool(rng.random() < 0.75)  # noqa: E731
    pO = lambda: str(rng.choice(["eq_ineq", "ineq_eq", "ineq_eq"]))  # noqa: E731
    if t == "state":
        # slow case first: completion order != submission order under workers
        cases = [{"est": "mle", "para": pT()}, {"est": "lin", "para": pT()}, {"est": "plin", "para": pT(), "order": pO()}, {"est": "lsq", "para": pT()}]
        num_data = [[100, 1000, 10000], [100, 500, 2000, 10000], [200, 2000, 20000]][int(rng.integers(0, 3))]
        if shape == "S3":
            cases = cases[1:]
    elif t == "povm":
        cases = [{"est": "lsq", "para": pT()}, {"est": "lin", "para": pT()}, {"est": "plin", "para": pT(), "order": pO()}]
        if tier == "thorough" and not light and rng.random() < 0.25:
            cases.append({"est": "mle", "para": True})  # POVM max-likelihood is ~10x the cost of the other cases
        num_data = [[100, 1000], [100, 300, 1000], [500, 5000]][int(rng.integers(0, 3))]
    else:
        cases = [{"est": "lsq", "para": True}, {"est": "lin", "para": pT()}, {"est": "plin", "para": pT(), "order": pO()}]
        num_data = [[100, 1000], [100, 300, 1000]][int(rng.integers(0, 2))]
    heavy = t in ("gate", "mprocess")
    n_rep = int(rng.integers(2, 4)) if heavy or light else int(rng.integers(2, 7))
    names = TRUE_NAMES[(t, shape)]
    cases = [draw_options(c, rng) for c in cases]
    return {
        "type": t, "shape": shape, "true": names[int(rng.integers(0, len(names)))], "testers": [list(x) for x in testers],
        "noise_true": n_true, "noise_testers": n_test, "noise_class": cls,
        "seed_data": pick_seed(rng), "seed_qoperation": pick_seed(rng),
        "n_sample": 2 if (heavy or tier == "quick" or rng.random() < 0.6) else 3,
        "n_rep": n_rep, "num_data": num_data, "cases": cases,
        "eps_proj": float(rng.choice([1e-5, 1e-7])) if not heavy else 1e-5,
    }


# ------------------------------------------------------------- running a flow

INFRA_ERRORS = ("TerminatedWorkerError", "BrokenProcessPool", "TimeoutError", "PicklingError", "ShutdownExecutorError")


class Scratch:
    def __init__(self, ctx):
        self.root = os.path.join(env.WORK, "C15", f"run_s{ctx.shard_index}_p{os.getpid()}")
        os.makedirs(self.root, exist_ok=True)
        self.n = 0
        self.jl = os.path.join(self.root, "joblib")
        os.makedirs(self.jl, exist_ok=True)
        os.environ["JOBLIB_TEMP_FOLDER"] = self.jl

    def new(self):
        self.n += 1
        p = os.path.join(self.root, f"f{self.n}")
        shutil.rmtree(p, ignore_errors=True)
        return p

    def drop(self, p):
        shutil.rmtree(p, ignore_errors=True)

    def close(self):
        shutil.rmtree(self.root, ignore_errors=True)


def run_flow(spec, pm, root):
    import quara.simulation.standard_qtomography_simulation_flow as flow

    ts = build_test_setting(spec)
    with quiet():
        results = flow.execute_simulation_test_settings([ts], root, pdf_mode="none", parallel_mode=None if pm is None else dict(pm))
    return ts, results


def run_flow_objects(tss, pm, root):
    """the flow over given (possibly already used) test-setting objects"""
    import quara.simulation.standard_qtomography_simulation_flow as flow

    with quiet():
        return flow.execute_simulation_test_settings(list(tss), root, pdf_mode="none", parallel_mode=None if pm is None else dict(pm))


def rival_spec(spec, hr):
    """another setting of the SAME shape (unknown type, testers, estimator cases, data sizes) with another true object,
    other noise parameters, seeds and option values; one sample, two repetitions (cheap)"""
    r = json.loads(json.dumps(spec))
    names = TRUE_NAMES[(spec["type"], spec["shape"])]
    others = [n for n in names if n != spec["true"]] or names
    r["true"] = others[int(hr.integers(0, len(others)))]

    def renoise(ns):
        if ns["method"] == "depolarized":
            return dep_noise(hr, 0.02, 0.5)
        if ns["method"] == "random_effective_lindbladian":
            return rl_noise(hr)
        return ns

    r["noise_true"] = renoise(r["noise_true"])
    r["noise_testers"] = [renoise(x) for x in r["noise_testers"]]
    r["seed_data"], r["seed_qoperation"] = pick_seed(hr), pick_seed(hr)
    r["n_sample"], r["n_rep"] = 1, 2
    cases = []
    for c in r["cases"]:
        c = {k: v for k, v in c.items() if k not in ("lw", "ao")}
        if c["est"] == "plin" and c.get("order"):
            c["order"] = "eq_ineq" if c["order"] == "ineq_eq" else "ineq_eq"
        cases.append(draw_options(c, hr))
    r["cases"] = cases
    return r


def _where():
    import quara

    return os.getpid(), os.path.realpath(quara.__file__)


def worker_probe(ctx, k):
    """are loky workers available, distinct from this process, and importing quara from the tree under test?"""
    import joblib

    try:
        with quiet():
            out = joblib.Parallel(n_jobs=k)(joblib.delayed(_where)() for _ in range(2 * k))
    except Exception as e:  # noqa: BLE001
        ctx.note(f"worker probe failed: {type(e).__name__}: {e}")
        return False
    pids = {p for p, _ in out}
    files = {f for _, f in out}
    good_root = os.path.realpath(env.REPO) + os.sep
    if os.getpid() in pids:
        ctx.note("worker probe ran in the parent process")
        return False
    if not all(f.startswith(good_root) for f in files):
        ctx.mark_inconclusive(f"loky workers import quara from {sorted(files)}, not from {env.REPO}")
        return False
    ctx.count("worker_probe_ok")
    ctx.extra["worker_pids_seen"] = len(pids)
    return True


def shutdown_workers():
    try:
        from joblib.externals.loky import reusable_executor as re_

        ex = getattr(re_, "_executor", None)
        if ex is not None:
            ex.shutdown(wait=True, kill_workers=True)
    except Exception:  # noqa: BLE001
        pass


def configs_for(k):
    return [("single:" + lv, {lv: k}) for lv in LEVELS] + [("all-levels", {lv: k for lv in LEVELS})]


def group_rng(ctx, group, case):
    return np.random.default_rng(np.random.SeedSequence([ctx.seed, 15, zlib.crc32(group.encode()), int(case)]))


def reestimate_checks(ctx, ts, results, root, n_jobs_list=(1,), pick=0, later=False):
    """`later`: the short second pass on the SAME result objects / files after all the later runs of the case (one
    sample: re_estimate of another repetition, the stored files read again); keys end with ':after-later-runs'"""
    import quara.simulation.standard_qtomography_simulation as sim

    pick0 = pick
    suf = ":after-later-runs" if later else ""
    for r in results:
        pick += 1
        stored = record_of(r)["est"]
        case_index = r.result_index["case_index"]
        cname = r.simulation_setting.name.split("(")[0]
        if later:
            ri = r.result_index
            if ri["sample_index"] != pick0 % ts.n_sample:
                continue
            k = pick % len(r.estimation_results)
            with quiet():
                ok, er = ctx.attempt(sim.re_estimate, ts, r, k)
            if ok:
                h = hashlib.blake2b(digest_size=8)
                for v in er.estimated_var_sequence:
                    h.update(_ab(v))
                ctx.truth("re-estimate", h.hexdigest() == stored[k], key=f"re_estimate:{cname}:estimates-differ-from-stored{suf}",
                          info={"case": r.simulation_setting.name})
            else:
                ctx.violation(f"re_estimate:{cname}:" + ctx.exc_key(er) + suf, {})
            with quiet():
                ok, loaded = ctx.attempt(sim.load_simulation_results, root, ri["test_setting_index"], ri["sample_index"], ri["case_index"])
            if ok and len(loaded) == 1:
                compare_records(ctx, "re-estimate", "load_simulation_results:stored-vs-returned", [record_of(r)], [record_of(loaded[0])],
                                suffix=suf)
            elif not ok:
                ctx.violation("load_simulation_results:" + ctx.exc_key(loaded) + suf, {})
            continue

        def est_digest(er):
            h = hashlib.blake2b(digest_size=8)
            for v in er.estimated_var_sequence:
                h.update(_ab(v))
            return h.hexdigest()

        # re_estimate on one repetition (re_estimate_sequence below covers all of them)
        for k in [pick % len(r.estimation_results)]:
            with quiet():
                ok, er = ctx.attempt(sim.re_estimate, ts, r, k)
            if not ok:
                ctx.violation(f"re_estimate:{cname}:" + ctx.exc_key(er), {})
                continue
            ctx.truth("re-estimate", est_digest(er) == stored[k], key=f"re_estimate:{cname}:estimates-differ-from-stored",
                      info={"case": r.simulation_setting.name})
        with quiet():
            ok, ers = ctx.attempt(sim.re_estimate_sequence, ts, r)
        if ok:
            ctx.truth("re-estimate", [est_digest(e) for e in ers] == stored,
                      key=f"re_estimate_sequence:{cname}:estimates-differ-from-stored", info={"case": r.simulation_setting.name})
        else:
            ctx.violation(f"re_estimate_sequence:{cname}:" + ctx.exc_key(ers), {})
        # from the files the flow wrote (one sample)
        ri = r.result_index
        from_files = ri["sample_index"] == pick0 % ts.n_sample
        ok = None
        if from_files:
            with quiet():
                ok, ers = ctx.attempt(sim.re_estimate_sequence_from_index, root, ri["test_setting_index"], ri["sample_index"], ri["case_index"])
        if ok is None:
            pass
        elif ok:
            ctx.truth("re-estimate", [est_digest(e) for e in ers] == stored,
                      key=f"re_estimate_sequence_from_index:{cname}:estimates-differ-from-stored", info={"case": r.simulation_setting.name})
        else:
            ctx.violation(f"re_estimate_sequence_from_index:{cname}:" + ctx.exc_key(ers), {})
        with quiet():
            ok, loaded = ctx.attempt(sim.load_simulation_results, root, ri["test_setting_index"], ri["sample_index"], ri["case_index"])
        if ok and len(loaded) == 1:
            compare_records(ctx, "re-estimate", "load_simulation_results:stored-vs-returned", [record_of(r)], [record_of(loaded[0])])
        elif not ok:
            ctx.violation("load_simulation_results:" + ctx.exc_key(loaded), {})
        # execute_estimation on the stored empirical distributions
        for nj in n_jobs_list:
            with quiet():
                qt = sim.generate_qtomography(r.simulation_setting, para=ts.parametrizations[case_index], init_with_seed=False)
                ok, out = ctx.attempt(sim.execute_estimation, qt, r.simulation_setting, r.empi_dists_sequences, n_jobs=nj)
            if not ok:
                if type(out).__name__ in INFRA_ERRORS:
                    ctx.count("infra_error:" + type(out).__name__)
                    continue
                ctx.violation(f"execute_estimation:{cname}:" + ctx.exc_key(out), {"n_jobs": nj})
                continue
            ctx.truth("re-estimate", [est_digest(e) for e in out.estimation_results] == stored,
                      key=f"execute_estimation:{cname}:{'serial' if nj == 1 else 'workers'}:estimates-differ-from-stored",
                      info={"case": r.simulation_setting.name, "n_jobs": nj})


def child_serial_records(spec, scratch, timeout=600):
    """the same flow, serial, in a fresh interpreter: list of records or (None, reason)"""
    d = scratch.new()
    os.makedirs(d, exist_ok=True)
    sp, op = os.path.join(d, "spec.json"), os.path.join(d, "out.json")
    json.dump({"spec": spec, "root": os.path.join(d, "flow")}, open(sp, "w"))
    try:
        p = subprocess.run([env.PYTHON, "-m", "qv.checks.c15", "--child", sp, op], cwd=env.VERIF, env=env.child_env(),
                           stdout=subprocess.DEVNULL, stderr=subprocess.PIPE, timeout=timeout)
        if p.returncode != 0 or not os.path.exists(op):
            return None, f"child rc={p.returncode}: {p.stderr.decode(errors='replace')[-400:]}"
        return json.load(open(op)), None
    except subprocess.TimeoutExpired:
        return None, "child timeout"
    finally:
        scratch.drop(d)


def shard_flow(ctx, mon):
    p = ctx.params
    t, k, tier = p["type"], int(p.get("workers", 0)), ctx.tier
    scratch = Scratch(ctx)
    workers_ok = False
    records_out = ctx.extra.setdefault("records", {})
    try:
        if k > 1:
            workers_ok = worker_probe(ctx, k)
            if not workers_ok:
                ctx.note(f"workers unavailable (k={k}); parallel configurations skipped")
        for i in ctx.cases(p["n"]):
            rng = group_rng(ctx, p["group"], i)
            noise = p["noises"][i % len(p["noises"])]
            spec = flow_spec(t, rng, tier, shape=p.get("shape", "S1"), noise=noise, light=bool(p.get("light")))
            cls = spec["noise_class"]
            mon.flow_noise = cls
            kp = f"flow:noise={cls}"
            mixed = "+" in noise
            # ---------------- history plan of the case (own stream: the setting itself is what it was without it)
            hr = np.random.default_rng(np.random.SeedSequence([ctx.seed, 15, zlib.crc32(p["group"].encode()), int(i), 77]))
            rspec = rival_spec(spec, hr)
            rival_first = bool(hr.random() < 0.5)   # the rival runs before / after the baseline
            pos = int(hr.integers(0, 2))             # index of this case's test setting in the two-setting run
            reest_from_combined = bool(hr.random() < 0.5)
            HSUF = ":re-used-setting-object+other-setting-in-same-call"
            def build_both():
                ts_ = build_test_setting(spec)
                return ts_, build_test_setting(rspec, share=ts_ if share_helpers else None)

            share_helpers = bool(hr.random() < 0.5)
            ok, val = ctx.attempt(build_both)
            if not ok:
                ctx.count(f"flow_serial_exception[{cls}]:{type(val).__name__}")
                ctx.note(f"test setting could not be built for noise={cls}: {ctx.exc_key(val)}: {str(val)[:200]}")
                if not mixed:
                    ctx.mark_inconclusive(f"building a standard test setting raised: {ctx.exc_key(val)}: {str(val)[:300]}")
                continue
            ts, ts_rival = val
            tss = [ts_rival, ts] if pos == 1 else [ts, ts_rival]
            specs2 = [rspec, spec] if pos == 1 else [spec, rspec]

            def combined_run(root):
                """ONE call over two test settings of the same shape; this case's setting object is the one of the
                baseline run (used before or afterwards).  Returns (all results, records of this case's part)."""
                ok_, val_ = ctx.attempt(run_flow_objects, tss, None, root)
                if not ok_:
                    ctx.count(f"flow_combined_exception[{cls}]:{type(val_).__name__}")
                    if not mixed:
                        # a violation only when the rival runs alone (fresh objects); this case's setting alone is run below
                        rr = scratch.new()
                        ok2, val2 = ctx.attempt(run_flow, rspec, None, rr)
                        scratch.drop(rr)
                        if ok2:
                            ctx.violation(f"{kp}:two-test-settings-in-one-call:" + ctx.exc_key(val_), {"message": str(val_)[:300]})
                        else:
                            ctx.note(f"rival setting raised on its own: {ctx.exc_key(val2)}: {str(val2)[:200]}")
                    return None, None
                recs = [record_of(r) for r in val_]
                want = [[j, s_, c_] for j, sp in enumerate(specs2) for s_ in range(sp["n_sample"]) for c_ in range(len(sp["cases"]))]
                ctx.truth("flow.order", [b["idx"] for b in recs] == want, key=f"{kp}:serial:results-not-in-submission-order:two-test-settings",
                          info={"got": [b["idx"] for b in recs]})
                ctx.count("flow_runs_two_test_settings")
                return val_, part_of(recs, pos)

            rootc = scratch.new()
            resc, partc = combined_run(rootc) if rival_first else (None, None)
            # ---------------- serial baseline
            root0 = scratch.new()
            ok, val = ctx.attempt(run_flow_objects, [ts], None, root0)
            if not ok:
                scratch.drop(root0)
                scratch.drop(rootc)
                ctx.count(f"flow_serial_exception[{cls}]:{type(val).__name__}")
                ctx.note(f"serial flow raised for noise={cls}: {ctx.exc_key(val)}: {str(val)[:200]}")
                if not mixed:
                    ctx.mark_inconclusive(f"serial flow raised on a standard setting: {ctx.exc_key(val)}: {str(val)[:300]}")
                continue
            res0 = val
            base = [record_of(r) for r in res0]
            expected_idx = [[0, s, c] for s in range(spec["n_sample"]) for c in range(len(spec["cases"]))]
            ctx.truth("flow.order", [b["idx"] for b in base] == expected_idx, key=f"{kp}:serial:results-not-in-submission-order",
                      info={"got": [b["idx"] for b in base]})
            ctx.nontrivial("flow", t, spec["true"], spec["noise_true"], spec["seed_data"], spec["seed_qoperation"], spec["n_rep"],
                           spec["num_data"], "serial")
            if i < 1:
                ctx.sample({"kind": "flow", "spec": {kk: spec[kk] for kk in ("type", "true", "noise_class", "seed_data", "seed_qoperation",
                                                                              "n_sample", "n_rep", "num_data")},
                            "cases": [c["est"] + ("T" if c["para"] else "F") + ("+w" if c.get("lw") else "") +
                                      ("+" + ",".join(sorted(c["ao"])) if c.get("ao") else "") for c in spec["cases"]], "workers": k,
                            "history": {"rival_first": rival_first, "position_in_two_setting_run": pos},
                            "record0": {kk: base[0][kk] for kk in ("idx", "true", "empi", "est")}})
            # ---------------- repeated in this process: the SAME test-setting object (its estimator / loss / algorithm /
            # option objects have been used by the other run), in one call together with a rival setting of the same shape
            if not rival_first:
                resc, partc = combined_run(rootc)
                # the results handed out by the baseline run must not be touched by the next call
                now = [record_of(r) for r in res0]
                ctx.truth("flow.repeat", records_equal(base, now), key=f"{kp}:returned-results-changed-by-later-runs",
                          info={"after": "two-test-setting run", "n_before": len(base), "n_now": len(now)})
            plain = partc is None or not records_equal(base, partc)
            if plain:
                # no history run, or it differs: a plain repetition (fresh objects, alone) tells a history fault from
                # plain irreproducibility
                root1 = scratch.new()
                ok, val = ctx.attempt(run_flow, spec, None, root1)
                scratch.drop(root1)
                if ok:
                    plain_recs = [record_of(r) for r in val[1]]
                    # rival first: the baseline is the run with a history; when the plain run agrees with the two-setting run
                    # the baseline is the odd one and the key says so
                    odd_base = rival_first and partc is not None and records_equal(plain_recs, partc)
                    plain_ok = compare_records(ctx, "flow.repeat", f"{kp}:repeat-same-process", base, plain_recs,
                                               suffix=HSUF if odd_base else "")
                else:
                    plain_ok = False
                    ctx.violation(f"{kp}:repeat-same-process:" + ctx.exc_key(val), {})
                if partc is not None and plain_ok:
                    compare_records(ctx, "flow.repeat", f"{kp}:repeat-same-process", base, partc, suffix=HSUF,
                                    info={"rival_first": rival_first, "position": pos})
            else:
                compare_records(ctx, "flow.repeat", f"{kp}:repeat-same-process", base, partc, suffix=HSUF)
                ctx.nontrivial("flow", t, spec["true"], spec["noise_true"], spec["seed_data"], spec["seed_qoperation"], spec["n_rep"],
                               spec["num_data"], "two-settings", rival_first, pos)
            if mixed:
                scratch.drop(root0)
                scratch.drop(rootc)
                continue
            records_out[f"{p['group']}/{i}"] = {"spec": _hx(json.dumps(spec, sort_keys=True).encode()), "base": base, "case": i, "noise_class": cls}
            # ---------------- re-estimation from the stored empirical distributions (of the run alone, or of this
            # case's part of the two-setting run: test_setting_index = pos there)
            use_c = reest_from_combined and resc is not None and not plain
            src_res = [r for r in resc if r.result_index["test_setting_index"] == pos] if use_c else res0
            src_root = rootc if use_c else root0
            if p.get("reest", True):
                reestimate_checks(ctx, ts, src_res, src_root, n_jobs_list=(k,) if (workers_ok and k > 1) else (1,), pick=i)
            if not use_c:
                scratch.drop(rootc)
            else:
                scratch.drop(root0)
            # ---------------- fresh process
            if p.get("fresh"):
                recs, why = child_serial_records(spec, scratch)
                if recs is None:
                    ctx.count("fresh_process_child_failed")
                    ctx.note(f"fresh-process child failed: {why}")
                else:
                    compare_records(ctx, "flow.fresh-process", f"{kp}:fresh-process", base, recs)
            # ---------------- schedules
            if workers_ok:
                reps = 2 if tier == "thorough" else 1
                for lname, pm in configs_for(k):
                    for _ in range(reps):
                        rootp = scratch.new()
                        ok, val = ctx.attempt(run_flow, spec, pm, rootp)
                        scratch.drop(rootp)
                        if not ok:
                            if type(val).__name__ in INFRA_ERRORS or ctx.exc_site(val) == "outside-quara":
                                ctx.count("infra_error:" + type(val).__name__)
                                ctx.note(f"parallel flow {lname} k={k}: {type(val).__name__}: {str(val)[:200]}")
                            else:
                                ctx.violation(f"{kp}:schedule:{lname}:" + ctx.exc_key(val), {"workers": k})
                            continue
                        ctx.count("flow_runs_with_workers")
                        ctx.count(f"flow_runs[{lname},k={k}]")
                        ctx.nontrivial("flow", t, spec["true"], spec["noise_true"], spec["seed_data"], spec["seed_qoperation"],
                                       spec["n_rep"], spec["num_data"], lname, k)
                        compare_records(ctx, "flow.schedule", f"{kp}:schedule:{lname}", base, [record_of(r) for r in val[1]],
                                        info={"workers": k, "parallel_mode": pm})
            # ---------------- the results handed out earlier, asked again after all the later runs
            now = [record_of(r) for r in res0]
            ctx.truth("flow.repeat", records_equal(base, now), key=f"{kp}:returned-results-changed-by-later-runs",
                      info={"changed": [b["idx"] for b, n_ in zip(base, now) if b != n_]})
            if p.get("reest", True):
                reestimate_checks(ctx, ts, src_res, src_root, pick=i + 1, later=True)
            scratch.drop(src_root)
    finally:
        shutdown_workers()
        scratch.close()


# ----------------------------------------------------------- single settings


def build_objects(spec):
    """true / tester objects of a spec through the noise settings (depolarised: no seed needed)"""
    c_sys = shape_csys(spec["shape"])
    tr = noise_setting((spec["type"], spec["true"]), spec["noise_true"]).to_generation_setting(c_sys).generate()
    tes = [noise_setting(b, ns).to_generation_setting(c_sys).generate() for b, ns in zip(spec["testers"], spec["noise_testers"])]
    return c_sys, tr, tes


SINGLE_CASES = {
    "state": [{"est": "lin"}, {"est": "plin", "order": "ineq_eq"}, {"est": "mle"}, {"est": "lsq"}, {"est": "plin"}],
    "povm": [{"est": "lin"}, {"est": "plin", "order": "ineq_eq"}, {"est": "lsq"}, {"est": "plin"}],
    "gate": [{"est": "lin"}, {"est": "plin", "order": "ineq_eq"}, {"est": "lsq"}, {"est": "plin"}],
    "mprocess": [{"est": "lin"}, {"est": "plin", "order": "ineq_eq"}, {"est": "lin"}, {"est": "lsq"}, {"est": "plin"}],
}
SEED_KINDS = ["int-arg", "int-setting", "generator-mt", "generator-pcg", "none", "int-arg"]


def make_sim_setting(spec, case, tr, tes, seed_data):
    from quara.simulation.standard_qtomography_simulation import StandardQTomographySimulationSetting

    name, est, para, loss, algo = make_case(case, WSHAPE.get((spec["type"], spec["shape"])))
    ss = StandardQTomographySimulationSetting(
        name=name, true_object=tr, tester_objects=tes, estimator=est, seed_data=seed_data, n_rep=spec["n_rep"],
        num_data=list(spec["num_data"]), schedules="all", eps_proj_physical=spec["eps_proj"],
        eps_truncate_imaginary_part=EPS_TRUNC, loss=loss[0], loss_option=loss[1], algo=algo[0], algo_option=algo[1])
    return ss, para


def prepare_single(spec, case, tr, tes, kind, seed, init_with_seed):
    import quara.simulation.standard_qtomography_simulation as sim

    seed_data = seed if kind == "int-setting" else (None if kind == "none" else int(seed) + 1)
    ss, para = make_sim_setting(spec, case, tr, tes, seed_data)
    with quiet():
        qt = sim.generate_qtomography(ss, para=para, init_with_seed=init_with_seed and seed_data is not None)
    return ss, para, qt


def exec_single(qt, ss, kind, seed):
    import quara.simulation.standard_qtomography_simulation as sim

    with quiet():
        if kind == "int-arg":
            arg = int(seed)
        elif kind == "generator-mt":
            arg = np.random.Generator(np.random.MT19937(int(seed)))
        elif kind == "generator-pcg":
            arg = np.random.default_rng(int(seed))
        else:
            arg = None
        return sim.execute_simulation(qt, ss, seed_or_generator=arg)


def run_single(spec, case, tr, tes, kind, seed, init_with_seed):
    ss, para, qt = prepare_single(spec, case, tr, tes, kind, seed, init_with_seed)
    return exec_single(qt, ss, kind, seed)


def run_rival_single(spec, case, para, hr):
    """a cheap run of ANOTHER setting of the same shape (same estimator case, other option values, other objects) with
    helper objects of its own; returns its setting, whose loss / algorithm objects have then been used for the rival"""
    import quara.simulation.standard_qtomography_simulation as sim

    rspec = rival_spec(spec, hr)
    rspec["num_data"] = list(spec["num_data"][:2])
    rcase = draw_options({k: v for k, v in case.items() if k not in ("lw", "ao")}, hr)
    c_sys, tr, tes = build_objects(rspec)
    ss, _ = make_sim_setting(rspec, rcase, tr, tes, rspec["seed_data"])
    with quiet():
        qt = sim.generate_qtomography(ss, para=para, init_with_seed=False)
        sim.execute_simulation(qt, ss, seed_or_generator=int(rspec["seed_qoperation"]))
    return ss


def run_container(spec, case, tr, tes, seed):
    """a SimulationResult through public pieces only (positional data generation + execute_estimation); used where
    execute_simulation itself cannot produce one"""
    import quara.simulation.standard_qtomography_simulation as sim

    ss, para = make_sim_setting(spec, case, tr, tes, None)
    with quiet():
        qt = sim.generate_qtomography(ss, para=para, init_with_seed=False)
        g = np.random.Generator(np.random.MT19937(int(seed)))
        seqs = [qt.generate_empi_dists_sequence(tr, list(spec["num_data"]), g) for _ in range(spec["n_rep"])]
        return sim.execute_estimation(qt, ss, seqs)


def shard_single(ctx, mon):
    t = ctx.params["type"]
    for i in ctx.cases(ctx.params["n"]):
        rng = ctx.rng()
        spec = flow_spec(t, rng, ctx.tier, noise="depolarized", light=True)
        case = dict(SINGLE_CASES[t][i % len(SINGLE_CASES[t])], para=bool(rng.random() < 0.7))
        kind = SEED_KINDS[i % len(SEED_KINDS)]
        seed = pick_seed(rng)
        spec["n_rep"] = int(rng.integers(2, 7)) if t in ("state", "povm") else int(rng.integers(2, 4))
        init_with_seed = bool(rng.random() < 0.5)
        c_sys, tr, tes = build_objects(spec)
        hr = ctx.rng(2)  # history stream
        case = draw_options(case, hr)
        ok, prep = ctx.attempt(prepare_single, spec, case, tr, tes, kind, seed, init_with_seed)
        ok, r1 = ctx.attempt(exec_single, prep[2], prep[0], kind, seed) if ok else (ok, prep)
        if not ok:
            ctx.truth("single.runs", False, key=f"execute_simulation:{t}:" + ctx.exc_key(r1), info={"message": str(r1)[:300]})
            continue
        ss, para, qt = prep
        rec1 = record_of(r1)
        ctx.truth("single.runs", True)
        ctx.nontrivial("single", t, spec["true"], spec["noise_true"], case, kind, seed, spec["n_rep"], spec["num_data"])
        if i < 1:
            ctx.sample({"kind": "single", "type": t, "true": spec["true"], "case": case, "seed_kind": kind, "seed": seed,
                        "n_rep": spec["n_rep"], "num_data": spec["num_data"], "empi_digests": rec1["empi"]})
        # ---- history: a rival setting of the same shape is run with the helper objects this run has used
        okr, ss_rival = ctx.attempt(run_rival_single, spec, case, para, hr)
        ctx.count("single_rival_runs" if okr else "single_rival_run_raised:" + type(ss_rival).__name__)
        ctx.truth("single.repeat", record_of(r1) == rec1, key="execute_simulation:returned-result-changed-by-later-run",
                  info={"after": "rival run"})
        if kind == "none":
            continue
        # ---- the repetition: the same tomography object and a setting whose loss / algorithm objects are the ones the
        # RIVAL has used (re-configured from this setting's own options at every estimate, as the estimator documents) and
        # whose estimator is the used one; or the setting stored in the first result (a copy() made by the library); or a
        # copy() of the used setting; the latter two with a tomography generated from them
        how = ["re-used-objects", "via-stored-setting", "via-copy"][int(hr.integers(0, 3))]
        suf = ":" + how

        def again():
            import quara.simulation.standard_qtomography_simulation as sim
            from quara.simulation.standard_qtomography_simulation import StandardQTomographySimulationSetting

            if how == "re-used-objects":
                src = ss_rival if okr else ss
                ss2 = StandardQTomographySimulationSetting(
                    name=ss.name, true_object=ss.true_object, tester_objects=ss.tester_objects, estimator=ss.estimator,
                    seed_data=ss.seed_data, n_rep=ss.n_rep, num_data=ss.num_data, schedules=ss.schedules,
                    eps_proj_physical=ss.eps_proj_physical, eps_truncate_imaginary_part=ss.eps_truncate_imaginary_part,
                    loss=src.loss, loss_option=ss.loss_option, algo=src.algo, algo_option=ss.algo_option)
                return exec_single(qt, ss2, kind, seed)
            ss2 = r1.simulation_setting if how == "via-stored-setting" else ss.copy()
            with quiet():
                qt2 = sim.generate_qtomography(ss2, para=para, init_with_seed=init_with_seed and ss2.seed_data is not None)
            return exec_single(qt2, ss2, kind, seed)

        ok, r2 = ctx.attempt(again)
        rec2 = record_of(r2) if ok else None
        if not ok or not records_equal([rec1], [rec2]):
            # plain repetition with fresh objects: tells a history fault from plain irreproducibility
            ok3, r3 = ctx.attempt(run_single, spec, case, tr, tes, kind, seed, init_with_seed)
            if not ok3:
                ctx.violation(f"execute_simulation:repeat:{kind}:" + ctx.exc_key(r3), {})
                continue
            if not compare_records(ctx, "single.repeat", f"execute_simulation:repeat:{kind}", [rec1], [record_of(r3)]):
                continue
            if not ok:
                ctx.violation(f"execute_simulation:repeat:{kind}:" + ctx.exc_key(r2) + suf, {})
                continue
        compare_records(ctx, "single.repeat", f"execute_simulation:repeat:{kind}", [rec1], [rec2], suffix=suf)
        ctx.nontrivial("single", t, spec["true"], spec["noise_true"], case, kind, seed, spec["n_rep"], spec["num_data"], how)
        ctx.truth("single.repeat", record_of(r1) == rec1, key="execute_simulation:returned-result-changed-by-later-run")


# -------------------------------------------------- physicality check matrix

PHYS_MATRIX = [
    {"est": "lin", "para": True}, {"est": "lin", "para": False},
    {"est": "plin", "para": True}, {"est": "plin", "para": False},
    {"est": "lsq", "para": True, "flags": "11"}, {"est": "lsq", "para": False, "flags": "11"},
    {"est": "lsq", "para": False, "flags": "10"}, {"est": "lsq", "para": True, "flags": "01"},
    {"est": "lsq", "para": False, "flags": "01"}, {"est": "lsq", "para": False, "flags": "00"},
    {"est": "lsq", "para": False, "flags": "none"}, {"est": "mle", "para": False, "flags": "11"},
    {"est": "lsq", "para": True, "flags": "00"}, {"est": "lsq", "para": True, "flags": "none"},
]


def interior_ops(t, d, m, rng):
    """operators of a full-rank physical object: state {'rho'}, povm {'ms'}, maps {'chois'}"""
    I = np.eye(d)
    if t == "State":
        return {"rho": 0.5 * ref.rand_density(d, rng) + 0.5 * I / d}
    if t == "Povm":
        return {"ms": [0.5 * x + 0.5 * I / m for x in ref.rand_povm(d, m, rng)]}
    dep = np.eye(d * d) / d
    if t == "Gate":
        C = ref.choi_of_map(ref.kraus_map(ref.rand_kraus(d, 2, rng)), d)
        return {"chois": [0.5 * C + 0.5 * dep]}
    sets = ref.rand_instrument(d, m, rng, [1] * m)
    return {"chois": [0.5 * ref.choi_of_map(ref.kraus_map(ks), d) + 0.5 * dep / m for ks in sets]}


def perturbed(t, d, ops, which, s):
    """ops with one constraint broken with scale s (the other one kept)"""
    I = np.eye(d)
    if t == "State":
        rho = ops["rho"]
        if which == "eq":
            return {"rho": rho + s * I / d}
        w, v = np.linalg.eigh(rho)
        lo, hi = v[:, 0], v[:, -1]
        return {"rho": rho - s * np.outer(lo, lo.conj()) + s * np.outer(hi, hi.conj())}
    if t == "Povm":
        ms = [np.array(x) for x in ops["ms"]]
        if which == "eq":
            ms[0] = ms[0] + s * I
            return {"ms": ms}
        w, v = np.linalg.eigh(ms[0])
        P = np.outer(v[:, 0], v[:, 0].conj())
        ms[0] = ms[0] - s * P
        ms[1] = ms[1] + s * P
        return {"ms": ms}
    cs = [np.array(x) for x in ops["chois"]]
    if which == "eq":
        cs[0] = cs[0] + s * np.eye(d * d) / d  # + s Tr(X) I/d
        return {"chois": cs}
    w, v = np.linalg.eigh(cs[0])
    P = np.outer(v[:, 0], v[:, 0].conj())
    if t == "Gate":
        # compensation keeps the map trace preserving: I/d (x) Tr_out(P)   (Choi index order: output first)
        tr_out = np.einsum("aiaj->ij", P.reshape(d, d, d, d))
        cs[0] = cs[0] - s * P + s * np.kron(I / d, tr_out)
    else:
        cs[0] = cs[0] - s * P
        cs[1] = cs[1] + s * P
    return {"chois": cs}


def ops_ineq(t, ops):
    if t == "State":
        return ref.psd_violation(ops["rho"])
    if t == "Povm":
        return max(ref.psd_violation(x) for x in ops["ms"])
    return max(ref.psd_violation(x) for x in ops["chois"])


def steer(t, d, ops, which, cls, target):
    """scale s of the perturbation such that the broken constraint has size ~target.
    eq: analytic (state |tr-1| = s; povm sum-I = s I; maps: E^dagger(I)-I = s I, i.e. the candidate norms lie in
    [s, s sqrt(d)]); ineq: bisection on the smallest eigenvalue."""
    if which == "eq":
        if t in ("Gate", "MProcess") and cls == "accept":
            return target / np.sqrt(d)
        return target
    a, b = 0.0, target
    for _ in range(80):
        if ops_ineq(t, perturbed(t, d, ops, which, b)) >= target:
            break
        b *= 2
    for _ in range(60):
        mid = (a + b) / 2
        if ops_ineq(t, perturbed(t, d, ops, which, mid)) >= target:
            b = mid
        else:
            a = mid
    return b


def to_quara(t, c_sys, ops, para):
    B = gen.basis_of(c_sys)
    d = c_sys.dim
    kw = {"on_para_eq_constraint": para, "is_physicality_required": False}
    if t == "State":
        return gen.make_state(c_sys, ops["rho"], **kw)
    if t == "Povm":
        return gen.make_povm(c_sys, ops["ms"], **kw)
    hss = [np.ascontiguousarray(ref.hs_of_choi(B, C).real) for C in ops["chois"]]
    if t == "Gate":
        return gen.make_gate(c_sys, hs=hss[0], **kw)
    return gen.make_mprocess(c_sys, hss=hss, **kw)


def shard_phys(ctx, mon):
    from quara.simulation.standard_qtomography_simulation_check import StandardQTomographySimulationCheck as SC

    t = ctx.params["type"]
    for i in ctx.cases(ctx.params["n"]):
        rng = ctx.rng()
        cfg = dict(PHYS_MATRIX[i % len(PHYS_MATRIX)])
        if t in ("gate", "mprocess") and cfg["est"] == "mle":
            cfg["est"] = "lsq"
        spec = flow_spec(t, rng, ctx.tier, noise="depolarized", light=True)
        spec["num_data"] = [[100, 1000], [100, 300, 1000], [200]][int(rng.integers(0, 3))]
        spec["n_rep"] = int(rng.integers(2, 5))
        spec["eps_proj"] = float(rng.choice([1e-5, 1e-9]))
        c_sys, tr, tes = build_objects(spec)
        hr = ctx.rng(2)  # history stream
        cfg = draw_options(cfg, hr, p=0.4)  # non-default loss / algorithm options of the genuine runs
        genuine_cfg = cfg
        heavy = t in ("gate", "mprocess") and cfg["est"] in ("lsq", "mle")
        if heavy and i % 4 != 0:
            genuine_cfg = {"est": "lin", "para": cfg["para"]}  # container from a cheap run, configuration swapped in below
        sd = pick_seed(rng)
        ok, r = ctx.attempt(run_single, spec, genuine_cfg, tr, tes, "generator-mt", sd, False)
        if not ok:
            ctx.count("phys_execute_simulation_failed:" + type(r).__name__)
            ok, r = ctx.attempt(run_container, spec, genuine_cfg, tr, tes, sd)
        if not ok and genuine_cfg is cfg and cfg["est"] in ("lsq", "mle"):
            ctx.count("phys_genuine_run_failed:" + type(r).__name__)
            genuine_cfg = {"est": "lin", "para": cfg["para"]}
            ok, r = ctx.attempt(run_container, spec, genuine_cfg, tr, tes, sd)
        if not ok:
            ctx.mark_inconclusive(f"execute_simulation raised on a standard setting: {ctx.exc_key(r)}: {str(r)[:300]}")
            continue
        if genuine_cfg is not cfg:
            name, est, para, loss, algo = make_case(cfg)
            ss = r.simulation_setting
            ss.estimator, ss.loss, ss.loss_option, ss.algo, ss.algo_option, ss.name = est, loss[0], loss[1], algo[0], algo[1], name
        label, para, eq_on, ineq_on = enforced_constraints(r)
        # (a) genuine results
        if genuine_cfg is cfg:
            chk = SC(r)
            chk._qv_tag = "genuine"
            with quiet():
                ok, out = ctx.attempt(chk.execute_physicality_violation_check, show_detail=bool(rng.random() < 0.2))
            if not ok:
                ctx.violation(f"physicality_check:{label}:" + ctx.exc_key(out), {"results": "genuine"})
            # the same check object asked again (the contract judges every call)
            with quiet():
                ok, out = ctx.attempt(chk.execute_physicality_violation_check, show_detail=bool(hr.random() < 0.5))
            if not ok:
                ctx.violation(f"physicality_check:{label}:" + ctx.exc_key(out) + ":second-call", {"results": "genuine"})
        # (b) overwritten results
        T = gen.type_of(tr)
        d = c_sys.dim
        m = len(tr.vecs) if T == "Povm" else (len(tr.hss) if T == "MProcess" else 0)
        n_rep, n_nd = len(r.estimation_results), len(spec["num_data"])
        plans = [("none", None)]
        for which in (("eq", "ineq") if not para else ("ineq",)):
            for cls in ("accept", "reject", "big"):
                plans.append((which, cls))
        for which, cls in plans:
            for er in r.estimation_results:
                for kk in range(n_nd):
                    with mon.hs.paused():
                        er.estimated_var_sequence[kk] = np.array(to_quara(T, c_sys, interior_ops(T, d, m, rng), para).to_var(), dtype=np.float64)
            loc = None
            if which != "none":
                thr = THR  # eq can be broken through the variables only without parametrisation (thr 1e-5)
                target = {"accept": 0.09 * thr, "reject": 11 * thr, "big": 1e-2}[cls]
                base_ops = interior_ops(T, d, m, rng)
                s = steer(T, d, base_ops, which, cls, target)
                bad = perturbed(T, d, base_ops, which, s)
                rep = int(rng.integers(0, n_rep))
                kk = n_nd - 1 if rng.random() < 0.5 else int(rng.integers(0, n_nd))
                if rng.random() < 0.3:
                    rep = n_rep - 1
                with mon.hs.paused():
                    r.estimation_results[rep].estimated_var_sequence[kk] = np.array(to_quara(T, c_sys, bad, para).to_var(), dtype=np.float64)
                loc = (rep, kk)
            chk = SC(r)
            chk._qv_tag = f"overwritten:{which}:{cls}"
            with quiet():
                ok, out = ctx.attempt(chk.execute_physicality_violation_check, show_detail=False)
            if not ok:
                ctx.violation(f"physicality_check:{label}:" + ctx.exc_key(out), {"results": chk._qv_tag})
            if hr.random() < 0.35:
                # the same check object asked again, printing details this time (other branch of the routines)
                with quiet():
                    ok, out = ctx.attempt(chk.execute_physicality_violation_check, show_detail=True)
                if not ok:
                    ctx.violation(f"physicality_check:{label}:" + ctx.exc_key(out) + ":second-call", {"results": chk._qv_tag})
            ctx.nontrivial("phys", t, cfg, which, cls, loc, spec["n_rep"], spec["num_data"], i)
        if i < 1:
            ctx.sample({"kind": "physicality-check", "type": t, "estimator": label, "para": para, "eq_enforced": eq_on,
                        "ineq_enforced": ineq_on, "plans": plans, "thr": THR})


# --------------------------------------------------------------- noise models


def rand_base(t, c_sys, rng):
    if t == "state":
        return gen.rand_state(c_sys, rng, rank=int(rng.integers(1, c_sys.dim + 1)), is_physicality_required=False)
    if t == "povm":
        return gen.rand_povm(c_sys, int(rng.integers(2, 5)), rng, is_physicality_required=False)
    if t == "gate":
        return gen.rand_gate(c_sys, rng, r=int(rng.integers(1, 4)), is_physicality_required=False)
    return gen.rand_mprocess(c_sys, int(rng.integers(2, 4)), rng, is_physicality_required=False)


NOISE_NAMES = {
    ("state", "S1"): ["x0", "x1", "y0", "y1", "z0", "z1", "a"], ("povm", "S1"): ["x", "y", "z"],
    ("gate", "S1"): TRUE_NAMES[("gate", "S1")], ("mprocess", "S1"): TRUE_NAMES[("mprocess", "S1")],
    ("state", "S3"): TRUE_NAMES[("state", "S3")], ("povm", "S3"): ["01x3", "01y3", "z3", "12x3", "02y3"],
    ("gate", "S3"): ["identity"], ("mprocess", "S3"): ["z3-type1", "z3-type2"],
}


def shard_noise(ctx, mon):
    import quara.objects.qoperation_typical as qt
    import quara.objects.tester_typical as tt
    from quara.simulation.standard_qtomography_simulation import NoiseSetting

    t = ctx.params["type"]
    for i in ctx.cases(ctx.params["n"]):
        rng = ctx.rng()
        shape = "S3" if (i % 5 == 4) else "S1"
        c_sys = shape_csys(shape)
        names = NOISE_NAMES[(t, shape)]
        name = names[int(rng.integers(0, len(names)))]
        p = [0.0, 1.0, float(rng.random()), float(10 ** rng.uniform(-6, -1)), 1.0 - float(10 ** rng.uniform(-6, -1))][(i // 2) % 5]
        if i % 2 == 0:
            # ---- depolarised: three generators
            base = (t, name) if rng.random() < 0.6 else rand_base(t, c_sys, rng)
            hr = ctx.rng(2)  # history stream
            p2 = float(hr.choice([0.0, 1.0, hr.random(), hr.random()]))
            name2 = names[int(hr.integers(0, len(names)))]
            ok, ga = ctx.attempt(lambda: NoiseSetting(qoperation_base=base, method="depolarized", para={"error_rate": p})
                                 .to_generation_setting(c_sys))
            ok, o = ctx.attempt(ga.generate) if ok else (ok, ga)
            if not ok:
                ctx.violation(f"DepolarizedQOperationGenerationSetting:{t}:" + ctx.exc_key(o), {"p": p})
            else:
                # history: a second generation-setting object of the same class and size (other rate / base) generates in
                # between, then the first one is asked again; the contract judges every call against its own setting
                d0 = obj_digest(o)
                ok, o2 = ctx.attempt(lambda: NoiseSetting(qoperation_base=(t, name2), method="depolarized", para={"error_rate": p2})
                                     .to_generation_setting(c_sys).generate())
                if not ok:
                    ctx.violation(f"DepolarizedQOperationGenerationSetting:{t}:" + ctx.exc_key(o2), {"p": p2})
                ok, o3 = ctx.attempt(ga.generate)
                if not ok:
                    ctx.violation(f"DepolarizedQOperationGenerationSetting:{t}:" + ctx.exc_key(o3) + ":second-call", {"p": p})
                ctx.truth("noise.depolarized-mix", obj_digest(o) == d0,
                          key=f"DepolarizedQOperationGenerationSetting:{t}:returned-object-changed-by-later-call")
            ok, o = ctx.attempt(qt.generate_qoperation_depolarized, mode=t, name=name, c_sys=c_sys, error_rate=p)
            if not ok:
                ctx.violation(f"generate_qoperation_depolarized:{t}:" + ctx.exc_key(o), {"p": p})
            else:
                d0 = obj_digest(o)
                ok, o2 = ctx.attempt(qt.generate_qoperation_depolarized, mode=t, name=name2, c_sys=c_sys, error_rate=p2)
                if not ok:
                    ctx.violation(f"generate_qoperation_depolarized:{t}:" + ctx.exc_key(o2), {"p": p2})
                ctx.truth("noise.depolarized-mix", obj_digest(o) == d0,
                          key=f"generate_qoperation_depolarized:{t}:returned-object-changed-by-later-call")
            if t in ("state", "povm"):
                fn = tt.generate_tester_states_depolarized if t == "state" else tt.generate_tester_povms_depolarized
                sub = [names[int(j)] for j in rng.integers(0, len(names), size=int(rng.integers(1, 4)))]
                rates = p if rng.random() < 0.5 else [float(rng.choice([0.0, 1.0, rng.random()])) for _ in sub]
                ok, o = ctx.attempt(fn, c_sys, sub, rates)
                if not ok:
                    ctx.violation(f"{fn.__name__}:" + ctx.exc_key(o), {"rates": rates})
            ctx.nontrivial("dep", t, shape, name if isinstance(base, tuple) else np.hstack([np.ravel(x) for x in raw_list(base)]), p)
            if i < 2:
                ctx.sample({"kind": "noise-depolarized", "type": t, "shape": shape, "base": name, "p": p})
        else:
            # ---- random effective Lindbladian
            sh = float(10 ** rng.uniform(-3, 0)) if rng.random() < 0.8 else float(rng.choice([1e-3, 1.0, 0.0]))
            sk = float(10 ** rng.uniform(-3, 0)) if rng.random() < 0.8 else float(rng.choice([1e-3, 1.0]))
            seed = pick_seed(rng)
            ok, g = ctx.attempt(lambda: NoiseSetting(qoperation_base=(t, name), method="random_effective_lindbladian",
                                                     para={"lindbladian_base": "identity", "strength_h_part": sh, "strength_k_part": sk})
                                .to_generation_setting(c_sys))
            if not ok:
                ctx.violation(f"RandomEffectiveLindbladianGenerationSetting:{t}:" + ctx.exc_key(g), {"sh": sh, "sk": sk})
                continue
            ok1, o1 = ctx.attempt(g.generate, seed)
            ok2, o2 = ctx.attempt(g.generate, np.random.default_rng(seed))
            ok3, o3 = ctx.attempt(g.generate, seed)
            ok4, o4 = ctx.attempt(g.generate, np.random.default_rng(seed))
            if not (ok1 and ok2 and ok3 and ok4):
                bad = [o for ok_, o in ((ok1, o1), (ok2, o2), (ok3, o3), (ok4, o4)) if not ok_][0]
                ctx.violation(f"RandomEffectiveLindbladianGenerationSetting:{t}:" + ctx.exc_key(bad), {"sh": sh, "sk": sk})
                continue
            ctx.truth("noise.lindbladian-reproducible", obj_digest(o1[0]) == obj_digest(o3[0]),
                      key=f"RandomEffectiveLindbladianGenerationSetting:{t}:same-int-seed-different-object")
            ctx.truth("noise.lindbladian-reproducible", obj_digest(o2[0]) == obj_digest(o4[0]),
                      key=f"RandomEffectiveLindbladianGenerationSetting:{t}:same-generator-state-different-object")
            # history: another setting object of the same class and size generates in between; then a FRESH setting object
            # with the first one's parameters, and the used one, are asked with the same seed again
            hr = ctx.rng(2)
            d1 = obj_digest(o1[0])
            mk = lambda nm, a, b: NoiseSetting(qoperation_base=(t, nm), method="random_effective_lindbladian",  # noqa: E731
                                               para={"lindbladian_base": "identity", "strength_h_part": a, "strength_k_part": b}
                                               ).to_generation_setting(c_sys)
            okr, orv = ctx.attempt(lambda: mk(names[int(hr.integers(0, len(names)))], float(10 ** hr.uniform(-3, 0)),
                                              float(10 ** hr.uniform(-3, 0))).generate(pick_seed(hr)))
            ctx.count("lindbladian_rival_generated" if okr else "lindbladian_rival_raised:" + type(orv).__name__)
            ok5, o5 = ctx.attempt(lambda: mk(name, sh, sk).generate(seed))
            ok6, o6 = ctx.attempt(g.generate, seed)
            for ok_, o_, how in ((ok5, o5, "fresh-setting-object"), (ok6, o6, "re-used-object")):
                if not ok_:
                    ctx.violation(f"RandomEffectiveLindbladianGenerationSetting:{t}:" + ctx.exc_key(o_) + f":{how}-after-other-setting",
                                  {"sh": sh, "sk": sk})
                    continue
                ctx.truth("noise.lindbladian-reproducible", obj_digest(o_[0]) == d1,
                          key=f"RandomEffectiveLindbladianGenerationSetting:{t}:same-int-seed-different-object:{how}-after-other-setting")
            ctx.truth("noise.lindbladian-reproducible", obj_digest(o1[0]) == d1,
                      key=f"RandomEffectiveLindbladianGenerationSetting:{t}:returned-object-changed-by-later-call")
            ctx.nontrivial("rl", t, shape, name, sh, sk, seed)
            if i < 2:
                ctx.sample({"kind": "noise-lindbladian", "type": t, "shape": shape, "base": name, "strength_h": sh, "strength_k": sk,
                            "seed": seed, "ref_violation": phys_err(o1[0])})


# ====================================================================== shards


def shards(tier, seed):
    q = tier == "quick"
    out = []
    # flows under workers: 8 shards (4 types x worker count 2 / 4); the two shards of a type share their settings
    for t in TYPES:
        heavy = t in ("gate", "mprocess")
        n = (2 if t == "state" else 1) if q else {"state": 6, "povm": 3, "gate": 3, "mprocess": 3}[t]
        for k in (2, 4):
            noises = ["depolarized", "lindbladian"] if not heavy or not q else (["depolarized"] if t == "gate" else ["lindbladian"])
            out.append({"kind": "flow", "type": t, "workers": k, "group": f"w:{t}", "n": n, "noises": noises,
                        "reest": k == 2, "fresh": k == 4, "weight": 100 + (20 if heavy else 0) + k})
    # serial flows: more settings, fresh-process child, mixed noise methods
    for t in TYPES:
        heavy = t in ("gate", "mprocess")
        for part in (["a"] if q else ["a", "b"]):
            out.append({"kind": "flow", "type": t, "workers": 0, "group": f"s:{t}:{part}",
                        "n": {"state": 3, "povm": 3, "gate": 2, "mprocess": 1}[t] if q else {"state": 8, "povm": 6, "gate": 4, "mprocess": 3}[t],
                        "noises": ["lindbladian", "depolarized"], "reest": True, "fresh": True, "weight": 60 if heavy else 40})
    out.append({"kind": "flow", "type": "state", "workers": 0, "group": "mixed", "n": 3 if q else 9,
                "noises": ["dep+rl", "ideal+rl", "rl+dep"], "reest": False, "fresh": False, "weight": 5})
    if not q:
        for k in (2, 4):
            out.append({"kind": "flow", "type": "state", "shape": "S3", "workers": k, "group": "w:state3", "n": 2,
                        "noises": ["depolarized", "lindbladian"], "reest": k == 2, "fresh": k == 4, "weight": 130})
    for t in TYPES:
        heavy = t in ("gate", "mprocess")
        out.append({"kind": "single", "type": t, "n": (24 if heavy else 48) if q else (120 if heavy else 360), "weight": 30})
        out.append({"kind": "phys", "type": t, "n": (42 if heavy else 84) if q else (280 if heavy else 700), "weight": 35 if heavy else 20})
        out.append({"kind": "noise", "type": t, "n": 120 if q else 1200, "weight": 10})
    return out


def run_shard(ctx):
    import resource

    mon = Mon(ctx).install()
    try:
        kind = ctx.params.get("kind")
        if kind == "flow":
            shard_flow(ctx, mon)
        elif kind == "single":
            shard_single(ctx, mon)
        elif kind == "phys":
            shard_phys(ctx, mon)
        elif kind == "noise":
            shard_noise(ctx, mon)
        else:
            ctx.mark_inconclusive(f"unknown shard kind {kind}")
    finally:
        mon.hs.uninstall()
        shutdown_workers()
        a, b = resource.getrusage(resource.RUSAGE_SELF), resource.getrusage(resource.RUSAGE_CHILDREN)
        ctx.extra["cpu_s"] = round(a.ru_utime + a.ru_stime + b.ru_utime + b.ru_stime, 2)
        ctx.extra["hook_counts"] = mon.hs.counts
        ctx.count(f"cpu_s[{ctx.params.get('kind')}:{ctx.params.get('type')}:{ctx.params.get('workers', '-')}:{ctx.params.get('group', '-')}]",
                  int(round(ctx.extra["cpu_s"])))


def finalize(merged, ctx):
    """offline checker over the records of all shards: the serial records of one
    setting produced by different processes must be identical; the flow must
    have been run under workers at all."""
    groups = {}
    cpu = 0.0
    for e in merged["extra"]:
        ex = e["extra"] or {}
        cpu += float(ex.get("cpu_s", 0.0))
        for key, rec in (ex.get("records") or {}).items():
            groups.setdefault(key, []).append((e, rec))
    ctx.count("cpu_s_all_shards", int(round(cpu)))
    npairs = 0
    for key in sorted(groups):
        lst = groups[key]
        e0, r0 = lst[0]
        for e1, r1 in lst[1:]:
            if r0["spec"] != r1["spec"]:
                ctx.mark_inconclusive(f"group {key}: shards built different settings (harness bug)")
                continue
            # witness = the second shard / case (replay re-runs that case; the in-shard checks of that case are re-evaluated)
            ctx.params, ctx.shard_index, ctx.cur_case = e1["params"], e1["shard_index"], r1.get("case")
            npairs += 1
            compare_records(ctx, "flow.fresh-process", f"flow:noise={r1.get('noise_class')}:fresh-process", r0["base"], r1["base"],
                            info={"group": key, "shards": [e0["shard_index"], e1["shard_index"]]})
    ctx.params, ctx.shard_index, ctx.cur_case = {"finalize": True}, 10 ** 6, None
    ctx.count("cross_shard_record_pairs", npairs)
    if merged["counters"].get("flow_runs_with_workers", 0) == 0:
        ctx.mark_inconclusive("the flow was never run with more than one worker")
    if merged["counters"].get("worker_probe_ok", 0) == 0:
        ctx.mark_inconclusive("no shard could start loky workers importing quara from the tree under test")


# ------------------------------------------------------------ child (fresh process)


def _child_main(argv):
    spec_file, out_file = argv
    env.bootstrap()
    import warnings

    warnings.filterwarnings("ignore")
    np.seterr(all="ignore")
    job = json.load(open(spec_file))
    try:
        ts, res = run_flow(job["spec"], None, job["root"])
        recs = [record_of(r) for r in res]
    finally:
        shutil.rmtree(job["root"], ignore_errors=True)
    tmp = out_file + ".tmp"
    json.dump(recs, open(tmp, "w"))
    os.replace(tmp, out_file)


if __name__ == "__main__":
    if len(sys.argv) >= 4 and sys.argv[1] == "--child":
        _child_main(sys.argv[2:4])
    else:
        print("usage: python -m qv.checks.c15 --child <spec.json> <out.json>")
        sys.exit(2)
