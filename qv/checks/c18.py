"""C18  Effective Lindbladian generators decompose, recompose and exponentiate correctly.

Contracts on the generator functions, the extraction routines, the part
routines (both mode_basis), the verdicts, the projections, `to_gate`, the two
CompositeSystem sparse tables and the random-generation setting.  Every oracle
is computed from operators with qv.ref (GKSL right-hand side, Choi matrix ->
process matrix chi -> (H, J, K)), never from another quara function.

History / combination steps (the statement holds for every generator object and every call, whatever happened before;
the plain workload builds each object directly, with default options, and asks it once).  After the plain work of a
case the same oracles judge (keys carry the suffix of the step; only public, documented operations are used; nothing is
compared bit by bit):
  requery        the receiver again after its projections / exponential                      (no suffix: hook keys)
  provenance     objects the library handed out: copy() (:via-copy), scalar * / + - between products, zero / origin
                 objects (:via-arithmetic, :via-zero-or-origin-object), var conversion there and back (:via-var), pickle
                 round trip (:via-pickle), results of the projections projected / asked again (:via-projection-result)
  setters        a copy asked, then set_mode_proj_order / eps_truncate_imaginary_part (:after-option-setters), then
                 set_zero() and asked again (:after-set_zero); the composite system after its public delete_* table
                 methods (:after-table-delete: builders, K part, projection use the rebuilt tables)
  interleaving   the case's generator and a second one - on a sibling CompositeSystem of the same dimensions with another
                 identity-first Hermitian basis, from the same (H, K) input matrices or from other ones (:sibling-system),
                 or on the same system (:rival-object) - asked alternately with the basis modes / tolerances crossed; the
                 arrays the first one returned are compared with private copies afterwards (array-held-by-the-caller...)
  options        constructor / builder options away from the defaults (required physicality on physical generators, flags,
                 projection order, thresholds), on the object and on its copy / product / projection
                 (:non-default-options[:via-...]); verdict ladder again in another order, positional / keyword forms and
                 unequal tolerances for the two constraints (:second-call)
  re-use         a random-generation setting asked again (generator / integer seed), a second setting on the same system and
                 one on the sibling system in between, the settings of earlier cases once more (:re-used-setting,
                 :second-setting); catalogue names generated again after another name (:second-call)
Which steps a case gets depends on (case number, shard) only; their draws come from the case's second random stream.
What copy(), arithmetic or the var conversion return is not judged here (EffectiveLindbladian.generate_from_var raises a
TypeError on the pinned tree: recorded as an observation) - only that the objects they return obey the statement.

Conventions (documented in quara and used here as definitions)
  L(X) = -i[H,X] + J X + X J + sum_{a,b>=1} K_ab B_a X B_b^dagger
  H Hermitian and traceless (a multiple of the identity is invisible), J Hermitian
  *including* its identity component, K Hermitian on the traceless basis part.
  For a GKSL generator J = -1/2 sum K_ab B_b^dagger B_a.
The decomposition of a Hermiticity-preserving map is unique, so the reference
(H,J,K) is read off the process matrix chi = V^dagger Choi V.
"""
import numpy as np

from qv import gen, ref
from qv.monitor import HookSet

ID = "C18"
RULE = ("generators on S1,S3,S2 built by from_h / from_hk / from_k / from_hjk / from_jump_operators and directly from the "
        "reference GKSL right-hand side: random Hermitian H (non-zero trace), K PSD of every rank 0..d^2-1, K with "
        "degenerate spectrum, indefinite K of controlled negativity, 1..d^2 jump operators with non-zero trace, overall "
        "strength/time factor 10^U(-3,1); verdict cases add first rows of controlled size on an atol ladder 1e-13..1e-2; "
        "random-generation settings with strengths over 4 decades; catalogue Hamiltonians. A case is distinct by "
        "(shape,builder,K class,rank,rounded hs) and non-trivial when the generator is not the zero map. History steps "
        "per case (rotating menu, second random stream): the generator re-queried after its projections; objects obtained "
        "by copy / arithmetic / zero+origin objects / var conversion / pickle / as projection results; a copy after "
        "set_mode_proj_order, the eps setter and set_zero; the composite system after its delete_* table methods; the "
        "generator interleaved with a second one on a sibling composite system (other basis, same dimensions) or on the "
        "same system, basis modes and tolerances crossed, returned arrays re-read; non-default constructor / builder "
        "options; verdict ladder in another order with unequal tolerances; random-generation settings re-used, a second "
        "and a sibling-system setting in between")
_EL = "quara/objects/effective_lindbladian.py:"
ANCHORS = [_EL + f"EffectiveLindbladian.{m}" for m in (
    "calc_h_mat", "calc_j_mat", "calc_k_mat", "calc_h_part", "calc_j_part", "calc_k_part", "calc_d_part",
    "calc_proj_eq_constraint", "calc_proj_ineq_constraint", "is_tp", "is_cp", "to_gate")] + [_EL + f for f in (
        "generate_effective_lindbladian_from_h", "generate_effective_lindbladian_from_hk",
        "generate_effective_lindbladian_from_k", "generate_effective_lindbladian_from_hjk",
        "generate_effective_lindbladian_from_jump_operators", "generate_j_part_cb_from_jump_operators",
        "generate_k_part_cb_from_jump_operators", "generate_d_part_gb_from_jump_operators",
        "_calc_j_mat_from_k_mat_with_sparsity", "_calc_k_part_from_k_mat_with_sparsity")] + [
    "quara/objects/composite_system.py:CompositeSystem._calc_basis_basisconjugate_sparse",
    "quara/simulation/random_effective_lindbladian_generation_setting.py:RandomEffectiveLindbladianGenerationSetting.generate_random_effective_lindbladian",
    "quara/objects/effective_lindbladian_typical.py:generate_effective_lindbladian_from_gate_name",
]
REQUIRED_REACH = ANCHORS
REQUIRED_ORACLES = [
    "from_h:gksl", "from_hk:gksl", "from_k:gksl", "from_hjk:action", "from_jump_operators:gksl",
    "calc_h_mat", "calc_j_mat", "calc_k_mat", "roundtrip:extract->from_hjk",
    "parts:h+j+k=whole:hermitian_basis", "parts:h+j+k=whole:comp_basis", "parts:d=j+k:hermitian_basis", "parts:d=j+k:comp_basis",
    "EffectiveLindbladian.is_physical", "EffectiveLindbladian.is_tp", "EffectiveLindbladian.is_cp",
    "to_gate:expm", "to_gate:physical", "calc_proj_eq_constraint:first-row-zero", "calc_proj_eq_constraint:rest-unchanged",
    "calc_proj_ineq_constraint:K-psd", "calc_proj_ineq_constraint:fixes-physical",
    "table:basis_basisconjugate_T_sparse_from_1", "table:basishermitian_basis_T_from_1",
    "random_setting:gksl", "typical:hs=-i[H,.]",
]
MIN_EVALS = {"quick": 20000, "thorough": 150000}
WATCHDOG = {"quick": 900, "thorough": 3600}
ASSUMPTIONS = [
    "the matrix bases are orthonormal, Hermitian, identity-first (verified numerically per shard; quara requires it of an "
    "EffectiveLindbladian), so chi = V^dagger Choi V is the process matrix",
    "scipy.linalg.expm is trusted (cross-checked per evaluation by a scaling-and-squaring Taylor series written here)",
    "var conversion of EffectiveLindbladian is outside the statement: observed behaviour is recorded as a note only",
    "history steps use public operations only (copy, * / + -, generate_zero_obj / generate_origin_obj, var conversion functions, "
    "pickle, set_zero, set_mode_proj_order, the eps_truncate_imaginary_part setter, CompositeSystem.delete_* table methods); what these "
    "operations return is not judged, only that the returned generator objects obey the statement",
]

TP, TF = 1e-10, 1e-7  # x max(1, ||input||)
ATOLS = [1e-13, 1e-10, 1e-8, 1e-5, 1e-2]
EPS = 2.220446049250313e-16
K_J = "calc_j_mat:loop-over-basis[1:]:identity-component-dropped"
MODES = ("hermitian_basis", "comp_basis")


# ------------------------------------------------------------------ reference


class Model:
    """reference view of one CompositeSystem"""

    def __init__(self, c_sys):
        self.c_sys = c_sys
        self.B = gen.basis_of(c_sys)
        self.d = self.B[0].shape[0]
        self.n = len(self.B)
        self.Bt = np.array(self.B[1:])
        self.V = np.array([b.reshape(-1) for b in self.B]).T  # columns = row-major vec(B_a)
        self.units = ref.matrix_units(self.d)
        G, _ = ref.gram(self.B)
        self.basis_err = max(float(np.max(np.abs(G - np.eye(self.n)))),
                             float(np.max(np.abs(self.B[0] - np.eye(self.d) / np.sqrt(self.d)))),
                             max(ref.herm_violation(b) for b in self.B))

    def mat(self, fn, mode="hermitian_basis"):
        return ref.hs_of_map(self.B if mode == "hermitian_basis" else self.units, fn)


def fro(x):
    return float(np.linalg.norm(np.asarray(x).ravel()))


def mx(x):
    x = np.asarray(x)
    return float(np.max(np.abs(x))) if x.size else 0.0


def map_h(H):
    return lambda X: -1j * (H @ X - X @ H)


def map_j(J):
    return lambda X: J @ X + X @ ref.dag(J)


def map_k(M, K):
    T = np.einsum("ab,aij->bij", K, M.Bt)
    Bc = M.Bt.conj()
    return lambda X: np.einsum("bij,jk,blk->il", T, X, Bc)


def j_of_k(M, K):
    """-1/2 sum K_ab B_b^dagger B_a"""
    T = np.einsum("ab,aij->bij", K, M.Bt)
    return -0.5 * np.einsum("bji,bjk->ik", M.Bt.conj(), T)


def map_hjk(M, H, J, K):
    fh, fj, fk = map_h(H), map_j(J), map_k(M, K)
    return lambda X: fh(X) + fj(X) + fk(X)


def jumps_of_k(M, K):
    """c_k = sqrt(lambda_k) sum_a u_ak B_a over the traceless part, or None if K is not PSD"""
    w, u = np.linalg.eigh(ref.herm_part(K))
    if w.size and w[0] < -1e-13 * max(1.0, abs(w[-1])):
        return None
    return [np.sqrt(w[k]) * np.einsum("a,aij->ij", u[:, k], M.Bt) for k in range(len(w)) if w[k] > 0]


def map_gksl_k(M, H, K):
    """GKSL right-hand side for (H,K): through the jump operators of the eigen-decomposition when K is PSD,
    through the non-diagonal form sum K_ab (B_a X B_b^+ - 1/2{B_b^+ B_a, X}) otherwise"""
    cs = jumps_of_k(M, K)
    if cs is not None:
        return lambda X: ref.gksl_rhs(H, cs, X)
    return map_hjk(M, H, j_of_k(M, K), K)


def ref_hjk(M, hs):
    """(H,J,K) of the map with matrix hs, from its Choi matrix"""
    C = ref.choi_of_hs(M.B, np.asarray(hs, dtype=np.complex128))
    chi = ref.dag(M.V) @ C @ M.V
    d = M.d
    G = chi[0, 0].real / (2 * d) * np.eye(d, dtype=np.complex128) + np.einsum("a,aij->ij", chi[1:, 0], M.Bt) / np.sqrt(d)
    J = ref.herm_part(G)
    H = 1j * (G - ref.dag(G)) / 2
    return H, J, chi[1:, 1:], chi


def traceless(X):
    d = X.shape[0]
    return X - np.trace(X) / d * np.eye(d)


def expm_taylor(A):
    A = np.asarray(A, dtype=np.float64)
    nrm = np.linalg.norm(A, 1)
    s = max(0, int(np.ceil(np.log2(nrm))) + 2) if nrm > 0 else 0
    A2 = A / 2.0 ** s
    E = np.eye(A.shape[0])
    term = np.eye(A.shape[0])
    for k in range(1, 26):
        term = term @ A2 / k
        E = E + term
    for _ in range(s):
        E = E @ E
    return E


def self_test(M, rng):
    """identities tying the reference conventions together; returns the worst error"""
    d = M.d
    H = ref.rand_herm(d, rng)
    cs = [rng.standard_normal((d, d)) + 1j * rng.standard_normal((d, d)) for _ in range(2)]
    hs = M.mat(lambda X: ref.gksl_rhs(H, cs, X))
    worst = mx(hs.imag)
    Hr, Jr, Kr, chi = ref_hjk(M, hs.real)
    worst = max(worst, mx(M.mat(map_hjk(M, Hr, Jr, Kr)) - hs), ref.herm_violation(chi), ref.psd_violation(Kr), abs(np.trace(Hr)))
    # traceless jump operators: J = -1/2 sum c^+ c, H = H - tr, K = Gram of coefficients
    ct = [traceless(c) for c in cs]
    hs2 = M.mat(lambda X: ref.gksl_rhs(H, ct, X))
    H2, J2, K2, _ = ref_hjk(M, hs2.real)
    A = np.array([[np.trace(ref.dag(b) @ c) for c in ct] for b in M.B[1:]])
    worst = max(worst, mx(H2 - traceless(H)), mx(J2 + 0.5 * sum(ref.dag(c) @ c for c in ct)), mx(K2 - A @ ref.dag(A)),
                mx(J2 - j_of_k(M, K2)), mx(M.mat(map_gksl_k(M, H, K2)) - hs2))
    # comp-basis matrix of X -> A X B^+ is kron(A, conj B)
    a, b = cs
    worst = max(worst, mx(M.mat(lambda X: a @ X @ ref.dag(b), "comp_basis") - np.kron(a, b.conj())))
    # exponential
    from scipy.linalg import expm

    worst = max(worst, mx(expm(hs2.real) - expm_taylor(hs2.real)) / max(1.0, mx(expm(hs2.real))))
    return worst


def zone(lo, hi, atol, noise=0.0):
    if hi <= atol / 10 and noise <= atol / 4:
        return "accept"
    if lo >= 10 * atol + noise:
        return "reject"
    return "free"


# -------------------------------------------------------------------- monitor


class Judge:
    def __init__(self, ctx):
        self.ctx = ctx
        self.models = {}
        self.cache = {}
        self.tables = {}
        self.expect_physical = None  # set by the driver: reference says the current generator is physical
        self.tag = ""  # suffix of the keys issued while the driver is inside a history step (see phase())

    def model(self, c_sys):
        m = self.models.get(id(c_sys))
        if m is None or m.c_sys is not c_sys:
            m = Model(c_sys)
            if m.basis_err > 1e-12:
                self.ctx.mark_inconclusive(f"basis not orthonormal Hermitian identity-first: {m.basis_err}")
            self.models[id(c_sys)] = m
        return m

    def view(self, obj):
        """reference data of a generator object (cached per object / hs array)"""
        k = id(obj)
        c = self.cache.get(k)
        hs = obj.hs
        if c is None or c["obj"] is not obj or c["hs_id"] != id(hs) or not np.array_equal(c["hs"], hs):
            M = self.model(obj.composite_system)
            H, J, K, chi = ref_hjk(M, hs)
            row = np.asarray(hs[0], dtype=float)
            e_row = mx(row)
            e_tr = max(abs(np.trace(ref.apply_hs(M.B, hs, b))) for b in M.B)
            c = {"obj": obj, "hs_id": id(hs), "hs": np.array(hs, copy=True), "M": M, "H": H, "J": J, "K": K,
                 "scale": max(1.0, fro(hs)), "eq_lo": min(e_row, e_tr), "eq_hi": max(e_tr, np.sqrt(M.d) * fro(row)),
                 "ineq": max(ref.psd_violation(K), ref.herm_violation(K) / 2), "noise": 20 * EPS * fro(hs)}
            if len(self.cache) > 32:
                self.cache.clear()
            self.cache[k] = c
        return c

    # ---- J classification (defect: loop over basis[1:] with the delta on the wrong element)
    def judge_j(self, oracle, M, got, Jref, scale, info=None):
        ctx = self.ctx
        err = mx(got - Jref) / scale
        key = "calc_j_mat:wrong-anticommutator-matrix"
        if err >= TF:
            j0 = np.trace(ref.dag(M.B[0]) @ Jref)
            j1 = np.trace(ref.dag(M.B[1]) @ Jref)
            Jbad = Jref - j0 * M.B[0] - 0.5 * j1 * M.B[1]
            if mx(got - Jbad) / scale <= TP:
                key = K_J
        ctx.num(oracle, err, TP, TF, key=key, info=dict(info or {}, trJ_ref=float(np.trace(Jref).real), trJ_got=float(np.trace(got).real)))


def _mode_of(a, kw):
    return kw.get("mode_basis", a[0] if a else "hermitian_basis")


class Tagged:
    """recorder proxy handed to the hooks: while the driver is inside a history step (phase()) the mechanism keys of
    the verdicts get the step's suffix, so a violation that only a history can produce names it"""

    def __init__(self, ctx, judge):
        self._c, self._j = ctx, judge

    def _k(self, key):
        return key if key is None else key + self._j.tag

    def num(self, oracle, err, tol_pass, tol_fail, key=None, info=None):
        return self._c.num(oracle, err, tol_pass, tol_fail, key=self._k(key), info=info)

    def truth(self, oracle, ok, key=None, info=None):
        return self._c.truth(oracle, ok, key=self._k(key), info=info)

    def violation(self, key, info=None):
        return self._c.violation(self._k(key), info)

    def __getattr__(self, name):
        return getattr(self._c, name)


class phase:
    """with phase(Jd, ":via-copy"): ...  -  keys issued by the hooks inside carry the suffix"""

    def __init__(self, judge, tag):
        self.j, self.tag = judge, tag

    def __enter__(self):
        self.old, self.j.tag = self.j.tag, self.tag

    def __exit__(self, *exc):
        self.j.tag = self.old
        return False


def install(ctx):
    import quara.objects.effective_lindbladian as elm
    import quara.simulation.random_effective_lindbladian_generation_setting as rsm
    from quara.objects.composite_system import CompositeSystem
    from quara.settings import Settings

    EL = elm.EffectiveLindbladian
    hs = HookSet(ctx)
    Jd = Judge(ctx)
    raw = ctx  # the jump-operator oracles keep their plain keys (known findings are matched by exact key)
    ctx = Jd.ctx = Tagged(raw, Jd)

    # ---------------- extraction
    def pre_copy(self, *a, **kw):
        return np.array(self.hs, copy=True)

    def pure(label, snap, self):
        if snap is not None:
            ctx.truth(f"{label}:pure", np.array_equal(snap, self.hs), key=f"{label}:mutates-operand-hs")

    def post_h(res, snap, self):
        v = Jd.view(self)
        ctx.num("calc_h_mat", mx(traceless(np.asarray(res)) - v["H"]) / v["scale"], TP, TF, key="calc_h_mat:wrong-hamiltonian-matrix")
        pure("calc_h_mat", snap, self)

    def post_j(res, snap, self):
        v = Jd.view(self)
        Jd.judge_j("calc_j_mat", v["M"], np.asarray(res), v["J"], v["scale"])
        pure("calc_j_mat", snap, self)

    def post_k(res, snap, self):
        v = Jd.view(self)
        ctx.num("calc_k_mat", mx(np.asarray(res) - v["K"]) / v["scale"], TP, TF, key="calc_k_mat:wrong-dissipator-matrix")
        pure("calc_k_mat", snap, self)

    hs.method(EL, "calc_h_mat", post=post_h, pre=pre_copy)
    hs.method(EL, "calc_j_mat", post=post_j, pre=pre_copy)
    hs.method(EL, "calc_k_mat", post=post_k, pre=pre_copy)

    def mk_part(which):
        def post(res, snap, self, *a, **kw):
            mode = _mode_of(a, kw)
            v = Jd.view(self)
            M = v["M"]
            fn = {"h": lambda: map_h(v["H"]), "j": lambda: map_j(v["J"]), "k": lambda: map_k(M, v["K"]),
                  "d": lambda: (lambda X, fj=map_j(v["J"]), fk=map_k(M, v["K"]): fj(X) + fk(X))}[which]()
            want = M.mat(fn, mode)
            ctx.num(f"calc_{which}_part:{mode}", mx(np.asarray(res) - want) / v["scale"], TP, TF,
                    key=f"calc_{which}_part:{mode}:differs-from-reference-part")
        return post

    for w in "hjkd":
        hs.method(EL, f"calc_{w}_part", post=mk_part(w))

    # ---------------- generators
    def in_scale(*xs):
        return max([1.0] + [fro(x) for x in xs])

    def post_from_h(res, snap, c_sys, h_mat, *a, **kw):
        M = Jd.model(c_sys)
        H = np.asarray(h_mat, dtype=complex)
        ctx.num("from_h:gksl", mx(res.hs - M.mat(lambda X: ref.gksl_rhs(H, [], X))) / in_scale(H), TP, TF,
                key="generate_effective_lindbladian_from_h:action-differs-from-gksl")

    def post_from_hk(res, snap, c_sys, h_mat, k_mat, *a, **kw):
        M = Jd.model(c_sys)
        H, K = np.asarray(h_mat, dtype=complex), np.asarray(k_mat, dtype=complex)
        ctx.num("from_hk:gksl", mx(res.hs - M.mat(map_gksl_k(M, H, K))) / in_scale(H, K), TP, TF,
                key="generate_effective_lindbladian_from_hk:action-differs-from-gksl")

    def post_from_k(res, snap, c_sys, k_mat, *a, **kw):
        M = Jd.model(c_sys)
        K = np.asarray(k_mat, dtype=complex)
        ctx.num("from_k:gksl", mx(res.hs - M.mat(map_gksl_k(M, np.zeros((M.d, M.d), dtype=complex), K))) / in_scale(K), TP, TF,
                key="generate_effective_lindbladian_from_k:action-differs-from-gksl")

    def post_from_hjk(res, snap, c_sys, h_mat, j_mat, k_mat, *a, **kw):
        M = Jd.model(c_sys)
        H, J, K = (np.asarray(x, dtype=complex) for x in (h_mat, j_mat, k_mat))
        ctx.num("from_hjk:action", mx(res.hs - M.mat(map_hjk(M, H, J, K))) / in_scale(H, J, K), TP, TF,
                key="generate_effective_lindbladian_from_hjk:action-differs-from-h+j+k-parts")

    hs.function(elm, "generate_effective_lindbladian_from_h", post=post_from_h)
    hs.function(elm, "generate_effective_lindbladian_from_hk", post=post_from_hk)
    hs.function(elm, "generate_effective_lindbladian_from_k", post=post_from_k)
    hs.function(elm, "generate_effective_lindbladian_from_hjk", post=post_from_hjk)

    # ---------------- jump operators (J part is documented as the anti-commutator with -1/2 sum c^+ c)
    def jump_maps(cs):
        cs = [np.asarray(c, dtype=complex) for c in cs]
        C = sum(ref.dag(c) @ c for c in cs)
        good = {"j": lambda X: -0.5 * (C @ X + X @ C), "k": lambda X: sum(c @ X @ ref.dag(c) for c in cs)}
        good["d"] = lambda X: good["j"](X) + good["k"](X)
        S = sum(cs)
        bad = {"j": lambda X: -0.5 * (S @ X + X @ ref.dag(S)), "k": good["k"]}
        bad["d"] = lambda X: bad["j"](X) + bad["k"](X)
        return cs, good, bad

    def judge_jump(oracle, fname, part, got, units, cs):
        cs, good, bad = jump_maps(cs)
        want = ref.hs_of_map(units, good[part])
        sc = max(1.0, sum(fro(c) ** 2 for c in cs))
        err = mx(np.asarray(got) - want) / sc
        key = f"{fname}:{part}-part:differs-from-gksl"
        if err >= TF and mx(np.asarray(got) - ref.hs_of_map(units, bad[part])) / sc <= TP:
            key = f"{fname}:{part}-part:uses-c-instead-of-cdagger-c"
        raw.num(oracle, err, TP, TF, key=key, info={"n_jump": len(cs), "tr_c": [complex(np.trace(c)) for c in cs][:4]})

    def mk_jump_cb(part):
        def post(res, snap, jump_operators, *a, **kw):
            d = np.asarray(jump_operators[0]).shape[0]
            judge_jump(f"{part}_part_cb_from_jump_operators", f"generate_{part}_part_cb_from_jump_operators", part, res,
                       ref.matrix_units(d), jump_operators)
        return post

    def mk_jump_gb(part):
        def post(res, snap, jump_operators, basis, *a, **kw):
            judge_jump(f"{part}_part_gb_from_jump_operators", f"generate_{part}_part_gb_from_jump_operators", part, res,
                       ref.basis_list(basis), jump_operators)
        return post

    for part in "jkd":
        hs.function(elm, f"generate_{part}_part_cb_from_jump_operators", post=mk_jump_cb(part))
        hs.function(elm, f"generate_{part}_part_gb_from_jump_operators", post=mk_jump_gb(part))

    def post_from_jump(res, snap, c_sys, jump_operators, *a, **kw):
        M = Jd.model(c_sys)
        judge_jump("from_jump_operators:gksl", "generate_effective_lindbladian_from_jump_operators", "d", res.hs, M.B, jump_operators)

    def exc_from_jump(exc, snap, c_sys, jump_operators, *a, **kw):
        # valid jump operators rejected: attribute to the c-for-c^+c mechanism only if that formula's generator is what fails
        M = Jd.model(c_sys)
        cs, good, bad = jump_maps(jump_operators)
        req = kw.get("is_physicality_required", a[0] if a else True)
        hb = M.mat(bad["d"]).real
        key = "generate_effective_lindbladian_from_jump_operators:raises-on-valid-jump-operators:" + type(exc).__name__
        if req and isinstance(exc, ValueError) and mx(hb[0]) > 1e-9 and "physically" in str(exc):
            key = "generate_effective_lindbladian_from_jump_operators:rejects-valid-jump-operators:d-part-uses-c-instead-of-cdagger-c"
        raw.truth("from_jump_operators:accepts-valid", False, key=key, info={"exc": repr(exc)[:200]})

    hs.function(elm, "generate_effective_lindbladian_from_jump_operators", post=post_from_jump, on_exc=exc_from_jump)

    # ---------------- verdicts
    def verdict(label, obj, which, got, atol):
        atol = Settings.get_atol() if atol is None else atol
        v = Jd.view(obj)
        if which == "eq":
            z = zone(v["eq_lo"], v["eq_hi"], atol)
        else:
            z = zone(v["ineq"], v["ineq"], atol, v["noise"])
        if z == "free":
            ctx.skip(label)
            return
        want = z == "accept"
        info = {"atol": atol, "eq": [v["eq_lo"], v["eq_hi"]], "ineq": v["ineq"], "noise": v["noise"], "got": bool(got)}
        ctx.truth(label, bool(got) == want, key=f"{label}:" + ("rejects-valid" if want else "accepts-violation"), info=info)

    def mk_verdict(which, label):
        def post(res, snap, self, *a, **kw):
            verdict(label, self, which, res, kw.get("atol", a[0] if a else None))
        return post

    hs.method(EL, "is_tp", post=mk_verdict("eq", "EffectiveLindbladian.is_tp"))
    hs.method(EL, "is_cp", post=mk_verdict("ineq", "EffectiveLindbladian.is_cp"))
    hs.method(EL, "is_eq_constraint_satisfied", post=mk_verdict("eq", "EffectiveLindbladian.is_eq_constraint_satisfied"))
    hs.method(EL, "is_ineq_constraint_satisfied", post=mk_verdict("ineq", "EffectiveLindbladian.is_ineq_constraint_satisfied"))

    def post_phys(res, snap, self, *a, **kw):
        a1 = kw.get("atol_eq_const", a[0] if len(a) > 0 else None)
        a2 = kw.get("atol_ineq_const", a[1] if len(a) > 1 else None)
        a1 = Settings.get_atol() if a1 is None else a1
        a2 = Settings.get_atol() if a2 is None else a2
        v = Jd.view(self)
        z1 = zone(v["eq_lo"], v["eq_hi"], a1)
        z2 = zone(v["ineq"], v["ineq"], a2, v["noise"])
        label = "EffectiveLindbladian.is_physical"
        info = {"atol": [a1, a2], "eq": [v["eq_lo"], v["eq_hi"]], "ineq": v["ineq"], "noise": v["noise"], "got": bool(res)}
        if z1 == "accept" and z2 == "accept":
            ctx.truth(label, bool(res), key=f"{label}:rejects-valid", info=info)
        elif z1 == "reject" or z2 == "reject":
            ctx.truth(label, not res, key=f"{label}:accepts-violation:" + ("eq" if z1 == "reject" else "ineq"), info=info)
        else:
            ctx.skip(label)

    hs.method(EL, "is_physical", post=post_phys)

    # ---------------- exponential
    def gate_ref(self):
        from scipy.linalg import expm

        E = expm(np.asarray(self.hs, dtype=float))
        E2 = expm_taylor(self.hs)
        sc = max(1.0, mx(E))
        return E, sc, mx(E - E2) / sc

    def post_to_gate(res, snap, self):
        v = Jd.view(self)
        E, sc, dis = gate_ref(self)
        if dis > 1e-9:
            ctx.skip("to_gate:expm")
            ctx.count("to_gate:reference-exponentials-disagree")
        else:
            ctx.num("to_gate:expm", mx(res.hs - E) / sc, TP, TF, key="to_gate:hs-differs-from-expm(hs)", info={"norm_hs": fro(self.hs)})
        if type(res).__name__ != "Gate" or res.composite_system is not self.composite_system:
            ctx.violation("to_gate:result-is-not-a-Gate-on-the-same-system", {"type": type(res).__name__})
        phys = max(v["eq_hi"], v["ineq"]) <= 1e-12 * v["scale"]
        if phys:
            gv = gen.ref_violations(res)
            ctx.num("to_gate:physical", max(gv["eq"], gv["ineq"]) / max(sc, v["scale"]), TP, TF,
                    key="to_gate:gate-of-physical-generator-not-physical:" + ("tp" if gv["eq"] >= gv["ineq"] else "cp"), info=gv)
        pure("to_gate", snap, self)

    def exc_to_gate(exc, snap, self):
        v = Jd.view(self)
        E, sc, dis = gate_ref(self)
        M = v["M"]
        gv = ref.gate_violations(M.B, E)
        a = Settings.get_atol()
        phys = max(v["eq_hi"], v["ineq"]) <= 1e-12 * v["scale"]
        if phys and max(gv["eq"], gv["ineq"]) <= a / 10:
            ctx.truth("to_gate:accepts-physical", False, key="to_gate:raises-on-physical-generator:" + type(exc).__name__,
                      info={"exc": repr(exc)[:200], "gate_viol": gv})
        else:
            ctx.skip("to_gate:accepts-physical")

    hs.method(EL, "to_gate", post=post_to_gate, pre=pre_copy, on_exc=exc_to_gate)

    # ---------------- projections
    def post_proj_eq(res, snap, self):
        v = Jd.view(self)
        a, b = np.asarray(snap), np.asarray(res.hs)
        ctx.num("calc_proj_eq_constraint:first-row-zero", mx(b[0]) / v["scale"], 1e-12, 1e-9,
                key="calc_proj_eq_constraint:first-row-not-zero")
        ctx.num("calc_proj_eq_constraint:rest-unchanged", mx(b[1:] - a[1:]) / v["scale"], 1e-12, 1e-9,
                key="calc_proj_eq_constraint:changes-entries-outside-first-row")
        pure("calc_proj_eq_constraint", snap, self)

    hs.method(EL, "calc_proj_eq_constraint", post=post_proj_eq, pre=pre_copy)

    def changed_parts(v, w):
        """which of the reference (H,J,K) differ between two generator views"""
        bad = [nm for nm in "HJK" if mx(w[nm] - v[nm]) / v["scale"] >= TF]
        return "+".join(bad) if bad else "none"

    def post_proj_ineq(res, snap, self):
        v = Jd.view(self)
        w = Jd.view(res)
        ctx.num("calc_proj_ineq_constraint:K-psd", w["ineq"] / v["scale"], TP, TF, key="calc_proj_ineq_constraint:K-of-result-not-psd",
                info={"lambda_min_before": -v["ineq"]})
        if max(v["eq_hi"], v["ineq"]) <= 1e-12 * v["scale"]:
            # one verdict per component of the unique decomposition, so that independent mechanisms keep independent keys
            info = {"trJ": float(np.trace(v["J"]).real), "eig_K": np.linalg.eigvalsh(ref.herm_part(v["K"]))}
            flagged = False
            for nm in "HJK":
                r = ctx.num(f"calc_proj_ineq_constraint:fixes-physical:{nm}", mx(w[nm] - v[nm]) / v["scale"], TP, TF,
                            key=f"calc_proj_ineq_constraint:moves-physical-generator:changes-{nm}", info=info)
                flagged = flagged or r == "fail"
            err = mx(np.asarray(res.hs) - snap) / v["scale"]
            if flagged:
                ctx.count("calc_proj_ineq_constraint:moved-physical-generator")
            else:
                ctx.num("calc_proj_ineq_constraint:fixes-physical", err, TP, TF, key="calc_proj_ineq_constraint:moves-physical-generator", info=info)
        pure("calc_proj_ineq_constraint", snap, self)

    def exc_proj_ineq(exc, snap, self):
        v = Jd.view(self)
        if max(v["eq_hi"], v["ineq"]) <= 1e-12 * v["scale"]:
            # diagnose (hooks are paused here): what would the projection return without the physicality requirement?
            whats = ["undiagnosed"]
            try:
                clone = EL(self.composite_system, np.array(self.hs, copy=True), is_physicality_required=False)
                ch = changed_parts(v, Jd.view(clone.calc_proj_ineq_constraint()))
                whats = ["unrequired-result-changes-" + c for c in ch.split("+")]
            except Exception as e2:  # noqa: BLE001
                whats = ["also-raises-unrequired:" + type(e2).__name__]
            for what in whats:
                ctx.truth("calc_proj_ineq_constraint:accepts-physical", False,
                          key=f"calc_proj_ineq_constraint:raises-on-physical-generator:{type(exc).__name__}:{what}",
                          info={"exc": repr(exc)[:160], "eig_K": np.linalg.eigvalsh(ref.herm_part(v["K"]))})
        else:
            ctx.violation("calc_proj_ineq_constraint:raises:" + ctx.exc_key(exc), {"ineq": v["ineq"], "eq": v["eq_hi"]})

    hs.method(EL, "calc_proj_ineq_constraint", post=post_proj_ineq, pre=pre_copy, on_exc=exc_proj_ineq)

    # ---------------- sparse tables and the routines computed through them
    def dense_tables(M):
        n1 = M.n - 1
        T1 = np.zeros((M.d ** 4, n1 * n1), dtype=complex)
        T2 = np.zeros((M.d ** 2, n1 * n1), dtype=complex)
        for a in range(n1):
            for b in range(n1):
                T1[:, a * n1 + b] = np.kron(M.Bt[a], M.Bt[b].conj()).reshape(-1)
                T2[:, a * n1 + b] = (ref.dag(M.Bt[b]) @ M.Bt[a]).reshape(-1)
        return T1, T2

    def mk_table(name, idx):
        def post(res, snap, self):
            # judged once per table object and content: a table that was deleted and rebuilt (public delete_* methods) or
            # whose entries changed since it was judged is judged again
            d = getattr(res, "data", None)
            fp = None if d is None else (int(getattr(res, "nnz", -1)), float(np.abs(d).sum()), complex(np.sum(d)))
            seen = Jd.tables.get((id(self), name))
            if seen is not None and seen[0] is self and seen[1] is res and seen[2] == fp:
                return
            M = Jd.model(self)
            want = dense_tables(M)[idx]
            got = ref.dense(res)
            if got.shape != want.shape:
                ctx.truth(f"table:{name}", False, key=f"CompositeSystem.{name}:wrong-shape", info={"got": list(got.shape), "want": list(want.shape)})
            else:
                ctx.num(f"table:{name}", mx(got - want), 1e-13, 1e-10, key=f"CompositeSystem.{name}:differs-from-dense-definition")
            Jd.tables[(id(self), name)] = (self, res, fp)
        return post

    hs.method(CompositeSystem, "basis_basisconjugate_T_sparse_from_1", post=mk_table("basis_basisconjugate_T_sparse_from_1", 0))
    hs.method(CompositeSystem, "basishermitian_basis_T_from_1", post=mk_table("basishermitian_basis_T_from_1", 1))

    def post_j_from_k(res, snap, k_mat, c_sys):
        M = Jd.model(c_sys)
        K = np.asarray(k_mat, dtype=complex)
        ctx.num("_calc_j_mat_from_k_mat", mx(np.asarray(res) - j_of_k(M, K)) / in_scale(K), TP, TF,
                key="_calc_j_mat_from_k_mat:differs-from-minus-half-sum-K_ab-Bb^dagger-Ba")

    def post_kpart_from_k(res, snap, k_mat, c_sys):
        M = Jd.model(c_sys)
        K = np.asarray(k_mat, dtype=complex)
        ctx.num("_calc_k_part_from_k_mat", mx(np.asarray(res) - M.mat(map_k(M, K), "comp_basis")) / in_scale(K), TP, TF,
                key="_calc_k_part_from_k_mat:differs-from-sum-K_ab-Ba(x)conj(Bb)")

    hs.function(elm, "_calc_j_mat_from_k_mat", post=post_j_from_k)
    hs.function(elm, "_calc_k_part_from_k_mat", post=post_kpart_from_k)

    # ---------------- random generation setting
    def post_random(res, snap, self, *a, **kw):
        el, rv_h, rv_k, U, rnd = res
        M = Jd.model(self.composite_system)
        sh, sk = float(self.strength_h_part), float(self.strength_k_part)
        vh = sh * np.asarray(rv_h) / np.linalg.norm(rv_h)
        vk = np.abs(sk * np.asarray(rv_k) / np.linalg.norm(rv_k))
        H = np.einsum("a,aij->ij", vh.astype(complex), M.Bt)
        U = np.asarray(U, dtype=complex)
        K = (U * vk) @ ref.dag(U)
        sc = max(1.0, sh, sk)
        ctx.num("random_setting:gksl", mx(np.asarray(rnd) - M.mat(map_gksl_k(M, H, K))) / sc, TP, TF,
                key="RandomEffectiveLindbladianGenerationSetting:random-part-differs-from-gksl(H(rv_h),K(U,rv_k))",
                info={"strength_h": sh, "strength_k": sk})
        ctx.num("random_setting:base+random", mx(el.hs - (self.lindbladian_base.hs + np.asarray(rnd))) / max(1.0, fro(el.hs)), TP, TF,
                key="RandomEffectiveLindbladianGenerationSetting:result-is-not-base-plus-random-part")
        _, _, Kr, _ = ref_hjk(M, np.asarray(rnd))
        ev = np.linalg.eigvalsh(ref.herm_part(Kr))
        ctx.num("random_setting:strength_k", abs(np.linalg.norm(ev) - sk) / sc, TP, TF,
                key="RandomEffectiveLindbladianGenerationSetting:dissipator-spectrum-norm-differs-from-strength_k")

    hs.method(rsm.RandomEffectiveLindbladianGenerationSetting, "generate_random_effective_lindbladian", post=post_random)
    return hs, Jd


# ------------------------------------------------------------------- workload

BUILDERS = ["h", "hk", "k", "hjk", "jump", "jumpref", "hk", "jumpref"]
N_GEN = {"quick": {"S1": 30, "S3": 12, "S2": 5}, "thorough": {"S1": 220, "S3": 90, "S2": 36}}
N_VER = {"quick": {"S1": 16, "S3": 8, "S2": 3}, "thorough": {"S1": 200, "S3": 80, "S2": 30}}
N_RND = {"quick": {"S1": 6, "S3": 3, "S2": 2}, "thorough": {"S1": 60, "S3": 30, "S2": 12}}
COST = {"S1": 1, "S3": 4, "S2": 14}


def shards(tier, seed):
    out = []
    for shape in ("S1", "S3", "S2"):
        for b in range(len(BUILDERS)):
            n = N_GEN[tier][shape]
            out.append({"mode": "gen", "shape": shape, "builder": BUILDERS[b], "slot": b, "n": n, "weight": 3 * n * COST[shape]})
        for s in range(2):
            n = N_VER[tier][shape]
            out.append({"mode": "verdict", "shape": shape, "slot": s, "n": n, "weight": 2 * n * COST[shape]})
        n = N_RND[tier][shape]
        out.append({"mode": "random", "shape": shape, "n": n, "weight": n * COST[shape]})
        out.append({"mode": "typical", "shape": shape, "n": 1, "weight": 5 * COST[shape]})
    return out


def draw_k(M, rng, kclass, rank, t):
    """dissipator matrix on the traceless basis part"""
    n1 = M.n - 1
    if kclass == "rank":
        if rank == 0:
            return np.zeros((n1, n1), dtype=complex)
        A = rng.standard_normal((n1, rank)) + 1j * rng.standard_normal((n1, rank))
        K = A @ ref.dag(A)
        return t * K / max(1e-300, np.linalg.norm(K, 2))
    u = ref.rand_unitary(n1, rng)
    if kclass == "deg":
        m = int(rng.integers(2, n1 + 1))
        w = np.zeros(n1)
        w[:m] = 1.0
        if m < n1 and rng.random() < 0.5:
            w[m:] = 0.5
        return t * (u * w) @ ref.dag(u)
    if kclass == "indef":
        w = rng.random(n1)
        w[rng.random(n1) < 0.3] = 0.0
        w[0] = -float(rng.choice([1e-6, 1e-3, 0.1, 1.0]))
        return t * (u * w) @ ref.dag(u)
    raise ValueError(kclass)


def real_hs(M, fn):
    h = M.mat(fn)
    return np.ascontiguousarray(h.real.astype(np.float64)), mx(h.imag)


def requery(ctx, L):
    """history step: after the projections / the exponential have been taken of this very object, ask it again - the
    hooks judge every answer against the reference model of L.hs, so an answer that now reflects an earlier call
    (a cached or overwritten matrix) is a violation of the ordinary oracles"""
    for name in ("calc_k_mat", "calc_h_mat", "calc_j_mat", "is_cp", "is_tp", "is_physical", "calc_k_part", "calc_d_part"):
        ok, val = ctx.attempt(getattr(L, name))
        if not ok and name.startswith("calc"):
            ctx.violation(f"{name}:second-call:" + ctx.exc_key(val), {})
    ctx.attempt(L.calc_proj_ineq_constraint)
    ctx.count("history:requery-after-projection")


# ----------------------------------------------------------- history / combination steps
#
# The statement holds for every generator object and every call, whatever the object, its composite system or the
# library did before.  The steps below reach objects and calls the plain workload never produces; all answers are
# judged by the same oracles (the hooks judge every call against the reference model of the receiver's own hs).

CALLS = ("calc_h_mat", "calc_j_mat", "calc_k_mat", "calc_h_part", "calc_j_part", "calc_k_part", "calc_d_part", "is_tp", "is_cp",
         "is_physical", "calc_proj_eq_constraint", "calc_proj_ineq_constraint", "to_gate")
TABLE_DELETES = ("delete_basis_basisconjugate_T_sparse_from_1", "delete_basishermitian_basis_T_from_1",
                 "delete_basis_basisconjugate_T_sparse", "delete_basisconjugate_basis_sparse")


def sibling_csys(dims, which=1):
    """a second CompositeSystem of the same dimensions whose (orthonormal, Hermitian, identity-first) basis is the
    standard one with the traceless elements of every subsystem rotated by a fixed real orthogonal matrix"""
    from quara.objects import matrix_basis as mb
    from quara.objects.composite_system import CompositeSystem
    from quara.objects.elemental_system import ElementalSystem

    es = []
    for pos, d in enumerate(dims):
        std = [ref.dense(b) for b in gen.local_basis(d, "std")]
        n1 = len(std) - 1
        Q, _ = np.linalg.qr(np.random.default_rng(1800 + 10 * which + pos).standard_normal((n1, n1)))
        new = [std[0]] + [sum(Q[a, b] * std[1 + b] for b in range(n1)) for a in range(n1)]
        es.append(ElementalSystem(pos, mb.MatrixBasis(new)))
    return CompositeSystem(es)


def draw_hk(M, rng):
    H = ref.rand_herm(M.d, rng)
    H = float(10 ** rng.uniform(-2, 0.5)) * H / np.linalg.norm(H, 2)
    kclass = ("rank", "rank", "deg", "indef")[int(rng.integers(4))]
    K = draw_k(M, rng, kclass, int(rng.integers(0, M.n)), float(10 ** rng.uniform(-2, 0.5)))
    return H, K


def call_kw(name, mode, a, b=None):
    if name.endswith("_part"):
        return {"mode_basis": mode}
    if name in ("is_tp", "is_cp"):
        return {"atol": a}
    if name == "is_physical":
        return {"atol_eq_const": a, "atol_ineq_const": a if b is None else b}
    return {}


def put(ctx, obj, name, sfx, **kw):
    """one question; whether the answer is right is the hooks' business.  An exception where the property promises a
    value (extraction, parts, equality projection) is a violation; projections / to_gate exceptions are judged by the
    on_exc hooks"""
    ok, val = ctx.attempt(getattr(obj, name), **kw)
    if not ok and (name.endswith("_mat") or name.endswith("_part") or name.startswith("is_") or name == "calc_proj_eq_constraint"):
        ctx.violation(f"{name}{sfx}:" + ctx.exc_key(val), {})
    return ok, val


def ask(ctx, Jd, elm, D, sfx, rng, light=False):
    """the questions of the property put to a generator object D that the library handed out (copy, arithmetic, var
    conversion, projection result, pickle ...) or that has a history; keys carry the suffix of the step"""
    with phase(Jd, sfx):
        v = Jd.view(D)
        M, sc = v["M"], v["scale"]
        before = np.array(D.hs, copy=True)
        got = {}
        for j in rng.permutation(3):
            nm = ("calc_h_mat", "calc_j_mat", "calc_k_mat")[int(j)]
            ok, val = put(ctx, D, nm, sfx)
            if ok:
                got[nm] = val
        if len(got) == 3:
            ok, L2 = ctx.attempt(elm.generate_effective_lindbladian_from_hjk, D.composite_system, got["calc_h_mat"], got["calc_j_mat"],
                                 got["calc_k_mat"], is_physicality_required=False)
            if not ok:
                ctx.violation(f"roundtrip:extract->from_hjk{sfx}:" + ctx.exc_key(L2), {})
            else:
                ctx.num("roundtrip:extract->from_hjk", mx(L2.hs - before) / sc, TP, TF, key="roundtrip:extract->from_hjk:hs-not-reproduced" + sfx)
        mode = MODES[int(rng.integers(2))]
        parts = {}
        for j in rng.permutation(4):
            w = "hjkd"[int(j)]
            if light and w != "d":
                continue  # calc_d_part asks calc_j_part and calc_k_part itself: their hooks judge those answers too
            ok, pt = put(ctx, D, f"calc_{w}_part", sfx, mode_basis=mode)
            if ok:
                parts[w] = np.asarray(pt)
        if len(parts) == 4:
            whole = before if mode == "hermitian_basis" else M.mat(lambda X: ref.apply_hs(M.B, before, X), "comp_basis")
            ctx.num(f"parts:h+j+k=whole:{mode}", mx(parts["h"] + parts["j"] + parts["k"] - whole) / sc, TP, TF,
                    key=f"parts:{mode}:h+j+k-differs-from-whole" + sfx)
        if "d" in parts and "j" in parts and "k" in parts:
            ctx.num(f"parts:d=j+k:{mode}", mx(parts["d"] - parts["j"] - parts["k"]) / sc, TP, TF, key=f"parts:{mode}:d-differs-from-j+k" + sfx)
        if not light:
            put(ctx, D, "calc_d_part", sfx, mode_basis=MODES[1 - MODES.index(mode)])
        a, b = float(rng.choice(ATOLS)), float(rng.choice(ATOLS))
        put(ctx, D, "is_physical", sfx, **({} if rng.random() < 0.5 else call_kw("is_physical", None, a, b)))
        if not light:
            put(ctx, D, "is_tp", sfx, atol=a)
            put(ctx, D, "is_cp", sfx, atol=b)
        put(ctx, D, "calc_proj_eq_constraint", sfx)
        ctx.attempt(D.calc_proj_ineq_constraint)
        okg, g = ctx.attempt(D.to_gate)
        if not okg and not isinstance(g, ValueError):
            ctx.violation(f"to_gate{sfx}:" + ctx.exc_key(g), {})
        ctx.truth("driver:operand-unchanged", np.array_equal(before, D.hs), key="EffectiveLindbladian:hs-mutated-by-a-method" + sfx)


def interleave(ctx, Jd, A, B, sfx, rng, ncalls):
    """the same questions put alternately to two generator objects (A, B, A ...) with the basis modes / tolerances
    crossed, so that anything remembered per class, shape or composite-system size instead of per object answers A with
    B's data; the arrays A returned are kept and compared with private copies after the later calls"""
    with phase(Jd, sfx):
        held = []
        for j in rng.permutation(len(CALLS))[:ncalls]:
            nm = CALLS[int(j)]
            m = int(rng.integers(2))
            a, b = float(rng.choice(ATOLS)), float(rng.choice(ATOLS))
            ok, ra = put(ctx, A, nm, sfx, **call_kw(nm, MODES[m], a))
            if ok and isinstance(ra, np.ndarray):
                held.append((nm, ra, np.array(ra, copy=True)))
            put(ctx, B, nm, sfx, **call_kw(nm, MODES[1 - m], b))
            if rng.random() < 0.5:
                put(ctx, A, nm, sfx, **call_kw(nm, MODES[1 - m], b))
        sc = Jd.view(A)["scale"]
        for nm, arr, snap in held:
            ctx.num("held-result-unchanged", mx(arr - snap) / sc, TP, TF, key=f"{nm}:array-held-by-the-caller-changed-after-later-calls" + sfx)


class History:
    """shard-long state of the history steps and the step menu.  Which steps a case gets depends on the case number and
    the shard only (a replay re-runs the same steps); all draws come from the case's second random stream, so the plain
    workload of a case is what it was without the steps."""

    MENU = ("copy", "setzero", "sibling", "arith", "projres", "rival", "var", "tabledel", "options", "pickle")
    PER_CASE = {"S1": 2, "S3": 1, "S2": 1}  # the library's calc_k_mat is what costs: ~9 / 50 / 200 ms per call
    NCALLS = {"S1": 6, "S3": 3, "S2": 3}

    def __init__(self, ctx, Jd, elm, c_sys, M, shape):
        self.ctx, self.Jd, self.elm, self.c_sys, self.M, self.shape = ctx, Jd, elm, c_sys, M, shape
        self._sib = None
        self.light = shape != "S1"

    def sibling(self):
        if self._sib is None:
            c = sibling_csys(gen.SHAPES[self.shape])
            self._sib = (c, self.Jd.model(c))
        return self._sib

    def menu_of_case(self):
        i = int(self.ctx.cur_case or 0)
        per = self.PER_CASE[self.shape]
        start = (i * per + 3 * int(self.ctx.params.get("slot", 0))) % len(self.MENU)
        return [self.MENU[(start + j) % len(self.MENU)] for j in range(per)]

    def steps(self, L, inp):
        rng = self.ctx.rng(1)
        for pos, name in enumerate(self.menu_of_case()):
            self.light = self.shape != "S1" or pos > 0  # one qubit: the first step of a case in the long form
            getattr(self, "step_" + name)(L, inp, rng)
            self.ctx.count("history:" + name)

    # ---- provenance: objects handed out by the library instead of built by the driver
    def derived(self, route, fn, sfx, rng, light=None):
        ok, D = self.ctx.attempt(fn)
        if not ok:
            # what copy() / arithmetic / conversions do is not the subject of this property: recorded, not judged
            self.ctx.count(f"observation:{route}-raised:{type(D).__name__}")
            return None
        if type(D).__name__ != "EffectiveLindbladian":
            self.ctx.count(f"observation:{route}-returns-{type(D).__name__}")
            return None
        ask(self.ctx, self.Jd, self.elm, D, sfx, rng, self.light if light is None else light)
        return D

    def step_copy(self, L, inp, rng):
        D = self.derived("copy", L.copy, ":via-copy", rng)
        if D is not None and not self.light:
            self.derived("copy-of-copy", D.copy, ":via-copy", rng, light=True)

    def step_arith(self, L, inp, rng):
        def scalar():
            x = float(rng.choice([0.5, 2.0, 3.0, 0.1, 7.0]))
            t = int(rng.integers(4))
            return (x, np.float64(x), int(max(2, round(x))), np.int64(max(2, round(x))))[t]

        a, b = scalar(), scalar()
        route = ("mul", "rmul", "div", "add", "sub", "add-zero", "zero", "origin")[int(rng.integers(8))]
        fn = {"mul": lambda: L * a, "rmul": lambda: a * L, "div": lambda: L / a, "add": lambda: (L * a) + (b * L),
              "sub": lambda: (L * a) - (L / b), "add-zero": lambda: (L * a) + (L * a).generate_zero_obj(),
              "zero": L.generate_zero_obj, "origin": L.generate_origin_obj}[route]
        self.derived("arithmetic:" + route, fn, ":via-arithmetic" if route not in ("zero", "origin") else ":via-zero-or-origin-object", rng)

    def step_var(self, L, inp, rng):
        ctx, elm = self.ctx, self.elm
        flag = bool(L.on_para_eq_constraint) if rng.random() < 0.5 else False
        ok, var = ctx.attempt(elm.convert_effective_lindbladian_to_var, L.composite_system, L.hs, on_para_eq_constraint=flag)
        if not ok:
            ctx.count(f"observation:convert_effective_lindbladian_to_var-raised:{type(var).__name__}")
            return
        # (the conversion itself is outside the statement; with the flag set it inserts the first row of a gate)
        self.derived("convert_var_to_effective_lindbladian", lambda: elm.convert_var_to_effective_lindbladian(
            L.composite_system, var, is_physicality_required=False, on_para_eq_constraint=flag), ":via-var", rng)
        ok, D = ctx.attempt(lambda: L.generate_from_var(L.to_var(), is_physicality_required=False))
        if ok and type(D).__name__ == "EffectiveLindbladian":
            ask(ctx, self.Jd, elm, D, ":via-var", rng, True)
        elif not ok:
            ctx.count(f"observation:EffectiveLindbladian.generate_from_var-raised:{type(D).__name__}")

    def step_pickle(self, L, inp, rng):
        import pickle

        D = self.derived("pickle", lambda: pickle.loads(pickle.dumps(L)), ":via-pickle", rng)
        if D is not None:
            # the un-pickled generator lives on its own composite system (with its own tables): forget its model
            self.Jd.models.pop(id(D.composite_system), None)
            self.Jd.cache.clear()

    def step_projres(self, L, inp, rng):
        ctx = self.ctx
        ok, P = ctx.attempt(L.calc_proj_ineq_constraint)
        if ok:
            ask(ctx, self.Jd, self.elm, P, ":via-projection-result", rng, self.light)
        ok, Pe = ctx.attempt(L.calc_proj_eq_constraint)
        if ok and not self.light:
            with phase(self.Jd, ":via-projection-result"):
                ok, Q = ctx.attempt(Pe.calc_proj_ineq_constraint)
            if ok:
                ask(ctx, self.Jd, self.elm, Q, ":via-projection-result", rng, True)

    # ---- the same object after a public setter
    def step_setzero(self, L, inp, rng):
        ctx, Jd = self.ctx, self.Jd
        ok, D = ctx.attempt(L.copy)
        if not ok:
            ctx.count(f"observation:copy-raised:{type(D).__name__}")
            return
        m = int(rng.integers(2))
        first = ("calc_k_mat", "calc_d_part", "calc_j_mat", "calc_h_mat", "calc_k_part", "is_physical", "calc_proj_ineq_constraint", "to_gate")
        with phase(Jd, ":via-copy"):
            for nm in first[:2] if self.light else first:
                put(ctx, D, nm, ":via-copy", **call_kw(nm, MODES[m], None))
        with phase(Jd, ":after-option-setters"):
            D.set_mode_proj_order("ineq_eq" if D.mode_proj_order == "eq_ineq" else "eq_ineq")
            D.eps_truncate_imaginary_part = 1e-12
            for nm in ("calc_h_part",) if self.light else ("calc_k_mat", "calc_j_part", "calc_h_part", "calc_d_part", "is_physical"):
                put(ctx, D, nm, ":after-option-setters", **call_kw(nm, MODES[1 - m], None))
        ok, r = ctx.attempt(D.set_zero)
        if not ok:
            ctx.count(f"observation:set_zero-raised:{type(r).__name__}")
            return
        if mx(D.hs) != 0.0:
            ctx.count("observation:set_zero-leaves-non-zero-hs")
        with phase(Jd, ":after-set_zero"):
            for nm in ("calc_k_mat", "calc_j_mat", "calc_h_mat", "calc_d_part", "calc_k_part", "calc_j_part", "calc_h_part", "is_physical", "is_cp",
                       "is_tp", "calc_proj_eq_constraint", "calc_proj_ineq_constraint", "to_gate"):
                if self.light and nm in ("calc_k_part", "calc_j_part", "calc_h_part", "is_cp", "is_tp", "calc_proj_eq_constraint"):
                    continue
                put(ctx, D, nm, ":after-set_zero", **call_kw(nm, MODES[int(rng.integers(2))], None))

    # ---- two objects of one class and size interleaved
    def other_generator(self, c_sys, M, inp, rng, same_inputs):
        """a second generator: from the case's own (H, K) coefficient matrices (on another basis they denote another
        map) or from fresh ones"""
        if same_inputs and "H" in inp and "K" in inp:
            H, K = np.array(inp["H"], dtype=complex), np.array(inp["K"], dtype=complex)
        else:
            H, K = draw_hk(M, rng)
        # builder options away from their defaults (none of them enters the generator's matrix)
        opts = {"is_physicality_required": False, "on_para_eq_constraint": bool(rng.random() < 0.5), "is_estimation_object": bool(rng.random() < 0.5),
                "mode_proj_order": ("eq_ineq", "ineq_eq")[int(rng.integers(2))], "eps_truncate_imaginary_part": (None, 1e-12)[int(rng.integers(2))]}
        ok, R = self.ctx.attempt(self.elm.generate_effective_lindbladian_from_hk, c_sys, H, K, **opts)
        if not ok:
            self.ctx.violation("generate_effective_lindbladian_from_hk:" + self.ctx.exc_key(R) + self.Jd.tag, {})
            return None
        return R

    def step_sibling(self, L, inp, rng):
        c_sib, Ms = self.sibling()
        with phase(self.Jd, ":sibling-system"):
            S = self.other_generator(c_sib, Ms, inp, rng, rng.random() < 0.5)
        if S is not None:
            interleave(self.ctx, self.Jd, L, S, ":sibling-system", rng, self.NCALLS[self.shape])

    def step_rival(self, L, inp, rng):
        with phase(self.Jd, ":rival-object"):
            R = self.other_generator(L.composite_system, self.Jd.model(L.composite_system), {}, rng, False)
        if R is not None:
            interleave(self.ctx, self.Jd, L, R, ":rival-object", rng, self.NCALLS[self.shape])

    # ---- the composite system after its tables were dropped (documented: "if you use X again, call X again")
    def step_tabledel(self, L, inp, rng):
        ctx, Jd = self.ctx, self.Jd
        c_sys = L.composite_system
        M = Jd.model(c_sys)
        pick = [nm for nm in TABLE_DELETES if rng.random() < 0.5] or [TABLE_DELETES[int(rng.integers(2))]]
        for nm in pick:
            ok, r = ctx.attempt(getattr(c_sys, nm))
            if not ok:
                ctx.count(f"observation:{nm}-raised:{type(r).__name__}")
        with phase(Jd, ":after-table-delete"):
            H, K = (inp["H"], inp["K"]) if ("H" in inp and "K" in inp) else draw_hk(M, rng)
            ok, R = ctx.attempt(self.elm.generate_effective_lindbladian_from_hk, c_sys, np.array(H, dtype=complex), np.array(K, dtype=complex),
                                is_physicality_required=False)
            if not ok:
                ctx.violation("generate_effective_lindbladian_from_hk:" + ctx.exc_key(R) + ":after-table-delete", {})
            put(ctx, L, "calc_k_part", ":after-table-delete", mode_basis=MODES[int(rng.integers(2))])
            ctx.attempt(L.calc_proj_ineq_constraint)
            if not self.light:
                ok, K2 = ctx.attempt(self.elm.generate_effective_lindbladian_from_k, c_sys, draw_hk(M, rng)[1], is_physicality_required=False)
                if not ok:
                    ctx.violation("generate_effective_lindbladian_from_k:" + ctx.exc_key(K2) + ":after-table-delete", {})
                put(ctx, L, "calc_d_part", ":after-table-delete", mode_basis=MODES[int(rng.integers(2))])

    # ---- non-default constructor options, on the first and on later calls and through copy / arithmetic
    def step_options(self, L, inp, rng):
        ctx, Jd = self.ctx, self.Jd
        v = Jd.view(L)
        from quara.settings import Settings

        a0 = Settings.get_atol()
        safe = zone(v["eq_lo"], v["eq_hi"], a0) == "accept" and zone(v["ineq"], v["ineq"], a0, v["noise"]) == "accept"
        opts = {"is_physicality_required": bool(safe and rng.random() < 0.7), "is_estimation_object": bool(rng.random() < 0.5),
                "on_para_eq_constraint": bool(rng.random() < 0.5), "on_algo_eq_constraint": bool(rng.random() < 0.5),
                "on_algo_ineq_constraint": bool(rng.random() < 0.5), "mode_proj_order": ("eq_ineq", "ineq_eq")[int(rng.integers(2))],
                "eps_proj_physical": (None, 1e-9, 1e-5)[int(rng.integers(3))], "eps_truncate_imaginary_part": (None, 1e-12)[int(rng.integers(2))]}
        with phase(Jd, ":non-default-options"):
            ok, D = ctx.attempt(self.elm.EffectiveLindbladian, L.composite_system, np.array(L.hs, copy=True), **opts)
            if not ok and opts["is_physicality_required"]:
                # the rejection of a physical generator is judged by the verdict hooks inside the constructor
                opts["is_physicality_required"] = False
                ok, D = ctx.attempt(self.elm.EffectiveLindbladian, L.composite_system, np.array(L.hs, copy=True), **opts)
        if not ok:
            ctx.violation("EffectiveLindbladian.ctor:non-default-options:" + ctx.exc_key(D), {"opts": {k: str(x) for k, x in opts.items()}})
            return
        route = ("copy", "mul", "projection")[int(rng.integers(3))]
        fn = {"copy": D.copy, "mul": lambda: D * 1.0, "projection": D.calc_proj_eq_constraint}[route]
        if not self.light or rng.random() < 0.5:
            ask(ctx, Jd, self.elm, D, ":non-default-options", rng, self.light)
        if not self.light or rng.random() < 0.5:
            self.derived("options+" + route, fn, ":non-default-options:via-" + route, rng, light=True)


def exercise(ctx, hsx, Jd, elm, L, M, inp, tag, hist=None):
    """extraction, round trip, parts, projections, exponential for one generator object"""
    d = M.d
    v = Jd.view(L)
    sc = v["scale"]
    before = np.array(L.hs, copy=True)
    ok, h = ctx.attempt(L.calc_h_mat)
    ok2, j = ctx.attempt(L.calc_j_mat)
    ok3, k = ctx.attempt(L.calc_k_mat)
    if not (ok and ok2 and ok3):
        for o, val, nm in ((ok, h, "calc_h_mat"), (ok2, j, "calc_j_mat"), (ok3, k, "calc_k_mat")):
            if not o:
                ctx.violation(f"{nm}:" + ctx.exc_key(val), {"tag": tag})
        return
    # extracted matrices against the *inputs*
    isc = max(1.0, fro(inp.get("H", 0)), fro(inp.get("K", 0)), fro(inp.get("J", 0)))
    if "K" in inp:
        ctx.num("extract:K=input", mx(k - inp["K"]) / isc, TP, TF, key="calc_k_mat:extracted-K-differs-from-input-K", info={"tag": tag})
    if "H" in inp:
        ctx.num("extract:H=input-mod-identity", mx(traceless(h) - traceless(inp["H"])) / isc, TP, TF,
                key="calc_h_mat:extracted-H-differs-from-input-H-beyond-identity", info={"tag": tag})
    if "J" in inp:
        Jd.judge_j("extract:J=input", M, j, inp["J"], isc, {"tag": tag})
    # round trip
    ok, L2 = ctx.attempt(elm.generate_effective_lindbladian_from_hjk, L.composite_system, h, j, k, is_physicality_required=False)
    if not ok:
        ctx.violation("roundtrip:extract->from_hjk:" + ctx.exc_key(L2), {"tag": tag})
    else:
        err = mx(L2.hs - before) / sc
        key = "roundtrip:extract->from_hjk:hs-not-reproduced"
        if err >= TF:
            # which extracted matrix is responsible?
            bad = [nm for nm, got, want in (("h", traceless(h), v["H"]), ("j", j, v["J"]), ("k", k, v["K"])) if mx(got - want) / sc >= TF]
            key += ":extracted-" + "+".join(bad) + "-wrong" if bad else ":rebuild-wrong"
        ctx.num("roundtrip:extract->from_hjk", err, TP, TF, key=key, info={"tag": tag})
    # parts
    for mode in MODES:
        parts = {}
        for w in "hjkd":
            okp, p = ctx.attempt(getattr(L, f"calc_{w}_part"), mode_basis=mode)
            if not okp:
                ctx.violation(f"calc_{w}_part:{mode}:" + ctx.exc_key(p), {"tag": tag})
            else:
                parts[w] = np.asarray(p)
        if len(parts) == 4:
            whole = before if mode == "hermitian_basis" else M.mat(lambda X: ref.apply_hs(M.B, before, X), "comp_basis")
            ctx.num(f"parts:h+j+k=whole:{mode}", mx(parts["h"] + parts["j"] + parts["k"] - whole) / sc, TP, TF,
                    key=f"parts:{mode}:h+j+k-differs-from-whole", info={"tag": tag})
            ctx.num(f"parts:d=j+k:{mode}", mx(parts["d"] - parts["j"] - parts["k"]) / sc, TP, TF,
                    key=f"parts:{mode}:d-differs-from-j+k", info={"tag": tag})
    # default mode argument
    ctx.attempt(L.calc_d_part)
    # projections
    okq, pe = ctx.attempt(L.calc_proj_eq_constraint)
    if not okq:
        ctx.violation("calc_proj_eq_constraint:" + ctx.exc_key(pe), {"tag": tag})
    ctx.attempt(L.calc_proj_ineq_constraint)  # exceptions are judged by the on_exc hook
    requery(ctx, L)
    # exponential
    okg, g = ctx.attempt(L.to_gate)
    if not okg and not isinstance(g, ValueError):
        ctx.violation("to_gate:" + ctx.exc_key(g), {"tag": tag})
    # var conversion: outside the statement, observation only
    okv, var = ctx.attempt(L.to_var)
    if okv:
        okv, Lv = ctx.attempt(elm.convert_var_to_effective_lindbladian, L.composite_system, var, is_physicality_required=False,
                              on_para_eq_constraint=L.on_para_eq_constraint)
        if okv and mx(Lv.hs - before) > 1e-9:
            ctx.count("observation:var-roundtrip-does-not-reproduce-hs(on_para_eq_constraint=%s)" % L.on_para_eq_constraint)
            if mx(Lv.hs[1:] - before[1:]) < 1e-12 and abs(Lv.hs[0, 0] - 1) < 1e-12 and mx(Lv.hs[0, 1:]) < 1e-12:
                ctx.count("observation:convert_var_to_effective_lindbladian-inserts-gate-first-row(1,0,..,0)")
    ctx.truth("driver:operand-unchanged", np.array_equal(before, L.hs), key="EffectiveLindbladian:hs-mutated-by-a-method", info={"tag": tag})
    if hist is not None:
        hist.steps(L, inp)
        ctx.truth("driver:operand-unchanged", np.array_equal(before, L.hs), key="EffectiveLindbladian:hs-mutated-by-a-method:history-steps",
                  info={"tag": tag})


def run_gen(ctx, hsx, Jd, M, c_sys, shape):
    import quara.objects.effective_lindbladian as elm

    p = ctx.params
    d, n1 = M.d, M.n - 1
    builder = p["builder"]
    hist = History(ctx, Jd, elm, c_sys, M, shape)
    for i in ctx.cases(p["n"]):
        rng = ctx.rng()
        t = float(10 ** rng.uniform(-3, 1))
        th = float(10 ** rng.uniform(-3, 1))
        H = ref.rand_herm(d, rng)
        H = th * H / np.linalg.norm(H, 2)
        # K classes: every rank 0..d^2-1 in turn, then degenerate, then indefinite
        slot = (i + 3 * p["slot"]) % (n1 + 3)
        if slot <= n1:
            kclass, rank = "rank", slot
        elif slot == n1 + 1:
            kclass, rank = "deg", -1
        else:
            kclass, rank = "indef", -1
        if builder in ("jump", "jumpref"):
            kclass, rank = "jumps", 1 + (i + p["slot"]) % M.n
        req = bool(rng.random() < 0.3) and kclass != "indef"
        inp = {}
        tag = f"{builder}:{kclass}"
        zero = np.zeros((d, d), dtype=complex)
        if builder == "h":
            inp = {"H": H, "K": np.zeros((n1, n1), dtype=complex), "J": zero}
            call = (elm.generate_effective_lindbladian_from_h, (c_sys, H))
        elif builder in ("hk", "k", "hjk"):
            K = draw_k(M, rng, kclass, rank, t)
            if builder == "hk":
                inp = {"H": H, "K": K, "J": j_of_k(M, K)}
                call = (elm.generate_effective_lindbladian_from_hk, (c_sys, H, K))
            elif builder == "k":
                inp = {"H": zero, "K": K, "J": j_of_k(M, K)}
                call = (elm.generate_effective_lindbladian_from_k, (c_sys, K))
            else:
                Jin = ref.rand_herm(d, rng) * t if rng.random() < 0.6 else j_of_k(M, K)
                inp = {"H": H, "K": K, "J": Jin}
                req = False
                call = (elm.generate_effective_lindbladian_from_hjk, (c_sys, H, Jin, K))
        else:
            m = rank
            cs = [np.sqrt(t) * (rng.standard_normal((d, d)) + 1j * rng.standard_normal((d, d))) / np.sqrt(2 * d) for _ in range(m)]
            for c in cs:  # guaranteed non-zero trace
                c += (0.3 + rng.random()) * np.sqrt(t) * np.exp(2j * np.pi * rng.random()) * np.eye(d) / np.sqrt(d)
            A = np.array([[np.trace(ref.dag(b) @ c) for c in cs] for b in M.B[1:]])
            inp = {"K": A @ ref.dag(A)}
            if builder == "jump":
                call = (elm.generate_effective_lindbladian_from_jump_operators, (c_sys, cs))
                for part in "jkd":  # part generators, both bases
                    ctx.attempt(getattr(elm, f"generate_{part}_part_cb_from_jump_operators"), cs)
                    ctx.attempt(getattr(elm, f"generate_{part}_part_gb_from_jump_operators"), cs, c_sys.basis())
            else:
                Hj = H if rng.random() < 0.7 else zero
                hs_ref, im = real_hs(M, lambda X: ref.gksl_rhs(Hj, cs, X))
                if im > 1e-12 * max(1.0, fro(hs_ref)):
                    ctx.mark_inconclusive(f"reference GKSL matrix not real: {im}")
                call = (elm.EffectiveLindbladian, (c_sys, hs_ref))
        ok, L = ctx.attempt(call[0], *call[1], is_physicality_required=req)
        if not ok:
            if builder == "jump" and req:
                # rejection is judged by the on_exc hook; go on without the physicality requirement
                ok, L = ctx.attempt(call[0], *call[1], is_physicality_required=False)
            if not ok:
                if not (builder == "jump"):
                    ctx.violation(f"{call[0].__name__}:" + ctx.exc_key(L), {"tag": tag, "required": req, "t": t})
                continue
        if builder == "jumpref":
            v = Jd.view(L)
            ctx.num("jumpref:reference-generator-is-physical", max(v["eq_hi"], v["ineq"]) / v["scale"], 1e-12, 1e-9,
                    key="reference:gksl-generator-not-physical")
            if "K" in inp:
                ctx.num("jumpref:K=gram-of-traceless-coefficients", mx(v["K"] - inp["K"]) / v["scale"], TP, TF, key="reference:K-mismatch")
        ctx.nontrivial(shape, builder, kclass, rank, np.round(np.asarray(L.hs), 9))
        if i < 2:
            ctx.sample({"mode": "gen", "shape": shape, "builder": builder, "K_class": kclass, "rank_or_njump": rank, "strength_t": t,
                        "strength_h": th, "physicality_required": req, "hs": np.asarray(L.hs)})
        exercise(ctx, hsx, Jd, elm, L, M, inp, tag, hist)


def verdict_history(ctx, Jd, elm, L, prev_L, shape):
    """history steps of a verdict case: the ladder once more in another order and with other argument forms
    (positional / keyword, unequal tolerances for the two constraints), the verdicts of objects derived from L, and the
    verdicts of L and of the previous case's generator (kept alive) asked alternately"""
    rng = ctx.rng(1)
    light = shape != "S1"
    with phase(Jd, ":second-call"):
        for a in [float(x) for x in rng.permutation(ATOLS)][:2 if light else 3]:
            b = float(rng.choice(ATOLS))
            put(ctx, L, "is_physical", ":second-call", atol_eq_const=a, atol_ineq_const=b)
            ctx.attempt(L.is_cp, a)
            ctx.attempt(L.is_tp, atol=b)
            if not light:
                ctx.attempt(L.is_eq_constraint_satisfied, atol=a)
                if rng.random() < 0.5:
                    ctx.attempt(L.is_ineq_constraint_satisfied, atol=b)
                else:
                    ctx.attempt(L.is_physical, atol_ineq_const=a)
    route = ("copy", "mul", "var")[int(rng.integers(3))]
    fn = {"copy": L.copy, "mul": lambda: L * 1.0,
          "var": lambda: elm.convert_var_to_effective_lindbladian(L.composite_system, elm.convert_effective_lindbladian_to_var(
              L.composite_system, L.hs, on_para_eq_constraint=False), is_physicality_required=False, on_para_eq_constraint=False)}[route]
    ok, D = ctx.attempt(fn)
    sfx = {"copy": ":via-copy", "mul": ":via-arithmetic", "var": ":via-var"}[route]
    if not ok or type(D).__name__ != "EffectiveLindbladian":
        ctx.count(f"observation:{route}-raised-or-other-type")
    else:
        with phase(Jd, sfx):
            for a in [float(x) for x in rng.permutation(ATOLS)][:1 if light else 2]:
                put(ctx, D, "is_physical", sfx, atol_eq_const=a, atol_ineq_const=a)
                put(ctx, D, "is_tp", sfx, atol=a)
                if not light:
                    put(ctx, D, "is_cp", sfx, atol=a)
            put(ctx, D, "is_physical", sfx)
    if prev_L is not None:
        interleave_verdicts = ("is_cp", "is_tp", "is_physical", "is_ineq_constraint_satisfied", "is_eq_constraint_satisfied")
        with phase(Jd, ":rival-object"):
            for j in rng.permutation(len(interleave_verdicts))[:2 if light else 3]:
                nm = interleave_verdicts[int(j)]
                a, b = float(rng.choice(ATOLS)), float(rng.choice(ATOLS))
                kw = (lambda t: {"atol_eq_const": t, "atol_ineq_const": t}) if nm == "is_physical" else (lambda t: {"atol": t})
                put(ctx, L, nm, ":rival-object", **kw(a))
                put(ctx, prev_L, nm, ":rival-object", **kw(b))
                put(ctx, L, nm, ":rival-object", **kw(b))
    ctx.count("history:verdicts")
    return L


def run_verdict(ctx, hsx, Jd, M, c_sys, shape):
    import quara.objects.effective_lindbladian as elm
    from quara.settings import Settings

    p = ctx.params
    d, n1 = M.d, M.n - 1
    default_atol = Settings.get_atol()
    prev_L = None
    try:
        for i in ctx.cases(p["n"]):
            rng = ctx.rng()
            base = float(rng.choice(ATOLS))
            viol = str(rng.choice(["none", "none", "eq", "ineq", "both"]))
            t = float(10 ** rng.uniform(-3, 0.5))
            H = ref.rand_herm(d, rng)
            H = H / np.linalg.norm(H, 2) * float(10 ** rng.uniform(-3, 0))
            rank = int((i + 5 * p["slot"]) % (n1 + 1))
            u = ref.rand_unitary(n1, rng)
            w = np.zeros(n1)
            w[:rank] = 0.2 + rng.random(rank)
            w = w[rng.permutation(n1)]

            def delta():
                if rng.random() < 0.7:
                    return float(rng.choice([0.0, 0.01, 0.1, 10.0, 100.0, 1e4])) * base
                return float(rng.choice([1e-3, 0.1, 1.0]))

            d_in = d_eq = 0.0
            if viol in ("ineq", "both"):
                d_in = delta()
                z = np.where(w == 0)[0]
                w[z[0] if len(z) else int(rng.integers(n1))] = -d_in / max(t, 1e-300)
            K = t * (u * w) @ ref.dag(u)
            hs0, im = real_hs(M, map_hjk(M, H, j_of_k(M, K), K))
            if viol in ("eq", "both"):
                d_eq = delta()
                row = np.zeros(M.n)
                if rng.random() < 0.5:
                    row[int(rng.integers(M.n))] = d_eq
                else:
                    row = rng.standard_normal(M.n)
                    row *= d_eq / max(1e-300, np.max(np.abs(row)))
                hs0[0, :] += row
            ok, L = ctx.attempt(elm.EffectiveLindbladian, c_sys, hs0, is_physicality_required=False)
            if not ok:
                ctx.violation("EffectiveLindbladian.ctor:" + ctx.exc_key(L), {"viol": viol})
                continue
            v = Jd.view(L)
            ctx.nontrivial(shape, "verdict", viol, rank, base, np.round(hs0, 9) if max(d_eq, d_in) >= 1e-8 else hs0 * 1e6)
            if i < 2:
                ctx.sample({"mode": "verdict", "shape": shape, "violated": viol, "delta_eq": d_eq, "delta_ineq": d_in, "rank_K": rank,
                            "ref_eq_lo_hi": [v["eq_lo"], v["eq_hi"]], "ref_ineq": v["ineq"], "atol_ladder": ATOLS})
            prev = {"eq": False, "ineq": False, "phys": False, "tp": False, "cp": False}
            for a in ATOLS:
                for nm, fn in (("tp", lambda: L.is_tp(a)), ("cp", lambda: L.is_cp(atol=a)), ("eq", lambda: L.is_eq_constraint_satisfied(a)),
                               ("ineq", lambda: L.is_ineq_constraint_satisfied(a)), ("phys", lambda: L.is_physical(a, a))):
                    ok2, r = ctx.attempt(fn)
                    if not ok2:
                        ctx.violation(f"EffectiveLindbladian.verdict:{nm}:" + ctx.exc_key(r), {"atol": a})
                        continue
                    ctx.truth("EffectiveLindbladian.monotone-in-atol", not (prev[nm] and not r),
                              key=f"EffectiveLindbladian.{nm}:true-turns-false-when-atol-grows", info={"atol": a})
                    prev[nm] = bool(r)
            # through the global setting and the constructor with required physicality
            a = float(rng.choice(ATOLS))
            try:
                Settings.set_atol(a)
                ctx.attempt(L.is_physical)
                ctx.attempt(L.is_tp)
                ctx.attempt(L.is_cp)
                z1 = zone(v["eq_lo"], v["eq_hi"], a)
                z2 = zone(v["ineq"], v["ineq"], a, v["noise"])
                ok3, val = ctx.attempt(elm.EffectiveLindbladian, c_sys, hs0, is_physicality_required=True)
                info = {"atol": a, "eq": [v["eq_lo"], v["eq_hi"]], "ineq": v["ineq"], "raised": None if ok3 else repr(val)[:120]}
                if z1 == "accept" and z2 == "accept":
                    ctx.truth("EffectiveLindbladian.ctor-required", ok3, key="EffectiveLindbladian.ctor:rejects-physical", info=info)
                elif z1 == "reject" or z2 == "reject":
                    if ok3:
                        ctx.truth("EffectiveLindbladian.ctor-required", False, key="EffectiveLindbladian.ctor:accepts-violation", info=info)
                    else:
                        ctx.truth("EffectiveLindbladian.ctor-required", isinstance(val, ValueError),
                                  key=f"EffectiveLindbladian.ctor:raises-{type(val).__name__}-not-ValueError", info=info)
                else:
                    ctx.skip("EffectiveLindbladian.ctor-required")
            finally:
                Settings.set_atol(default_atol)
            # exponential and projections of this object
            okg, g = ctx.attempt(L.to_gate)
            if not okg:
                ctx.violation("to_gate:" + ctx.exc_key(g), {"viol": viol})
            okq, pe = ctx.attempt(L.calc_proj_eq_constraint)
            if not okq:
                ctx.violation("calc_proj_eq_constraint:" + ctx.exc_key(pe), {"viol": viol})
            ctx.attempt(L.calc_proj_ineq_constraint)  # exceptions are judged by the on_exc hook
            requery(ctx, L)
            prev_L = verdict_history(ctx, Jd, elm, L, prev_L, shape)
    finally:
        Settings.set_atol(default_atol)


def random_history(ctx, Jd, elm, RS, hist, st, kind, pool, i):
    """re-use of random-generation settings: the case's setting asked again (another stream, an integer seed), a second
    setting on the same system and one on the sibling system with other strengths / base generator / base object in
    between, and the settings of earlier cases once more.  The hook judges every call of
    generate_random_effective_lindbladian from what that call returned and the receiver's own strengths"""
    rng = ctx.rng(1)
    c_sys, M = hist.c_sys, hist.M

    def fresh_setting(cs, Mx, sfx):
        sh, sk = float(10 ** rng.uniform(-3, 1)), float(10 ** rng.uniform(-3, 1))
        ok, base = ctx.attempt(elm.generate_effective_lindbladian_from_h, cs, ref.rand_herm(Mx.d, rng))
        if not ok:
            ctx.violation("generate_effective_lindbladian_from_h:" + ctx.exc_key(base) + sfx, {})
            return None
        k2 = ("gate", "state", "povm")[int(rng.integers(3))]
        qb = gen.rand_gate(cs, rng, r=2) if k2 == "gate" else gen.rand_state(cs, rng) if k2 == "state" else gen.rand_povm(cs, 3, rng)
        ok, s2 = ctx.attempt(RS, cs, qb, base, sh, sk, is_physicality_required=bool(rng.random() < 0.5))
        if not ok:
            ctx.violation("RandomEffectiveLindbladianGenerationSetting.ctor:" + ctx.exc_key(s2) + sfx, {})
            return None
        return s2, k2

    def use(setting, k2, sfx, whole):
        seed = int(rng.integers(2 ** 31))
        arg = seed if rng.random() < 0.4 else np.random.default_rng(seed)
        with phase(Jd, sfx):
            if not whole:
                ok, out = ctx.attempt(setting.generate_random_effective_lindbladian, arg)
                if not ok:
                    ctx.violation("RandomEffectiveLindbladianGenerationSetting.generate_random_effective_lindbladian:" + ctx.exc_key(out) + sfx, {})
                return
            ok, out = ctx.attempt(setting.generate, arg)
        if not ok:
            ctx.violation("RandomEffectiveLindbladianGenerationSetting.generate:" + ctx.exc_key(out) + sfx, {"kind": k2})
            return
        gv = gen.ref_violations(out[0])
        ctx.num("random_setting:generated-object-physical", max(gv["eq"], gv["ineq"]), TP, TF,
                key=f"RandomEffectiveLindbladianGenerationSetting.generate:{k2}-not-physical" + sfx, info=gv)

    use(st, kind, ":re-used-setting", False)
    second = fresh_setting(c_sys, M, ":second-setting")
    if second is not None:
        use(second[0], second[1], ":second-setting", False)
    if hist.shape != "S2" or i == 0:
        c_sib, Ms = hist.sibling()
        sib = fresh_setting(c_sib, Ms, ":sibling-system")
        if sib is not None:
            use(sib[0], sib[1], ":sibling-system", hist.shape != "S2")
    use(st, kind, ":re-used-setting", True)
    if second is not None:
        use(second[0], second[1], ":second-setting", hist.shape == "S1")
    for old, k_old in pool[-2:]:
        use(old, k_old, ":re-used-setting", False)
    ctx.count("history:random-settings")


def run_random(ctx, hsx, Jd, M, c_sys, shape):
    import quara.objects.effective_lindbladian as elm
    from quara.simulation.random_effective_lindbladian_generation_setting import RandomEffectiveLindbladianGenerationSetting as RS

    p = ctx.params
    d = M.d
    hist = History(ctx, Jd, elm, c_sys, M, shape)
    pool = []  # settings of earlier cases, kept alive and used again
    for i in ctx.cases(p["n"]):
        rng = ctx.rng()
        sh = float(10 ** rng.uniform(-3, 1))
        sk = float(10 ** rng.uniform(-3, 1))
        H0 = ref.rand_herm(d, rng) if i % 2 else np.zeros((d, d), dtype=complex)
        ok, base = ctx.attempt(elm.generate_effective_lindbladian_from_h, c_sys, H0)
        if not ok:
            ctx.violation("generate_effective_lindbladian_from_h:" + ctx.exc_key(base), {})
            continue
        kind = ["gate", "state", "povm"][i % 3]
        if kind == "gate":
            qb = gen.rand_gate(c_sys, rng, r=2)
        elif kind == "state":
            qb = gen.rand_state(c_sys, rng)
        else:
            qb = gen.rand_povm(c_sys, 3, rng)
        ok, st = ctx.attempt(RS, c_sys, qb, base, sh, sk)
        if not ok:
            ctx.violation("RandomEffectiveLindbladianGenerationSetting.ctor:" + ctx.exc_key(st), {})
            continue
        stream = np.random.default_rng(int(rng.integers(2 ** 31)))
        ok, out = ctx.attempt(st.generate, stream)
        if not ok:
            ctx.violation("RandomEffectiveLindbladianGenerationSetting.generate:" + ctx.exc_key(out), {"kind": kind, "sh": sh, "sk": sk})
            continue
        obj = out[0]
        gv = gen.ref_violations(obj)
        ctx.num("random_setting:generated-object-physical", max(gv["eq"], gv["ineq"]), TP, TF,
                key=f"RandomEffectiveLindbladianGenerationSetting.generate:{kind}-not-physical", info=dict(gv, sh=sh, sk=sk))
        ctx.nontrivial(shape, "random", kind, sh, sk, np.round(np.asarray(out[4]), 9))
        if i < 1:
            ctx.sample({"mode": "random", "shape": shape, "base": kind, "strength_h": sh, "strength_k": sk, "random_part": np.asarray(out[4])})
        # the generator itself, exercised like any other
        ok, res = ctx.attempt(st.generate_random_effective_lindbladian, np.random.default_rng(int(rng.integers(2 ** 31))))
        if ok:
            exercise(ctx, hsx, Jd, elm, res[0], M, {}, "random", hist)
        random_history(ctx, Jd, elm, RS, hist, st, kind, pool, i)
        pool.append((st, kind))


def run_typical(ctx, hsx, Jd, M, c_sys, shape):
    import quara.objects.effective_lindbladian as elm
    import quara.objects.effective_lindbladian_typical as typ
    from quara.objects import gate_typical as gt

    if shape == "S1":
        todo = [(nm, None) for nm in gt.get_gate_names_1qubit()] + [("identity", None)]
    elif shape == "S3":
        todo = [(nm, None) for nm in gt.get_gate_names_1qutrit()] + [("identity", None)]
    else:
        todo = [("identity", None)]
        for nm in gt.get_gate_names_2qubit():
            todo += [(nm, [0, 1]), (nm, [1, 0])] if nm in gt.get_gate_names_2qubit_asymmetric() else [(nm, [0, 1])]
    dims = gen.SHAPES[shape]
    hist = History(ctx, Jd, elm, c_sys, M, shape)
    for i in ctx.cases(len(todo)):
        nm, ids = todo[i]
        with hsx.paused():
            okh, H = ctx.attempt(typ.generate_hamiltonian_mat_from_gate_name, nm, dims, ids)
        ok, L = ctx.attempt(typ.generate_effective_lindbladian_from_gate_name, nm, c_sys, ids)
        if not (ok and okh):
            ctx.violation("typical:" + ctx.exc_key(L if not ok else H), {"name": nm, "ids": ids})
            continue
        H = np.asarray(H, dtype=complex)
        ctx.num("typical:hs=-i[H,.]", mx(L.hs - M.mat(map_h(H))) / max(1.0, fro(H)), TP, TF,
                key="generate_effective_lindbladian_from_gate_name:hs-differs-from-commutator-with-catalogue-hamiltonian",
                info={"name": nm, "ids": ids})
        ctx.nontrivial(shape, "typical", nm, ids)
        if i < 1:
            ctx.sample({"mode": "typical", "shape": shape, "gate_name": nm, "ids": ids, "H": H})
        exercise(ctx, hsx, Jd, elm, L, M, {"H": H, "K": np.zeros((M.n - 1, M.n - 1), dtype=complex), "J": np.zeros((M.d, M.d), dtype=complex)},
                 "typical", hist if shape == "S1" or i % 3 == 0 else None)
        # the same name once more, after another name was generated in between (the catalogue assumes the standard basis,
        # so there is no sibling system here)
        nm2, ids2 = todo[(i + 1 + int(ctx.rng(1).integers(len(todo) - 1))) % len(todo)] if len(todo) > 1 else (nm, ids)
        ctx.attempt(typ.generate_effective_lindbladian_from_gate_name, nm2, c_sys, ids2)
        ok, L2 = ctx.attempt(typ.generate_effective_lindbladian_from_gate_name, nm, c_sys, ids)
        if not ok:
            ctx.violation("typical:second-call:" + ctx.exc_key(L2), {"name": nm, "ids": ids})
        else:
            ctx.num("typical:hs=-i[H,.]", mx(L2.hs - M.mat(map_h(H))) / max(1.0, fro(H)), TP, TF,
                    key="generate_effective_lindbladian_from_gate_name:hs-differs-from-commutator-with-catalogue-hamiltonian:second-call",
                    info={"name": nm, "ids": ids, "between": nm2})


def run_shard(ctx):
    import time

    p = ctx.params
    shape = p["shape"]
    c_sys = gen.make_csys(gen.SHAPES[shape])
    hsx, Jd = install(ctx)
    cpu0 = time.process_time()
    try:
        M = Jd.model(c_sys)
        st = self_test(M, np.random.default_rng(20180 + M.d))
        if not st <= 1e-10:
            ctx.mark_inconclusive(f"reference self-test failed: {st}")
            return
        {"gen": run_gen, "verdict": run_verdict, "random": run_random, "typical": run_typical}[p["mode"]](ctx, hsx, Jd, M, c_sys, shape)
    finally:
        hsx.uninstall()
    ctx.extra["hook_counts"] = hsx.counts
    ctx.extra["cpu_s"] = time.process_time() - cpu0
    need = {"gen": ["EffectiveLindbladian.calc_h_mat", "EffectiveLindbladian.calc_j_mat", "EffectiveLindbladian.calc_k_mat",
                    "EffectiveLindbladian.to_gate", "EffectiveLindbladian.calc_proj_eq_constraint",
                    "EffectiveLindbladian.calc_proj_ineq_constraint", "EffectiveLindbladian.calc_d_part"],
            "verdict": ["EffectiveLindbladian.is_physical", "EffectiveLindbladian.is_tp", "EffectiveLindbladian.is_cp"],
            "random": ["RandomEffectiveLindbladianGenerationSetting.generate_random_effective_lindbladian"],
            "typical": ["EffectiveLindbladian.calc_h_mat"]}[p["mode"]]
    if ctx.only_case is None:
        hsx.require(need)


def finalize(merged, ctx):
    cpu = sum((e["extra"] or {}).get("cpu_s", 0.0) for e in merged["extra"])
    ctx.count("cpu_seconds_all_shards", int(round(cpu)))
    # a history step that never ran must not pass silently
    missing = [n for n in History.MENU + ("verdicts", "random-settings") if not merged["counters"].get("history:" + n)]
    if missing and len(merged["extra"]) >= 36:
        ctx.mark_inconclusive("history steps never run: " + ", ".join(missing))
