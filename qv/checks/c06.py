"""C06  Composition implements quantum mechanics and is associative.

Argument convention of quara (stated once, read from the code and docstring of
``compose_qoperations``): ``compose_qoperations(e_1, ..., e_n)`` is the
operator product e_1 o e_2 o ... o e_n; it folds from the tail
(``temp = e_n; temp = _compose(e_k, temp)``), hence **the LAST argument is
applied FIRST in time** and ``_compose_qoperations(elem1, elem2)`` means
"elem1 after elem2".  Chains are written here in *time order* (earliest first,
e.g. "SMGP" = State, then MProcess, then Gate, then Povm) and handed to quara
reversed.

Monitors
  * contract on the binary dispatcher ``_compose_qoperations`` (step oracle):
    the operands are read as raw arrays (vec / hs / hss / vecs / ps), turned
    into operators with this module's own basis frame, composed in the
    reference algebra below and compared with what quara returned: values,
    outcome order, reported shape, probabilities (>= 0, sum 1), normalised
    post-states, physicality (gen.ref_violations);
  * contract on ``compose_qoperations`` for >= 3 operands (the fold);
  * contracts on ``Povm.generate_mprocess`` (induced POVM and the instrument of
    the mode) and ``MProcess.to_povm`` ({E_x^dagger(I)});
  * the per-type private helpers are hooked for evaluation counting.
Driver
  * every type-valid chain pattern [S](G|M)*[P] of length 2..4 (thorough: 5),
    random physical operands whose Kraus operators come from qv.ref's
    generators; the chain is evaluated in the reference algebra from those
    Kraus operators (never from quara) and through quara in *every* full
    parenthesisation by nested calls; all parenthesisations must give the same
    flattened outcome statistics in the same order, equal to the reference
    joint distribution laid out earliest-measurement-first, and the shape
    quara reports must be that earliest-first shape (or a merge of adjacent
    axes of it - a Povm carries no multi-shape, which is not judged).

History / combination steps (same oracles, nothing more demanded; keys that can only come from such a step carry a suffix)
  * provenance / options: operands of a chain are, with probability 0.3 each, not the directly constructed object but one
    reached through ``copy()``, ``generate_from_var(to_var())`` or a constructor call with ``is_physicality_required=False``
    (and in 8 % of the cases the whole operand list went through a pickle round trip, the way quara stores simulation
    results); 4- and 6-outcome MProcess operands are built with the constructor option ``shape=(2, m/2)`` in 40 % of the
    cases.  A derived operand is used only when its raw arrays reproduce the source to 1e-12 (what copy() does is not
    this property's business; the eps_zero a route drops - MProcess.copy() does - is read back from the object);
  * re-query (":second-call"): after all bracketings have been evaluated and judged, other calls are made (in half of
    the cases a TWIN chain - same pattern, same outcome counts, same composite system, other operands - is evaluated
    and judged against its own reference; the same Gate / MProcess object in both slots of one call; an operand KEPT
    from the previous case of the shard with an operand of this case; a short chain on a SIBLING composite system -
    another shape, or the same shape with another identity-first basis - living in the same process), then one bracketing or the flat call is evaluated AGAIN on the
    same operand objects and judged by the same oracles (reference, agreement with the first pass, shape, index access);
    the results of the first pass are then READ again (":result-changed-after-later-calls");
  * setter (":after-setter"): in a third of the cases with an MProcess one of them is switched to sampling mode through
    the public ``set_mode_sampling``, used once (a sampled post-state: outside the statement, not judged), switched back,
    and the second pass then runs on it;
  * generate_mprocess: on the SAME Povm object the modes are asked again in another order with other post-selected
    states and the other argument form (":second-call"), a second POVM of the same outcome count and a POVM kept from
    the previous case (":re-used-object") are asked in between, the POVM is also reached through copy() /
    generate_from_var (":via-copy", ":via-from-var"), and the MProcesses generated first are queried again at the end.

Exceptions: composing physical operands must not raise.  quara tests its results at atol=1e-13 and is free (C01) to
reject anything not physical to 1e-14, so an exception counts only when both operands are physical to 1e-14; for a
"not physically correct" exception the step is re-run on copies that do not demand quara's test and the values are
judged all the same - wrong values explain the exception (no key of its own), right values leave the exception as
the finding (class low-probability-outcome when an outcome with eps_zero < p < 1e-2 exists: round-off 1e-16/p of
sigma/p against atol 1e-13).

Reference algebra (independent of quara's bases): a CP map is the matrix S with
vec(E(X)) = S vec(X) for ROW-major vec, built by applying the Kraus map to the
matrix units; E^dagger(M) = unvec(S^H vec(M^dagger))^dagger.
"""
import itertools

import numpy as np

from qv import gen, ref
from qv.monitor import HookSet

ID = "C06"
RULE = ("every type-valid chain pattern [State](Gate|MProcess)*[Povm] of length 2..4 (thorough 2..5) x shapes S1,S3,S2, "
        "operands random physical with complex non-commuting Kraus operators (gates rank 1..3; POVMs m in 2..4, rank 1..d, "
        "also projective / rank-1 with an element orthogonal to the running pure state; MProcesses generic, Lueders-type "
        "U_x sqrt(M_x), or generated from a POVM in back-action mode 0/1/2) and pairwise DIFFERENT outcome counts per measuring "
        "factor; every full parenthesisation evaluated by nested compose_qoperations calls. Plus POVM x mode x state cases "
        "for generate_mprocess / to_povm, and threshold cases (a branch of weight 2..30 x eps_zero entering a second measurement, "
        "eps_zero in {1e-8,1e-6}; outcome probabilities 0, 3e-9 .. 1e-3). A case is distinct by (pattern, shape, outcome counts, rounded operand parameters) "
        "and non-trivial when it contains at least one non-identity operation acting on an asymmetric operand (always true "
        "for the random complex operands) - cases whose operand construction failed are not counted. History steps in every case: "
        "operands reached through copy() / generate_from_var / pickle / is_physicality_required=False / shape=(2,m/2); the same "
        "operand objects composed a second time after other calls (same object in both slots, an operand kept from the previous "
        "case, a twin chain of the same pattern and counts, a short chain on a sibling composite system of another shape or basis, "
        "set_mode_sampling on and off), first "
        "results read again afterwards; generate_mprocess asked repeatedly on one Povm object in other orders / with other "
        "post-selected states, interleaved with a second and a kept POVM")
OP = "quara/objects/operators.py:"
ANCHORS = [
    OP + "compose_qoperations", OP + "_compose_qoperations", OP + "_compose_qoperations_MProcess_MProcess",
    OP + "_compose_qoperations_MProcess_State_for_States", OP + "_compose_qoperations_MProcess_State",
    OP + "_compose_qoperations_MProcess_StateEnsemble", OP + "_compose_qoperations_Povm_MProcess",
    OP + "_compose_qoperations_Povm_StateEnsemble",
    "quara/objects/povm.py:Povm.generate_mprocess", "quara/objects/mprocess.py:MProcess.to_povm",
    "quara/objects/mprocess.py:MProcess.hs",
    "quara/utils/matrix_util.py:truncate_and_normalize",
    "quara/objects/state_ensemble.py:StateEnsemble.__init__",
    "quara/objects/multinomial_distribution.py:MultinomialDistribution.__init__",
]
REQUIRED_REACH = ANCHORS
REQUIRED_ORACLES = ["chain:bracketings-agree", "chain:vs-reference", "chain:shape", "MProcess.to_povm",
                    "Povm.generate_mprocess:induced-povm"]
MIN_EVALS = {"quick": 20000, "thorough": 200000}
WATCHDOG = {"quick": 900, "thorough": 3600}
EXHAUSTIVE = {"quick": True, "thorough": True}
EXHAUSTIVE_SCOPE = ("type patterns [S](G|M)*[P] of length 2..4 (quick) / 2..5 (thorough) and all Catalan(n-1) parenthesisations "
                    "of each; operands are sampled")
ASSUMPTIONS = [
    "quara's HS matrices / coefficient vectors are read through the reference convention E(B_b)=sum_a HS[a,b]B_a, "
    "X=sum_a x_a B_a (their faithfulness is property C02)",
    "outcome layout convention judged: earliest measurement = slowest (first) index, forced by "
    "compose(MProcess, StateEnsemble) / compose(Povm, StateEnsemble) which append the later measurement's axis",
    "a reported shape that merges adjacent axes of the earliest-first shape (e.g. the flat Povm of Povm o MProcess) is accepted",
    "probabilities <= 10*eps_zero may be zeroed and the rest renormalised (documented threshold): tolerance widened to "
    "2*eps_zero*m*steps there; the post-state returned for an outcome of probability <= 2*eps_zero is not judged, and above "
    "that its error is weighted by min(1, p*tol_pass/1e-14) (round-off of sigma/p)",
    "Lueders mode (1): 'spectral projectors' = eigenspace projectors; eigenvalues closer than 1e-9 count as one eigenvalue "
    "(violations there carry the key suffix ':degenerate-eigenvalues'); an element with a gap in (1e-9, 1e-3) is not judged",
    "history steps: an operand reached through copy() / generate_from_var / pickle / a relaxed constructor call is used only "
    "when its raw arrays reproduce the directly constructed one to 1e-12 (what those routes return is not judged here); an "
    "MProcess in sampling mode applied to a State / StateEnsemble returns a sampled post-state, which is not judged",
]

TOL = (1e-9, 1e-6)
TOL_SQRT = (1e-7, 1e-4)
VALID = {("Gate", "Gate"), ("Gate", "MProcess"), ("MProcess", "Gate"), ("MProcess", "MProcess"), ("Gate", "State"),
         ("Gate", "StateEnsemble"), ("MProcess", "State"), ("MProcess", "StateEnsemble"), ("Povm", "Gate"),
         ("Povm", "MProcess"), ("Povm", "State"), ("Povm", "StateEnsemble")}
DIST = "MultinomialDistribution"


# ------------------------------------------------------------ reference algebra


def sup_of_map(fn, d):
    """S with vec_row(E(X)) = S vec_row(X)"""
    S = np.zeros((d * d, d * d), dtype=np.complex128)
    for i in range(d):
        for j in range(d):
            e = np.zeros((d, d), dtype=np.complex128)
            e[i, j] = 1
            S[:, i * d + j] = np.asarray(fn(e)).reshape(-1)
    return S


def sup_of_kraus(ks, d):
    return sup_of_map(ref.kraus_map(ks), d)


def app(S, X):
    d = X.shape[0]
    return (S @ X.reshape(-1)).reshape(d, d)


def dual(S, M):
    """E^dagger(M):  Tr[E^dagger(M) X] = Tr[M E(X)]"""
    d = M.shape[0]
    return ref.dag((S.conj().T @ ref.dag(M).reshape(-1)).reshape(d, d))


def tw_state(rho):
    return {"t": "State", "rho": np.asarray(rho, dtype=np.complex128)}


def tw_gate(S):
    return {"t": "Gate", "S": S}


def tw_mprocess(Ss, shape=None, eps_zero=1e-8):
    return {"t": "MProcess", "Ss": list(Ss), "shape": tuple(shape) if shape is not None else (len(Ss),), "eps_zero": eps_zero}


def tw_povm(Ms, nums=None):
    return {"t": "Povm", "Ms": list(Ms), "nums": tuple(nums) if nums is not None else (len(Ms),)}


def ref_compose(a, b, variant=None):
    """a AFTER b.  Outcome layout: earliest measurement is the slowest index.
    variant (diagnosis only): 'reversed-time-order', 'transposed-layout'."""
    ta, tb = a["t"], b["t"]
    if ta == "Gate":
        S = a["S"]
        if tb == "Gate":
            return tw_gate(S @ b["S"])
        if tb == "MProcess":
            return tw_mprocess([S @ x for x in b["Ss"]], b["shape"])
        if tb == "State":
            return tw_state(app(S, b["rho"]))
        if tb == "StateEnsemble":
            return {"t": "StateEnsemble", "sig": [app(S, s) for s in b["sig"]], "shape": b["shape"]}
    elif ta == "MProcess":
        if tb == "Gate":
            return tw_mprocess([x @ b["S"] for x in a["Ss"]], a["shape"])
        if tb == "MProcess":
            if variant == "reversed-time-order":
                return tw_mprocess([se @ sl for se in b["Ss"] for sl in a["Ss"]], b["shape"] + a["shape"])
            if variant == "transposed-layout":
                return tw_mprocess([sl @ se for sl in a["Ss"] for se in b["Ss"]], a["shape"] + b["shape"])
            return tw_mprocess([sl @ se for se in b["Ss"] for sl in a["Ss"]], b["shape"] + a["shape"])
        if tb == "State":
            return {"t": "StateEnsemble", "sig": [app(x, b["rho"]) for x in a["Ss"]], "shape": a["shape"]}
        if tb == "StateEnsemble":
            if variant == "transposed-layout":
                return {"t": "StateEnsemble", "sig": [app(x, s) for x in a["Ss"] for s in b["sig"]], "shape": a["shape"] + b["shape"]}
            return {"t": "StateEnsemble", "sig": [app(x, s) for s in b["sig"] for x in a["Ss"]], "shape": b["shape"] + a["shape"]}
    elif ta == "Povm":
        if tb == "Gate":
            return tw_povm([dual(b["S"], M) for M in a["Ms"]], a["nums"])
        if tb == "MProcess":
            if variant == "transposed-layout":
                return tw_povm([dual(x, M) for M in a["Ms"] for x in b["Ss"]], a["nums"] + b["shape"])
            return tw_povm([dual(x, M) for x in b["Ss"] for M in a["Ms"]], b["shape"] + a["nums"])
        if tb == "State":
            return {"t": DIST, "ps": np.array([np.trace(M @ b["rho"]).real for M in a["Ms"]]), "shape": a["nums"]}
        if tb == "StateEnsemble":
            if variant == "transposed-layout":
                return {"t": DIST, "ps": np.array([np.trace(M @ s).real for M in a["Ms"] for s in b["sig"]]), "shape": a["nums"] + b["shape"]}
            return {"t": DIST, "ps": np.array([np.trace(M @ s).real for s in b["sig"] for M in a["Ms"]]), "shape": b["shape"] + a["nums"]}
    raise TypeError(f"{ta} after {tb}")


VARIANTS = {("MProcess", "MProcess"): ["reversed-time-order", "transposed-layout"], ("MProcess", "StateEnsemble"): ["transposed-layout"],
            ("Povm", "MProcess"): ["transposed-layout"], ("Povm", "StateEnsemble"): ["transposed-layout"]}


def tw_shape(tw):
    t = tw["t"]
    if t == "Povm":
        return tuple(tw["nums"])
    if t in ("MProcess", "StateEnsemble", DIST):
        return tuple(tw["shape"])
    return ()


def tw_probs(tw):
    """outcome probabilities carried by a twin (None if it has none)"""
    if tw["t"] == DIST:
        return np.asarray(tw["ps"], dtype=float)
    if tw["t"] == "StateEnsemble":
        return np.array([np.trace(s).real for s in tw["sig"]])
    return None


def tw_arrays(tw):
    """list of arrays (one per outcome) to compare element by element"""
    t = tw["t"]
    if t == "State":
        return [tw["rho"]]
    if t == "Gate":
        return [tw["S"]]
    if t == "MProcess":
        return list(tw["Ss"])
    if t == "Povm":
        return list(tw["Ms"])
    if t == "StateEnsemble":
        return list(tw["sig"])
    return [np.atleast_1d(p) for p in tw["ps"]]


def max_diff(xs, ys):
    if len(xs) != len(ys):
        return float("inf")
    e = 0.0
    for x, y in zip(xs, ys):
        if np.shape(x) != np.shape(y):
            return float("inf")
        e = max(e, float(np.max(np.abs(np.asarray(x) - np.asarray(y)))) if np.size(x) else 0.0)
    return e


def merges_of(reported, finest):
    """True iff `reported` is obtained from `finest` by merging adjacent axes
    (the flat index of every outcome is then unchanged)."""
    reported, finest = [int(x) for x in reported], [int(x) for x in finest]
    i = 0
    for r in reported:
        if i >= len(finest):
            return False
        acc = finest[i]
        i += 1
        while acc < r and i < len(finest):
            acc *= finest[i]
            i += 1
        if acc != r:
            return False
    return i == len(finest)


# ------------------------------------------------------- reading quara objects


class Frame:
    """operator <-> coefficient maps of one composite system (own code; the
    self-test ties it to qv.ref)"""

    def __init__(self, c_sys):
        self.c_sys = c_sys
        self.B = gen.basis_of(c_sys)
        self.d = int(c_sys.dim)
        self.T = np.array([b.reshape(-1) for b in self.B]).T  # vec_row(X) = T x
        self.Tinv = np.linalg.inv(self.T)

    def op(self, v):
        return (self.T @ np.asarray(v)).reshape(self.d, self.d)

    def sup(self, hs):
        return self.T @ ref.dense(hs) @ self.Tinv

    def hs_of_sup(self, S):
        return self.Tinv @ S @ self.T

    def coeffs(self, X):
        return self.Tinv @ np.asarray(X, dtype=np.complex128).reshape(-1)


class Frames:
    def __init__(self):
        self.cache = {}

    def of(self, c_sys):
        k = id(c_sys)
        f = self.cache.get(k)
        if f is None or f.c_sys is not c_sys:
            f = self.cache[k] = Frame(c_sys)
        return f

    def trim(self, keep):
        """forget the frames of composite systems other than `keep` (unpickled copies live for one case)"""
        ids = {id(c) for c in keep}
        self.cache = {k: f for k, f in self.cache.items() if k in ids}


def csys_of(obj):
    t = gen.type_of(obj)
    if t == "StateEnsemble":
        return obj.states[0].composite_system
    return obj.composite_system


def read(obj, frames):
    """twin of a quara object from its raw arrays"""
    t = gen.type_of(obj)
    if t == DIST:
        return {"t": DIST, "ps": np.array(obj.ps, dtype=float), "shape": tuple(obj.shape)}
    F = frames.of(csys_of(obj))
    if t == "State":
        return tw_state(F.op(obj.vec))
    if t == "Gate":
        return tw_gate(F.sup(obj.hs))
    if t == "MProcess":
        return tw_mprocess([F.sup(h) for h in obj.hss], obj.shape, float(obj.eps_zero))
    if t == "Povm":
        return tw_povm([F.op(v) for v in obj.vecs], obj.nums_local_outcomes)
    if t == "StateEnsemble":
        ps = np.array(obj.prob_dist.ps, dtype=float)
        rhos = [F.op(s.vec) for s in obj.states]
        return {"t": "StateEnsemble", "sig": [p * r for p, r in zip(ps, rhos)], "rhos": rhos, "ps": ps,
                "shape": tuple(obj.prob_dist.shape), "eps_zero": float(obj.eps_zero)}
    raise TypeError(t)


def raw_stat(obj):
    """flattened outcome statistics straight from quara's arrays (bracketing
    comparison needs no reference)"""
    t = gen.type_of(obj)
    if t == DIST:
        return np.array(obj.ps, dtype=float).ravel()
    if t == "State":
        return np.asarray(obj.vec, dtype=float).ravel()
    if t == "Gate":
        return ref.dense(obj.hs).real.ravel()
    if t == "MProcess":
        return np.concatenate([ref.dense(h).real.ravel() for h in obj.hss])
    if t == "Povm":
        return np.concatenate([np.asarray(v, dtype=float).ravel() for v in obj.vecs])
    if t == "StateEnsemble":
        ps = np.array(obj.prob_dist.ps, dtype=float).ravel()
        return np.concatenate([ps] + [p * np.asarray(s.vec, dtype=float).ravel() for p, s in zip(ps, obj.states)])
    raise TypeError(t)


def reported_shape(obj):
    t = gen.type_of(obj)
    if t == DIST:
        return tuple(obj.shape)
    if t == "MProcess":
        return tuple(obj.shape)
    if t == "StateEnsemble":
        return tuple(obj.prob_dist.shape)
    if t == "Povm":
        return tuple(obj.nums_local_outcomes)
    return ()


def eps_of(*objs):
    e = 1e-8
    for o in objs:
        v = getattr(o, "eps_zero", None)
        if v is not None:
            try:
                e = max(e, float(v))
            except Exception:
                pass
    return e


def prob_tols(p_ref, eps, steps=1, base=TOL):
    """(tol_pass, tol_fail, truncation_possible)"""
    p_ref = np.asarray(p_ref, dtype=float)
    if p_ref.size and float(np.min(p_ref)) <= 10 * eps:
        tp = 2 * eps * p_ref.size * steps + base[0]
        return tp, max(base[1], 100 * tp), True
    return base[0], base[1], False


def self_test(rng):
    """ties Frame / sup / dual to qv.ref; list of failures"""
    bad = []
    for dims in ([2], [3], [2, 2]):
        F = Frame(gen.make_csys(dims))
        d = F.d
        ks = ref.rand_kraus(d, 2, rng)
        S = sup_of_kraus(ks, d)
        rho = ref.rand_density(d, rng)
        M = ref.rand_povm(d, 2, rng)[0]
        hs = ref.hs_of_kraus(F.B, ks)
        e = [np.max(np.abs(app(S, rho) - ref.kraus_map(ks)(rho))),
             np.max(np.abs(S - sum(np.kron(k, k.conj()) for k in ks))),
             np.max(np.abs(F.sup(hs) - S)),
             np.max(np.abs(F.hs_of_sup(S) - hs)),
             np.max(np.abs(F.op(ref.coeffs(F.B, rho)) - rho)),
             np.max(np.abs(F.coeffs(rho) - ref.coeffs(F.B, rho))),
             np.max(np.abs(dual(S, M) - ref.dual_apply(F.B, hs, M))),
             np.max(np.abs(dual(S, M) - sum(ref.dag(k) @ M @ k for k in ks))),
             abs(np.trace(dual(S, M) @ rho) - np.trace(M @ app(S, rho)))]
        if max(e) > 1e-11:
            bad.append(f"{dims}: {e}")
    if not merges_of((6, 4), (2, 3, 4)) or merges_of((3, 2), (2, 3)) or not merges_of((2, 3), (2, 3)) or not merges_of((24,), (2, 3, 4)) \
            or merges_of((2, 12), (2, 3)) or merges_of((4, 6), (2, 3, 4)):
        bad.append("merges_of")
    return bad


# ---------------------------------------------------------------------- judge


class Judge:
    def __init__(self, ctx):
        self.ctx = ctx
        self.frames = Frames()
        self.flagged = set()  # mechanism labels of failed contracts since last reset
        self.bad_ids = {}  # id(obj) -> obj : results of failed contracts

    def flag(self, label, result=None):
        self.flagged.add(label)
        if result is not None:
            self.bad_ids[id(result)] = result

    def is_bad(self, obj):
        return self.bad_ids.get(id(obj)) is obj

    # ---- result against an expected twin
    def compare(self, prefix, label, result, exp, eps, steps=1, variants=None, tol=TOL, physical=True, info=None, suffix=""):
        """prefix: key prefix; label: mechanism label put into `flagged`; suffix: appended to every key."""
        ctx = self.ctx
        info = dict(info or {})
        rt = gen.type_of(result)
        if rt != exp["t"]:
            ctx.truth(f"{prefix}:result-type", False, key=f"{prefix}:result-type{suffix}", info=dict(info, got=rt, want=exp["t"]))
            self.flag(label, result)
            return False
        ctx.truth(f"{prefix}:result-type", True)
        got = read(result, self.frames)
        ok = True
        p_ref = tw_probs(exp)
        tp, tf, trunc = (tol[0], tol[1], False) if p_ref is None else prob_tols(p_ref, eps, steps, tol)
        xs, ys = tw_arrays(got), tw_arrays(exp)
        if len(xs) != len(ys):
            ctx.truth(f"{prefix}:outcome-count", False, key=f"{prefix}:outcome-count{suffix}", info=dict(info, got=len(xs), want=len(ys)))
            self.flag(label, result)
            return False
        # --- values, in order
        err = max_diff(xs, ys)
        key = f"{prefix}:value{suffix}"
        if err >= tf and variants:
            for name, alt in variants():
                if max_diff(xs, tw_arrays(alt)) <= tp:
                    key = f"{prefix}:{name}{suffix}"
                    break
        v = ctx.num(f"{prefix}:value", err, tp, tf, key=key, info=dict(info, truncation_zone=trunc, n_outcomes=len(xs)))
        if v == "fail":
            ok = False
        # --- probabilities and post-states
        if p_ref is not None:
            p_got = tw_probs(got) if exp["t"] == DIST else got["ps"]
            neg = float(max(0.0, -np.min(p_got))) if p_got.size else 0.0
            s = float(np.sum(p_got))
            if not ctx.truth(f"{prefix}:prob-nonnegative", neg == 0.0, key=f"{prefix}:negative-probability{suffix}", info=dict(info, min=float(np.min(p_got)))):
                ok = False
            if s == 0.0 and float(np.sum(p_ref)) <= 10 * eps:
                ctx.skip(f"{prefix}:prob-sum")
            elif ctx.num(f"{prefix}:prob-sum", abs(s - float(np.sum(p_ref))), tp, tf, key=f"{prefix}:probabilities-do-not-sum-to-one{suffix}",
                         info=dict(info, sum=s, want=float(np.sum(p_ref)))) == "fail":
                ok = False
            if ctx.num(f"{prefix}:prob", float(np.max(np.abs(p_got - p_ref))), tp, tf, key=f"{prefix}:prob{suffix}", info=dict(info, truncation_zone=trunc)) == "fail":
                ok = False
            if exp["t"] == "StateEnsemble":
                # normalised post-states of every outcome that is certainly not truncated (p > 2 eps_zero); sigma/p carries
                # the round-off ~1e-15/p, so the error is weighted by min(1, p*tol_pass/1e-14) (full weight for p >= 1e-14/tol_pass)
                e_post, e_norm, n_j = 0.0, 0.0, 0
                got["weights"] = [min(1.0, pr * tp / 1e-14) if pr > 2 * eps else 0.0 for pr in p_ref]
                for pr, sg, rq in zip(p_ref, exp["sig"], got["rhos"]):
                    if pr > 2 * eps:
                        wgt = min(1.0, pr * tp / 1e-14)
                        e_post = max(e_post, wgt * float(np.max(np.abs(rq - sg / pr))))
                        trq = np.trace(rq)
                        e_norm = max(e_norm, wgt * float(np.max(np.abs(rq / trq - sg / pr))) if abs(trq) > 1e-12 else float("inf"))
                        n_j += 1
                    else:
                        ctx.count("post-state-not-judged(p<=2*eps_zero)")
                if n_j:
                    cls = "post-state-not-normalised" if (e_post >= tf and e_norm <= tp) else "post-state-wrong"
                    if trunc:
                        cls += ":truncated-outcomes-present"
                    if ctx.num(f"{prefix}:post-state", e_post, tp, tf, key=f"{prefix}:{cls}{suffix}", info=dict(info, judged=n_j, eps_zero=eps)) == "fail":
                        ok = False
                else:
                    ctx.skip(f"{prefix}:post-state")
        # --- reported shape
        fin = tw_shape(exp)
        if fin:
            rep = reported_shape(result)
            if not ctx.truth(f"{prefix}:shape", merges_of(rep, fin), key=f"{prefix}:shape-contradicts-layout{suffix}",
                             info=dict(info, reported=list(rep), earliest_first=list(fin))):
                ok = False
        # --- physicality of the result
        if physical and ok:
            if not self.physical(prefix, result, got, info, suffix, (tp, tf)):
                ok = False
        elif physical:
            ctx.count("physicality-not-judged(values already wrong)")
        if not ok:
            self.flag(label, result)
        return ok

    def physical(self, prefix, result, got, info=None, suffix="", tols=TOL):
        ctx = self.ctx
        t = gen.type_of(result)
        if t == DIST:
            return True  # >=0 and sum judged above
        if t == "StateEnsemble":
            worst = 0.0
            n = 0
            for wgt, r in zip(got.get("weights", [0.0] * len(got["rhos"])), got["rhos"]):
                if wgt > 0:  # same outcomes and round-off weighting as the post-state comparison
                    worst = max(worst, wgt * max(abs(np.trace(r) - 1), ref.psd_violation(r), ref.herm_violation(r)))
                    n += 1
            if not n:
                ctx.skip(f"{prefix}:physical")
                return True
            return ctx.num(f"{prefix}:physical", worst, tols[0], tols[1], key=f"{prefix}:not-physical{suffix}", info=info) != "fail"
        if t == "MProcess" and len(result.hss) > 40:
            # large products: own (cheaper) evaluation of the same definitions
            Ss = got["Ss"]
            d = int(round(np.sqrt(Ss[0].shape[0])))
            eq = float(np.max(np.abs(dual(sum(Ss), np.eye(d, dtype=complex)) - np.eye(d))))
            ineq = 0.0
            for S in Ss:
                C = S.reshape(d, d, d, d).transpose(0, 2, 1, 3).reshape(d * d, d * d)  # C[(a,i),(b,j)] = E(|i><j|)[a,b]
                ineq = max(ineq, ref.psd_violation(C))
            v = {"eq": eq, "ineq": ineq}
            ctx.count("physical:own-evaluation")
        else:
            v = gen.ref_violations(result)
            ctx.count("physical:gen.ref_violations")
        return ctx.num(f"{prefix}:physical", max(v["eq"], v["ineq"]), TOL[0], TOL[1], key=f"{prefix}:not-physical{suffix}", info=dict(info or {}, **v)) != "fail"


def relaxed(obj):
    """copy of a quara operand with is_physicality_required=False (same raw arrays)"""
    Q = gen.q()
    t = gen.type_of(obj)
    if t == "State":
        return Q.State(obj.composite_system, np.array(obj.vec, dtype=np.float64), is_physicality_required=False)
    if t == "Gate":
        return Q.Gate(obj.composite_system, np.array(ref.dense(obj.hs).real, dtype=np.float64), is_physicality_required=False)
    if t == "Povm":
        return Q.Povm(obj.composite_system, [np.array(v, dtype=np.float64) for v in obj.vecs], is_physicality_required=False)
    if t == "MProcess":
        return Q.MProcess(obj.composite_system, [np.array(ref.dense(h).real, dtype=np.float64) for h in obj.hss], shape=obj.shape,
                          is_physicality_required=False, eps_zero=obj.eps_zero)
    if t == "StateEnsemble":
        from quara.objects.multinomial_distribution import MultinomialDistribution
        from quara.objects.state_ensemble import StateEnsemble

        pd = MultinomialDistribution(np.array(obj.prob_dist.ps, dtype=np.float64), shape=obj.prob_dist.shape)
        return StateEnsemble([relaxed(s) for s in obj.states], pd, eps_zero=obj.eps_zero)
    raise TypeError(t)


def operands_physical(objs, tol=1e-9):
    """are the operands physical per the reference (zero-probability zero states inside ensembles aside)?"""
    for o in objs:
        t = gen.type_of(o)
        if t in ("StateEnsemble", DIST):
            continue
        v = gen.ref_violations(o)
        if max(v["eq"], v["ineq"]) > tol:
            return False
    return True


# ---------------------------------------------------------------------- hooks


def mode1_expected(M):
    """(S, judged, degenerate) for the Lueders instrument  X -> sum_i p_i P_i X P_i  over the spectral projectors
    (eigenspace projectors) of M.  Eigenvalues closer than 1e-9 are one eigenvalue; a gap in (1e-9, 1e-3) is ambiguous
    (not judged); degenerate = some non-zero eigenvalue has a more than one-dimensional eigenspace."""
    d = M.shape[0]
    w, v = np.linalg.eigh(ref.herm_part(M))
    nz = [i for i in range(d) if w[i] > 1e-9]
    judged, degenerate = True, False
    groups = []
    for i in nz:
        gap = (w[i] - w[groups[-1][-1]]) if groups else None
        if groups and gap <= 1e-9:
            groups[-1].append(i)
            degenerate = True
        else:
            if groups and gap < 1e-3:
                judged = False
            groups.append([i])
    if nz and w[nz[0]] < 1e-3 and any(1e-13 < abs(x) <= 1e-9 for x in w):
        judged = False
    S = np.zeros((d * d, d * d), dtype=np.complex128)
    for g in groups:
        P = sum(np.outer(v[:, i], v[:, i].conj()) for i in g)
        S += float(np.mean(w[g])) * sup_of_map(lambda X, P=P: P @ X @ P, d)
    return S, judged, degenerate


def install(ctx):
    import quara.objects.operators as ops
    from quara.objects.mprocess import MProcess
    from quara.objects.povm import Povm

    hs = HookSet(ctx)
    J = Judge(ctx)

    def sampling(t1, t2, elem1):
        """an MProcess in sampling mode applied to a State / StateEnsemble returns a SAMPLED post-state: not covered by the
        statement, not judged (the history step switches the mode on and off through the public setter)"""
        return t1 == "MProcess" and t2 in ("State", "StateEnsemble") and bool(getattr(elem1, "mode_sampling", False))

    # ---- binary dispatcher: the step oracle
    def post_step(result, snap, elem1, elem2, from_exc=False):
        t1, t2 = gen.type_of(elem1), gen.type_of(elem2)
        if (t1, t2) not in VALID:
            return True
        if sampling(t1, t2, elem1):
            ctx.count("step:not-judged(sampling mode)")
            return True
        pair = f"{t1}*{t2}"
        a, b = read(elem1, J.frames), read(elem2, J.frames)
        exp = ref_compose(a, b)
        if (t1, t2) == ("Povm", "State"):
            tr = float(np.trace(b["rho"]).real)
            if 0 < abs(tr - 1) <= 1e-6:
                # a post-state normalised with truncated-and-renormalised probabilities: Born rule of rho / Tr rho
                exp["ps"] = exp["ps"] / tr
        var = None
        if (t1, t2) in VARIANTS:
            def var():
                for name in VARIANTS[(t1, t2)]:
                    yield name, ref_compose(a, b, name)
        # zero-probability placeholders (zero vectors) inside ensembles are not physical operands
        phys = all(abs(np.trace(x["rho"]) - 1) <= 1e-9 for x in (a, b) if x["t"] == "State")
        if not phys:
            ctx.count("step:non-physical-placeholder-operand")
        ok = J.compare(f"compose:{pair}", f"{pair}", result, exp, eps_of(elem1, elem2), steps=1, variants=var, physical=phys,
                       info={"pair": pair, "dim": int(csys_of(elem1).dim)})
        if not from_exc:
            ctx.truth("compose:exception", True)
        ctx.count(f"step:{pair}")
        return ok

    def exc_step(exc, snap, elem1, elem2):
        t1, t2 = gen.type_of(elem1), gen.type_of(elem2)
        if (t1, t2) not in VALID or getattr(exc, "_qv_seen", False):
            return
        try:
            exc._qv_seen = True
        except Exception:
            pass
        if sampling(t1, t2, elem1):
            ctx.count("exception-not-judged:sampling-mode")
            return
        if csys_of(elem1) != csys_of(elem2):
            return
        if not operands_physical([elem1, elem2], 1e-14):
            # quara tests results at atol=1e-13 and may (C01: free zone above atol/10) reject anything that is not physical
            # to 1e-14; operands that are themselves only physical to 1e-13..1e-9 (deep products, scipy's sqrtm of a
            # singular matrix) can legitimately lead there: not judged
            ctx.count("exception-not-judged:operands-not-physical-to-1e-14")
            ctx.skip("compose:exception")
            return
        J.flag(f"{t1}*{t2}")
        info = {"message": str(exc)[:200], "dim": int(csys_of(elem1).dim)}
        cls = ""
        if "physically correct" in str(exc):
            # quara's own physicality test refused a result.  The values it computes are judged all the same (so that
            # this exception cannot mask another break): the same step on copies of the operands that do not demand the
            # test.  If those values are wrong, their keys explain the exception and it gets no key of its own.
            try:
                r1, r2 = relaxed(elem1), relaxed(elem2)
                res = ops._compose_qoperations(r1, r2)  # unobserved: hooks are paused inside a contract
            except Exception as e2:  # noqa: BLE001
                ctx.count("exception:relaxed-rerun-raised:" + type(e2).__name__)
                res = None
            if res is not None:
                ctx.count("exception:relaxed-rerun-judged")
                if not post_step(res, None, r1, r2, from_exc=True):
                    ctx.count("exception:explained-by-wrong-values")
                    ctx.skip("compose:exception")
                    return
            if t1 == "MProcess" and t2 in ("State", "StateEnsemble"):
                # values right: a post-state sigma_x/p_x carries the round-off 1e-16/p_x, which quara then tests at atol=1e-13
                pr = tw_probs(ref_compose(read(elem1, J.frames), read(elem2, J.frames)))
                low = pr[(pr > eps_of(elem1, elem2)) & (pr < 1e-2)]
                info["reference_probabilities_below_1e-2"] = low
                if low.size:
                    cls = "low-probability-outcome:"
        ctx.truth("compose:exception", False, key=f"compose:{t1}*{t2}:{cls}" + ctx.exc_key(exc), info=info)

    hs.function(ops, "_compose_qoperations", post=post_step, on_exc=exc_step)

    # ---- n-ary fold
    def post_nary(result, snap, *elements):
        lst = []
        for e in elements:
            lst.extend(e) if type(e) == list else lst.append(e)
        if len(lst) < 3:
            return
        tws = [read(e, J.frames) for e in lst]
        exp = tws[-1]
        for t in reversed(tws[:-1]):
            exp = ref_compose(t, exp)
        if J.flagged - (snap or frozenset()):
            ctx.count("n-ary:not-judged(a step contract inside already failed)")
            return
        J.compare("compose:n-ary", "n-ary-fold", result, exp, eps_of(*lst), steps=len(lst) - 1, physical=False,
                  info={"types": [gen.type_of(e) for e in lst]})

    hs.function(ops, "compose_qoperations", post=post_nary, pre=lambda *a, **k: frozenset(J.flagged))
    for name in ("_compose_qoperations_MProcess_MProcess", "_compose_qoperations_MProcess_State_for_States",
                 "_compose_qoperations_MProcess_State", "_compose_qoperations_MProcess_StateEnsemble",
                 "_compose_qoperations_Povm_MProcess", "_compose_qoperations_Povm_StateEnsemble"):
        hs.function(ops, name)

    # ---- MProcess.to_povm = {E_x^dagger(I)}
    def post_to_povm(result, snap, self):
        F = J.frames.of(self.composite_system)
        I = np.eye(F.d, dtype=complex)
        want = [dual(F.sup(h), I) for h in self.hss]
        if gen.type_of(result) != "Povm" or len(result.vecs) != len(want):
            ctx.truth("MProcess.to_povm", False, key="MProcess.to_povm:outcome-count", info={"got": len(getattr(result, "vecs", [])), "want": len(want)})
            J.flag("MProcess.to_povm", result)
            return
        err = max_diff([F.op(v) for v in result.vecs], want)
        if ctx.num("MProcess.to_povm", err, *TOL, key="MProcess.to_povm:elements-differ-from-dual-of-identity", info={"dim": F.d, "m": len(want)}) == "fail":
            J.flag("MProcess.to_povm", result)

    hs.method(MProcess, "to_povm", post=post_to_povm)

    # ---- Povm.generate_mprocess
    def gm_args(a, kw):
        mode = kw.get("mode_backaction", a[0] if len(a) > 0 else 0)
        pss = kw.get("post_selected_states", a[1] if len(a) > 1 else None)
        return mode, pss

    def gm_valid(self, mode, pss):
        if mode in (0, 1) and pss is None:
            pass
        elif mode == 2 and pss is not None:
            lst = pss if type(pss) == list else [pss]
            if type(pss) == list and len(pss) != len(self.vecs):
                return False
            if not operands_physical(lst):
                return False
        else:
            return False
        return operands_physical([self])

    def post_gm(result, snap, self, *a, **kw):
        mode, pss = gm_args(a, kw)
        if not gm_valid(self, mode, pss):
            return
        F = J.frames.of(self.composite_system)
        d = F.d
        Ms = [F.op(v) for v in self.vecs]
        label = f"Povm.generate_mprocess:mode={mode}"
        info = {"mode": mode, "dim": d, "m": len(Ms), "ranks": [int(np.linalg.matrix_rank(M, tol=1e-9)) for M in Ms]}
        if gen.type_of(result) != "MProcess" or len(result.hss) != len(Ms):
            ctx.truth("Povm.generate_mprocess:induced-povm", False, key=f"{label}:outcome-count", info=info)
            J.flag(label, result)
            return
        Ss = [F.sup(h) for h in result.hss]
        I = np.eye(d, dtype=complex)
        tol = TOL_SQRT if mode == 0 else TOL
        bad = False
        e1 = max_diff([dual(S, I) for S in Ss], Ms)
        if ctx.num("Povm.generate_mprocess:induced-povm", e1, *tol, key=f"{label}:induced-povm-differs", info=info) == "fail":
            bad = True
        judged, degenerate = True, False
        if mode == 0:
            want = []
            for M in Ms:
                r = ref.sqrtm_psd(M)
                want.append(sup_of_map(lambda X, r=r: r @ X @ r, d))
        elif mode == 1:
            want = []
            for M in Ms:
                S, j, dg = mode1_expected(M)
                judged = judged and j
                degenerate = degenerate or dg
                want.append(S)
        else:
            lst = pss if type(pss) == list else [pss] * len(Ms)
            rhos = [F.op(s.vec) for s in lst]
            want = [sup_of_map(lambda X, M=M, r=r: np.trace(M @ X) * r, d) for M, r in zip(Ms, rhos)]
        if judged:
            e2 = max_diff(Ss, want)
            if ctx.num("Povm.generate_mprocess:instrument", e2, *tol, key=f"{label}:post-state" + (":degenerate-eigenvalues" if degenerate else ""),
                       info=dict(info, degenerate=degenerate)) == "fail":
                bad = True
        else:
            ctx.skip("Povm.generate_mprocess:instrument")
        v = gen.ref_violations(result)
        if ctx.num("Povm.generate_mprocess:physical", max(v["eq"], v["ineq"]), *tol, key=f"{label}:not-physical", info=dict(info, **v)) == "fail":
            bad = True
        if bad:
            J.flag(label, result)
        ctx.count(f"generate_mprocess:mode={mode}")

    def exc_gm(exc, snap, self, *a, **kw):
        mode, pss = gm_args(a, kw)
        if not gm_valid(self, mode, pss):
            return
        label = f"Povm.generate_mprocess:mode={mode}"
        J.flag(label)
        ctx.violation(f"{label}:" + ctx.exc_key(exc), {"message": str(exc)[:200], "dim": int(self.composite_system.dim), "m": len(self.vecs)})

    hs.method(Povm, "generate_mprocess", post=post_gm, on_exc=exc_gm)
    return hs, J


# ------------------------------------------------------------------- workload


def patterns(n):
    """time-ordered type patterns of length n: [S](G|M)*[P]"""
    out = []
    for s in (1, 0):
        for p in (1, 0):
            k = n - s - p
            if k < 0 or (k == 0 and not (s and p)):
                continue
            for mid in itertools.product("GM", repeat=k):
                out.append("S" * s + "".join(mid) + "P" * p)
    return out


def trees(i, j):
    """all full parenthesisations of positions i..j-1 as nested tuples"""
    if j - i == 1:
        yield i
        return
    for k in range(i + 1, j):
        for L in trees(i, k):
            for R in trees(k, j):
                yield (L, R)


def tree_str(t, names):
    if isinstance(t, int):
        return names[t]
    return "(" + tree_str(t[0], names) + "*" + tree_str(t[1], names) + ")"


def unitary_first_col(v, rng):
    d = len(v)
    a = rng.standard_normal((d, d)) + 1j * rng.standard_normal((d, d))
    a[:, 0] = v
    q, r = np.linalg.qr(a)
    q = q * (np.diag(r) / np.abs(np.diag(r)))
    return q  # q[:,0] = v/|v|


def rank1_vectors(d, m, rng):
    """phi_x with sum |phi_x><phi_x| = I (m >= d)"""
    while True:
        a = rng.standard_normal((d, m)) + 1j * rng.standard_normal((d, m))
        S = a @ ref.dag(a)
        w, v = np.linalg.eigh(S)
        if w[0] > 0.05 * w[-1]:
            break
    Sm = (v * w ** -0.5) @ ref.dag(v)
    return [Sm @ a[:, x] for x in range(m)]


def good_povm(d, m, rng, rank):
    """ref.rand_povm, redrawn until the elements sum to the identity to 3e-15 (S^-1/2 can be ill conditioned)"""
    for _ in range(50):
        Ms = ref.rand_povm(d, m, rng, rank)
        if np.max(np.abs(sum(Ms) - np.eye(d))) <= 3e-15:
            break
    return Ms


def aim_element_zero(phis, v, rng, p_target):
    """rotate rank-1 vectors so that |<v|phi_0>|^2 = p_target (v unit)"""
    d = len(v)
    phi0 = phis[0]
    n0 = np.linalg.norm(phi0)
    w = rng.standard_normal(d) + 1j * rng.standard_normal(d)
    w = w - v * np.vdot(v, w)
    w = w / np.linalg.norm(w)
    s2 = min(1.0, p_target / n0 ** 2)
    u = np.sqrt(1 - s2) * w + np.sqrt(s2) * v
    W = unitary_first_col(u, rng) @ ref.dag(unitary_first_col(phi0, rng))
    return [W @ p for p in phis]


class Builder:
    """operands of one chain: quara objects + truth twins from the generator's operators"""

    def __init__(self, ctx, J, hs, c_sys, rng, hrng=None):
        self.ctx, self.J, self.hs, self.c_sys, self.rng = ctx, J, hs, c_sys, rng
        self.hrng = hrng  # stream of the history / option decisions (None: none are taken)
        self.F = J.frames.of(c_sys)
        self.d = self.F.d
        self.v = None  # running pure vector of one branch (for impossible outcomes)
        self.descr = []
        self.raw = []
        self.sqrt_used = False  # an operand came out of scipy's sqrtm (mode 0): accurate to ~1e-8 only

    def p_target(self):
        r = self.rng.random()
        return 0.0 if r < 0.7 else float(self.rng.choice([3e-9, 3e-8, 1e-7, 1e-5, 1e-3]))

    def state(self, kind=None):
        rng, d = self.rng, self.d
        kind = kind or str(rng.choice(["pure", "pure", "mixed", "rankdef"]))
        if kind == "pure":
            v = rng.standard_normal(d) + 1j * rng.standard_normal(d)
            v = v / np.linalg.norm(v)
            rho = np.outer(v, v.conj())
            self.v = v
        elif kind == "rankdef":
            rho = ref.rand_density(d, rng, max(1, d - 1))
        else:
            rho = ref.rand_density(d, rng)
        obj = gen.make_state(self.c_sys, rho, is_physicality_required=True)
        self.descr.append(f"State[{kind}]")
        self.raw.append(rho)
        return obj, tw_state(rho)

    def gate(self):
        rng, d = self.rng, self.d
        r = int(rng.integers(1, 4))
        ks = ref.rand_kraus(d, r, rng)
        obj = gen.make_gate(self.c_sys, kraus=ks, is_physicality_required=True)
        if r == 1 and self.v is not None:
            self.v = ks[0] @ self.v
            self.v = self.v / np.linalg.norm(self.v)
        else:
            self.v = None
        self.descr.append(f"Gate[kraus-rank={r}]")
        self.raw.append(np.array(ks))
        return obj, tw_gate(sup_of_kraus(ks, d))

    def povm_ops(self, m, kind=None, p_target=None):
        """(kind, Ms, phis|None)"""
        rng, d = self.rng, self.d
        kinds = ["generic", "lowrank", "projective"] + (["rank1", "rank1"] if m >= d else [])
        kind = kind or str(rng.choice(kinds))
        phis = None
        if kind == "rank1":
            phis = rank1_vectors(d, m, rng)
            if self.v is not None:
                phis = aim_element_zero(phis, self.v, rng, self.p_target() if p_target is None else p_target)
            Ms = [np.outer(p, p.conj()) for p in phis]
        elif kind == "projective":
            u = ref.rand_unitary(d, rng) if rng.random() < 0.8 else np.eye(d, dtype=complex)
            if self.v is not None and rng.random() < 0.7:
                # the running state is an eigenvector: all but one outcome impossible
                u = unitary_first_col(self.v, rng)
            k = min(m, d)
            perm = rng.permutation(d)
            if rng.random() < 0.5:
                groups = [g for g in np.array_split(perm, k)]
            else:
                # uneven split: eigenspaces of every multiplicity 1..d-k+1 occur
                cuts = np.sort(rng.choice(np.arange(1, d), size=k - 1, replace=False)) if k > 1 else []
                groups = [g for g in np.split(perm, cuts)]
            Ms = [sum(np.outer(u[:, i], u[:, i].conj()) for i in g) for g in groups]
            # m > d: split one projector into weighted copies so that the outcome count is kept
            while len(Ms) < m:
                Ms[-1] = 0.25 * Ms[-1]
                Ms.append(3.0 * Ms[-1])
        else:
            lo = -(-d // m)
            rank = d if kind == "generic" else int(rng.integers(lo, d + 1))
            Ms = good_povm(d, m, rng, rank)
        return kind, [np.asarray(M, dtype=np.complex128) for M in Ms], phis

    def povm(self, m):
        kind, Ms, _ = self.povm_ops(m)
        obj = gen.make_povm(self.c_sys, Ms, is_physicality_required=True)
        self.descr.append(f"Povm[{kind},m={m}]")
        self.raw.append(np.array(Ms))
        return obj, tw_povm(Ms)

    def mprocess(self, m, kind=None, eps_zero=None, povm_kind=None, p_target=None, track=1):
        rng, d, ctx = self.rng, self.d, self.ctx
        kind = kind or str(rng.choice(["generic", "generic", "lueders", "from-povm"]))
        eps_zero = eps_zero or (1e-8 if rng.random() < 0.9 else 1e-6)
        obj = None
        if kind == "generic":
            sets = ref.rand_instrument(d, m, rng, [int(rng.integers(1, 3)) for _ in range(m)])
            Ss = [sup_of_kraus(ks, d) for ks in sets]
            self.v = None
            self.raw.append(np.concatenate([np.array(ks).ravel() for ks in sets]))
        elif kind == "lueders":
            pk, Ms, phis = self.povm_ops(m, povm_kind, p_target)
            us = [ref.rand_unitary(d, rng) for _ in range(m)]
            sets = [[u @ ref.sqrtm_psd(M)] for u, M in zip(us, Ms)]
            Ss = [sup_of_kraus(ks, d) for ks in sets]
            if self.v is not None and m > 1:
                w = sets[track][0] @ self.v
                self.v = w / np.linalg.norm(w) if np.linalg.norm(w) > 1e-6 else None
            kind = f"lueders:{pk}"
            self.raw.append(np.concatenate([np.array(ks).ravel() for ks in sets]))
        else:
            pk, Ms, phis = self.povm_ops(m)
            mode = int(rng.integers(0, 3))
            povm = gen.make_povm(self.c_sys, Ms, is_physicality_required=True)
            pss = None
            if mode == 0:
                Ss = [sup_of_map(lambda X, r=ref.sqrtm_psd(M): r @ X @ r, d) for M in Ms]
            elif mode == 1:
                pairs = [mode1_expected(M) for M in Ms]
                Ss = [p[0] for p in pairs]
                if not all(p[1] for p in pairs) or any(p[2] for p in pairs):
                    mode = 0
                    Ss = [sup_of_map(lambda X, r=ref.sqrtm_psd(M): r @ X @ r, d) for M in Ms]
            else:
                rhos = [ref.rand_density(d, rng, int(rng.integers(1, d + 1))) for _ in Ms]
                pss = [gen.make_state(self.c_sys, r, is_physicality_required=True) for r in rhos]
                Ss = [sup_of_map(lambda X, M=M, r=r: np.trace(M @ X) * r, d) for M, r in zip(Ms, rhos)]
                self.raw.append(np.array(rhos))
            self.J.flagged.discard(f"Povm.generate_mprocess:mode={mode}")
            ok, got = ctx.attempt(povm.generate_mprocess, mode) if pss is None else ctx.attempt(povm.generate_mprocess, mode, pss)
            if ok and not self.J.is_bad(got):
                obj = got
                self.sqrt_used = self.sqrt_used or mode == 0
                ctx.count("operand:generated-mprocess-used")
            else:
                ctx.count("operand:generated-mprocess-rejected-by-its-contract")
            self.v = None
            kind = f"from-povm:{pk}:mode={mode}"
            self.raw.append(np.array(Ms))
        shape = (m,)
        if obj is None:
            hss = [np.ascontiguousarray(self.F.hs_of_sup(S).real) for S in Ss]
            if self.hrng is not None and m in (4, 6) and self.hrng.random() < 0.4:
                shape = (2, m // 2)  # constructor option: the same outcomes labelled by two indices (row-major)
            obj = gen.make_mprocess(self.c_sys, hss=hss, shape=shape, is_physicality_required=True, eps_zero=eps_zero)
        else:
            eps_zero = float(obj.eps_zero)
            shape = tuple(int(x) for x in obj.shape)
        self.descr.append(f"MProcess[{kind},m={m},eps_zero={eps_zero:g}" + (f",shape={shape}" if len(shape) > 1 else "") + "]")
        return obj, tw_mprocess(Ss, shape, eps_zero)


def outcome_counts(pattern, rng):
    """pairwise different outcome counts for the measuring factors (Povm <= 4)"""
    idx = [i for i, c in enumerate(pattern) if c in "MP"]
    pool = [2, 3, 4, 5] + ([6] if len(idx) > 4 else [])
    cnt = [int(x) for x in rng.permutation(pool)[:len(idx)]]
    if idx and pattern[idx[-1]] == "P" and cnt[-1] > 4:
        j = min(range(len(cnt)), key=lambda k: cnt[k])
        cnt[j], cnt[-1] = cnt[-1], cnt[j]
    return dict(zip(idx, cnt))


def same_operand(a, b):
    """do two quara objects carry the same raw arrays (1e-12) and the same outcome labelling?"""
    if gen.type_of(a) != gen.type_of(b) or reported_shape(a) != reported_shape(b):
        return False
    x, y = raw_stat(a), raw_stat(b)
    return x.shape == y.shape and (not x.size or float(np.max(np.abs(x - y))) <= 1e-12)


def derive(ctx, obj, route):
    """the operand reached through another public route, or None when the route raised or does not reproduce the source
    (neither is a statement of this property: counted, and the directly constructed operand is used)"""
    fn = {"copy": lambda: obj.copy(), "from-var": lambda: obj.generate_from_var(obj.to_var()), "relaxed-flag": lambda: relaxed(obj)}[route]
    ok, new = ctx.attempt(fn)
    if not ok:
        if ctx.exc_site(new) == "outside-quara":
            raise new
        ctx.count(f"provenance:{route}:raised(not judged here)")
        return None
    if not same_operand(obj, new):
        ctx.count(f"provenance:{route}:does-not-reproduce-the-source(not judged here)")
        return None
    ctx.count(f"provenance:{route}")
    return new


def provenance(ctx, hrng, objs, tws, keep_eps):
    """operands as a program would really hold them: copies, objects rebuilt from their variables, unpickled objects,
    objects that do not demand quara's physicality test.  Returns (operands, {position: route})."""
    import pickle

    out, how = list(objs), {}
    if hrng.random() < 0.08:
        ok, new = ctx.attempt(lambda: pickle.loads(pickle.dumps(out)))
        if ok and len(new) == len(out) and all(same_operand(a, b) for a, b in zip(out, new)):
            out, how = list(new), {i: "pickle" for i in range(len(out))}
            ctx.count("provenance:pickle")
        else:
            ctx.count("provenance:pickle:not-usable(not judged here)")
    # routes that rebuild an MProcess through the constructor defaults lose a non-default eps_zero (MProcess.copy() does):
    # the threshold cases keep theirs
    routes = ("relaxed-flag",) if keep_eps else ("copy", "from-var", "relaxed-flag")
    for i, o in enumerate(out):
        if hrng.random() < 0.3:
            route = str(hrng.choice(routes))
            new = derive(ctx, o, route)
            if new is not None:
                out[i] = new
                how[i] = (how[i] + "+" if i in how else "") + route
    for i, o in enumerate(out):
        if tws[i]["t"] == "MProcess":
            tws[i] = dict(tws[i], eps_zero=float(o.eps_zero))
    return out, how


def mixed_csys(dims):
    """composite system whose local bases are identity-first, Hermitian, orthonormal but NOT the standard ones (elements 1
    and 2 rotated into each other): a sibling of the same shape with other HS matrices for the same maps"""
    Q = gen.q()
    es = []
    for n, dim in enumerate(dims):
        std = [ref.dense(b) for b in gen.local_basis(dim, "std")]
        c, s = np.cos(0.7), np.sin(0.7)
        new = list(std)
        new[1] = c * std[1] + s * std[2]
        new[2] = -s * std[1] + c * std[2]
        es.append(Q.ElementalSystem(n, Q.mb.MatrixBasis(new)))
    return Q.CompositeSystem(es)


SIB_PATTERNS = ["SMP", "SMM", "MGP", "SGM", "GMP"]


def run_chain_case(ctx, hs, J, c_sys, pattern, shape_name, comp, plan=None, rng=None, hist=None, only=None, label="chain"):
    """plan: optional {position: kwargs of the Builder method} and {"counts": {...}} forcing operand kinds (edge shards).
    hist: None (no history steps: the twin chains and the short chains on sibling systems) or the shard's dict of kept
    objects / sibling systems.  only: evaluate just this form ("flat" or one parenthesisation) instead of all of them."""
    rng = rng if rng is not None else ctx.rng()
    hrng = ctx.rng(11) if hist is not None else None
    B = Builder(ctx, J, hs, c_sys, rng, hrng)
    plan = plan or {}
    counts = plan.get("counts") or outcome_counts(pattern, rng)
    objs, tws = [], []
    for i, c in enumerate(pattern):
        kw = plan.get(i, {})
        make = {"S": lambda: B.state(**kw), "G": B.gate, "M": lambda: B.mprocess(counts[i], **kw), "P": lambda: B.povm(counts[i])}[c]
        ok, val = ctx.attempt(make)
        if not ok:
            # quara's constructor refused a generator-made operand (its verdicts are property C01): no case
            if ctx.exc_site(val) == "outside-quara":
                raise val  # a bug of this check, not an event of quara
            ctx.count("case-dropped:operand-construction-raised:" + ctx.exc_key(val))
            return
        objs.append(val[0])
        tws.append(val[1])
    n = len(pattern)
    objs0 = list(objs)  # as constructed (kept for the next case)
    how = {}
    if hrng is not None:
        objs, how = provenance(ctx, hrng, objs, tws, keep_eps=bool(plan))
    # quara argument order = reversed time order
    args = objs[::-1]
    names = [f"{c}{n - 1 - k}" for k, c in enumerate(pattern[::-1])]
    # truth from the generator's operators, earliest first
    truth = tws[0]
    for t in tws[1:]:
        truth = ref_compose(t, truth)
    eps = max([1e-8] + [t.get("eps_zero", 0.0) for t in tws if t["t"] == "MProcess"])
    p_ref = tw_probs(truth)
    tol0 = TOL_SQRT if B.sqrt_used else TOL
    tp, tf, trunc = (tol0[0], tol0[1], False) if p_ref is None else prob_tols(p_ref, eps, n - 1, tol0)
    info = {"pattern_time_order": pattern, "shape": shape_name, "operands_time_order": B.descr, "counts": [counts[i] for i in sorted(counts)],
            "truncation_zone": trunc}
    if how:
        info["operands_reached_through"] = {f"{pattern[i]}{i}": r for i, r in sorted(how.items())}

    def ev(t, memo, sfx=""):
        """(ok, result, culprits)"""
        if isinstance(t, int):
            return True, args[t], frozenset()
        if t in memo:
            return memo[t]
        okL, L, cL = ev(t[0], memo, sfx)
        okR, R, cR = ev(t[1], memo, sfx)
        if not (okL and okR):
            memo[t] = (False, None, cL | cR)
            return memo[t]
        J.flagged = set()
        ok, res = ctx.attempt(comp, L, R)
        cul = cL | cR | frozenset(J.flagged)
        if not ok and not getattr(res, "_qv_seen", False):
            ctx.violation("compose:chain:" + ctx.exc_key(res) + sfx, dict(info, bracketing=tree_str(t, names), message=str(res)[:200]))
        memo[t] = (ok, res if ok else None, cul)
        return memo[t]

    memo = {}
    results = []
    for t in (trees(0, n) if only is None else [only] if only != "flat" else []):
        ok, res, cul = ev(t, memo)
        ctx.count("bracketings-evaluated")
        if ok:
            results.append((t, res, cul))
        else:
            ctx.count("bracketings-raised")
    # the flat n-ary call (and list forms) as further "bracketings"
    extra = [("flat", lambda: comp(*args))] if only in (None, "flat") else []
    if n >= 3 and only is None:
        extra.append(("list", lambda: comp(list(args))))
        k = int(rng.integers(1, n))
        extra.append(("mixed-list", lambda: comp(*args[:k], list(args[k:]))))
    for nm, call in extra:
        J.flagged = set()
        ok, res = ctx.attempt(call)
        cul = frozenset(J.flagged)
        if ok:
            results.append((nm, res, cul))
        elif not getattr(res, "_qv_seen", False):
            ctx.violation("compose:chain:" + ctx.exc_key(res), dict(info, bracketing=nm, message=str(res)[:200]))

    def cstr(c):
        return "+".join(sorted(c)) if c else "unattributed"

    def tname(t):
        return t if isinstance(t, str) else tree_str(t, names)

    if not results:
        return
    fin = tw_shape(truth)
    want = tw_arrays(truth)

    def agree(first, others, sfx=""):
        """(1) all parenthesisations agree, as arrays in the same order"""
        base = raw_stat(first[1])
        worst, who, cul = 0.0, None, frozenset()
        for t, res, c in others:
            s = raw_stat(res)
            e = float(np.max(np.abs(s - base))) if s.shape == base.shape else float("inf")
            if e >= worst:
                worst, who = e, t
            if e >= tf:
                cul = cul | c | first[2]
        ctx.num("chain:bracketings-agree", worst if np.isfinite(worst) else 1e300, tp, tf, key="compose:chain:bracketings-disagree:" + cstr(cul) + sfx,
                info=dict(info, first=tname(first[0]), other=(tname(who) + sfx) if who is not None else None))

    def versus_reference(entries, sfx=""):
        """(2) each equals the reference joint statistics, earliest measurement first; (3) shape; multi-index access.
        Returns the entries whose values passed."""
        good = []
        for t, res, c in entries:
            if gen.type_of(res) != truth["t"]:
                ctx.truth("chain:vs-reference", False, key="compose:chain:result-type:" + cstr(c) + sfx,
                          info=dict(info, bracketing=tname(t), got=gen.type_of(res), want=truth["t"]))
                continue
            got = read(res, J.frames)
            e = max_diff(tw_arrays(got), want)
            if ctx.num("chain:vs-reference", e if np.isfinite(e) else 1e300, tp, tf, key="compose:chain:differs-from-reference:" + cstr(c) + sfx,
                       info=dict(info, bracketing=tname(t))) == "pass":
                good.append((t, res, c))
            if fin:
                rep = reported_shape(res)
                okshape = merges_of(rep, fin)
                ctx.truth("chain:shape", okshape, key="compose:chain:shape-not-earliest-first:" + cstr(c) + sfx,
                          info=dict(info, bracketing=tname(t), reported=list(rep), earliest_first=list(fin)))
                if len(rep) > 1:
                    index_access(ctx, res, rep, got, info, sfx)
        return good

    def chain_povm(res, c, sfx=""):
        """to_povm of an MProcess result = POVM of the chain"""
        ok, pv = ctx.attempt(res.to_povm)
        if ok:
            I = np.eye(B.d, dtype=complex)
            e = max_diff([B.F.op(v) for v in pv.vecs], [dual(S, I) for S in truth["Ss"]])
            ctx.num("chain:to_povm-vs-reference", e if np.isfinite(e) else 1e300, *tol0, key="compose:chain:to_povm-differs-from-reference:" + cstr(c) + sfx, info=info)
        elif operands_physical([res], 1e-14):
            ctx.violation("MProcess.to_povm:" + ctx.exc_key(pv) + sfx, info)
        else:
            # same rule as for the composition steps: quara tests the induced POVM at atol=1e-13 (in its own norm) and is
            # free to refuse what is not physical to 1e-14 - a product containing a mode-0 (square-root) MProcess can be
            # trace-preserving to 1e-13 only
            ctx.count("exception-not-judged:to_povm:mprocess-not-physical-to-1e-14")

    if len(results) >= 2:
        agree(results[0], results[1:])
    good = versus_reference(results)
    if truth["t"] == "MProcess" and not results[0][2]:
        chain_povm(results[0][1], results[0][2])

    # ---------------------------------------------------------------- history: the same objects, asked again
    if hrng is not None:
        forms = list(trees(0, n))
        if hrng.random() < 0.5:
            # a TWIN chain in between: same pattern, same outcome counts, same composite system, other operands
            ctx.count("history:twin-chain-in-between")
            run_chain_case(ctx, hs, J, c_sys, pattern, shape_name, comp, plan=dict(plan, counts=counts), rng=np.random.default_rng(int(hrng.integers(1 << 62))),
                           hist=None, only="flat" if hrng.random() < 0.5 else forms[int(hrng.integers(len(forms)))], label=label)
        sfx = between_calls(ctx, hs, J, comp, hrng, hist, pattern, objs, objs0, info)
        if sfx is not None:
            pick = "flat" if (n >= 3 and hrng.random() < 0.5) else forms[int(hrng.integers(len(forms)))]
            J.flagged = set()
            if pick == "flat":
                ok, res = ctx.attempt(comp, *args)
                cul = frozenset(J.flagged)
                if not ok and not getattr(res, "_qv_seen", False):
                    ctx.violation("compose:chain:" + ctx.exc_key(res) + sfx, dict(info, bracketing="flat" + sfx, message=str(res)[:200]))
            else:
                ok, res, cul = ev(pick, {}, sfx)
            ctx.count("history:second-pass" + sfx)
            if ok:
                again = [(pick, res, cul)]
                agree(results[0], again, sfx)
                versus_reference(again, sfx)
                if truth["t"] == "MProcess" and not cul:
                    chain_povm(res, cul, sfx)
                if truth["t"] == "MProcess" and not results[0][2]:
                    chain_povm(results[0][1], results[0][2], ":second-call")
            else:
                ctx.count("history:second-pass-raised")
        # what the first pass returned must still be what it was, whatever has been called since
        for t, res, c in good:
            e = max_diff(tw_arrays(read(res, J.frames)), want)
            ctx.num("chain:first-results-read-again", e if np.isfinite(e) else 1e300, tp, tf, key="compose:chain:result-changed-after-later-calls:" + truth["t"],
                    info=dict(info, bracketing=tname(t)))
        hist["kept"] = objs0
    ctx.nontrivial(label, pattern, shape_name, [counts[i] for i in sorted(counts)], [np.asarray(r).ravel() for r in B.raw])
    if hist is not None and ctx.cur_case is not None and ctx.cur_case < 2:
        ctx.sample({"pattern_time_order": pattern, "shape": shape_name, "operands": B.descr, "bracketings": [tname(t) for t, _, _ in results][:8],
                    "result_type": truth["t"], "earliest_first_shape": list(fin), "reference_probabilities": p_ref})


def between_calls(ctx, hs, J, comp, hrng, hist, pattern, objs, objs0, info):
    """calls made between the first and the second pass over one chain: none of them may change what the chain's operands
    mean.  Every composition is judged by the step contracts.  Returns the key suffix of the second pass (None: no second
    pass possible)."""
    sfx = ":second-call"

    def call(what, a, b):
        J.flagged = set()
        ok, r = ctx.attempt(comp, a, b)
        ctx.count("history:" + what)
        if not ok and not getattr(r, "_qv_seen", False):
            ctx.violation("compose:chain:" + ctx.exc_key(r) + ":" + what, dict(info, message=str(r)[:200]))

    # the same object in both slots of one call (Gate o Gate, MProcess o MProcess)
    cand = [o for o, c in zip(objs, pattern) if c == "G" or (c == "M" and len(o.hss) <= 4)]
    if cand and hrng.random() < 0.5:
        x = cand[int(hrng.integers(len(cand)))]
        call("same-object-in-both-slots", x, x)
    # an operand kept from the previous case of this shard (same composite system) with an operand of this case
    # (its decisions come from a stream of their own: a replay of this case alone has no kept objects and must not shift
    # the other decisions)
    kept = hist.get("kept")
    krng = ctx.rng(12)
    if kept and krng.random() < 0.6:
        pairs = [(a, b) for a in kept for b in objs0 if (gen.type_of(a), gen.type_of(b)) in VALID]
        pairs += [(b, a) for a in kept for b in objs0 if (gen.type_of(b), gen.type_of(a)) in VALID]
        pairs = [(a, b) for a, b in pairs if len(getattr(a, "hss", ())) * len(getattr(b, "hss", ())) <= 25]
        if pairs:
            a, b = pairs[int(krng.integers(len(pairs)))]
            call("kept-operand-with-new-partner", a, b)
    # a short chain on a sibling composite system (other shape / other basis) in the same process
    sibs = hist.get("sibs")
    if sibs and hrng.random() < 0.2:
        name, sc = sibs[int(hrng.integers(len(sibs)))]
        pat = SIB_PATTERNS[int(hrng.integers(len(SIB_PATTERNS)))]
        ctx.count("history:sibling-system-chain:" + name)
        run_chain_case(ctx, hs, J, sc, pat, name, comp, rng=np.random.default_rng(int(hrng.integers(1 << 62))), hist=None)
    # public setter on an operand: sampling mode on, one use, off again
    ms = [o for o, c in zip(objs, pattern) if c == "M"]
    if ms and hrng.random() < 0.35:
        M = ms[int(hrng.integers(len(ms)))]
        if pattern[0] == "S":
            st = objs[0]
        else:
            F = J.frames.of(M.composite_system)
            ok, st = ctx.attempt(gen.make_state, M.composite_system, ref.rand_density(F.d, hrng), is_physicality_required=True)
            if not ok:
                st = None
        ok, e = ctx.attempt(M.set_mode_sampling, True, int(hrng.integers(1 << 30)))
        if ok:
            if st is not None:
                ctx.attempt(comp, M, st)  # a sampled post-state (or scipy refusing the probabilities): not judged
            ok, e = ctx.attempt(M.set_mode_sampling, False)
            if not ok:
                ctx.count("history:set_mode_sampling(False)-raised(not judged here)")
                return None
            ctx.count("history:set_mode_sampling-on-and-off")
            sfx = ":after-setter"
        else:
            ctx.count("history:set_mode_sampling(True)-raised(not judged here)")
    return sfx


def index_access(ctx, res, rep, got, info, sfx=""):
    """multi-index access must address the outcome with that label (row-major over the reported shape)"""
    t = gen.type_of(res)
    worst = 0.0
    for idx in itertools.islice(np.ndindex(*rep), 0, 64):
        flat = int(np.ravel_multi_index(idx, rep))
        idx = tuple(int(i) for i in idx)
        if t == "MProcess":
            ok, v = ctx.attempt(res.hs, idx)
            w = ref.dense(res.hss[flat])
        elif t == "StateEnsemble":
            ok, v = ctx.attempt(res.state, idx)
            v = v.vec if ok else v
            w = res.states[flat].vec
        elif t == DIST:
            ok, v = ctx.attempt(res.__getitem__, idx)
            w = res.ps[flat]
        else:
            return
        if not ok:
            ctx.violation(f"{t}.index-access:" + ctx.exc_key(v) + sfx, dict(info, index=list(idx)))
            return
        worst = max(worst, float(np.max(np.abs(np.asarray(ref.dense(v) if t == "MProcess" else v) - w))))
    ctx.num("chain:multi-index-access", worst, 0.0, 1e-300, key=f"{t}.index-access:not-row-major-over-reported-shape" + sfx, info=info)


def run_gm_case(ctx, hs, J, c_sys, shape_name, comp, hist=None):
    """POVM -> MProcess in every back-action mode; consistency with the POVM on a state"""
    rng = ctx.rng()
    hrng = ctx.rng(11) if hist is not None else None
    B = Builder(ctx, J, hs, c_sys, rng)
    d = B.d
    st, tst = B.state()
    rho = tst["rho"]
    m = int(rng.integers(2, 5))
    kind, Ms, _ = B.povm_ops(m)
    r = rng.random()
    if r < 0.15:
        # exactly diagonal elements (degenerate eigenvalues exactly equal as floats)
        kind = "diagonal"
        w = rng.multinomial(8, np.ones(m) / m, size=d) / 8.0  # rows sum to one exactly; repeated values are exactly equal
        Ms = [np.diag(w[:, x]).astype(complex) for x in range(m)]
    elif r < 0.35:
        # commuting elements with eigenspaces of every multiplicity 1..d in a random basis: the levels are partitioned
        # into k classes, each class has one weight row (multiples of 1/8, so distinct eigenvalues are >= 1/8 apart), and
        # the rotation makes the repeated eigenvalues equal only up to rounding
        kind = "commuting"
        k = int(rng.integers(1, d + 1))
        cls = rng.permutation(np.concatenate([np.arange(k), rng.integers(0, k, size=d - k)]))
        wk = rng.multinomial(8, np.ones(m) / m, size=k) / 8.0
        u = ref.rand_unitary(d, rng)
        Ms = [(u * wk[cls, x]) @ u.conj().T for x in range(m)]
        Ms = [(M + M.conj().T) / 2 for M in Ms]
    povm = gen.make_povm(c_sys, Ms, is_physicality_required=bool(rng.random() < 0.7))
    born = np.array([np.trace(M @ rho).real for M in Ms])
    info = {"shape": shape_name, "povm_kind": kind, "m": m, "state": B.descr[0]}
    ok, dist = ctx.attempt(comp, povm, st)
    if ok:
        tp, tf, _ = prob_tols(born, 1e-8)
        ctx.num("gm:povm-on-state-vs-born", float(np.max(np.abs(np.asarray(dist.ps) - born))), tp, tf, key="compose:Povm*State:differs-from-generator-born-rule", info=info)
    rhos_ps = [ref.rand_density(d, rng, int(rng.integers(1, d + 1))) for _ in Ms]

    def generate(pv, Ms_, mode, rl, single, info_, sfx=""):
        """one generate_mprocess call (its contract judges the returned object); returns what `query` needs, or None"""
        judged = True
        if mode == 0:
            sig = [ref.sqrtm_psd(M) @ rho @ ref.sqrtm_psd(M) for M in Ms_]
            call = lambda: pv.generate_mprocess(0)  # noqa: E731
        elif mode == 1:
            pairs = [mode1_expected(M) for M in Ms_]
            judged = all(p[1] for p in pairs)
            sig = [app(p[0], rho) for p in pairs]
            call = lambda: pv.generate_mprocess(mode_backaction=1)  # noqa: E731
        else:
            rl = [rl[0]] * len(Ms_) if single else rl
            sig = [np.trace(M @ rho) * r for M, r in zip(Ms_, rl)]
            pss = [gen.make_state(c_sys, r, is_physicality_required=True) for r in rl]
            call = (lambda: pv.generate_mprocess(2, pss[0])) if single else (lambda: pv.generate_mprocess(2, post_selected_states=pss))
        ok, mp = ctx.attempt(call)
        if not ok:
            return None  # the contract's on_exc decided
        q = (mp, mode, Ms_, np.array([np.trace(M @ rho).real for M in Ms_]), sig, judged, info_)
        query(q, sfx)
        return q

    def query(q, sfx=""):
        """the generated MProcess against the generator's operators: induced POVM, statistics and post-states on the state"""
        mp, mode, Ms_, born_, sig, judged, info_ = q
        label = f"Povm.generate_mprocess:mode={mode}"
        # induces the same POVM
        J.flagged = set()
        ok, pv = ctx.attempt(mp.to_povm)
        if ok and (J.is_bad(mp) or J.flagged):
            ctx.count("gm:not-judged(generated mprocess already failed its contract)")
        elif ok:
            e = max_diff([B.F.op(v) for v in pv.vecs], Ms_)
            ctx.num("gm:to_povm-roundtrip", e if np.isfinite(e) else 1e300, *(TOL_SQRT if mode == 0 else TOL), key=f"{label}:to_povm-differs-from-povm{sfx}", info=info_)
        elif operands_physical([mp], 1e-14):
            ctx.violation("MProcess.to_povm:" + ctx.exc_key(pv) + sfx, info_)
        else:
            ctx.count("exception-not-judged:to_povm:mprocess-not-physical-to-1e-14")
        J.flagged = set()
        ok, ens = ctx.attempt(comp, mp, st)
        if not ok or J.flagged:
            return  # the contract of the composition step decided
        base = TOL_SQRT if mode == 0 else TOL
        tp, tf, _ = prob_tols(born_, 1e-8, 1, base)
        ps = np.asarray(ens.prob_dist.ps, dtype=float)
        if ps.shape != born_.shape:
            ctx.violation(f"{label}:outcome-count{sfx}", info_)
            return
        if not J.is_bad(mp):
            ctx.num("gm:mprocess-on-state-vs-born", float(np.max(np.abs(ps - born_))), tp, tf, key=f"{label}:statistics-differ-from-povm{sfx}", info=info_)
        if judged and not J.is_bad(mp):
            # unnormalised p_x rho_x for every outcome; the normalised post-state where p_x >= 0.05 (sqrtm error / p_x)
            e_un = max(float(np.max(np.abs(pq * B.F.op(q_.vec) - s))) for pq, s, q_ in zip(ps, sig, ens.states))
            ctx.num("gm:unnormalised-post-state-vs-generator", e_un, tp, tf, key=f"{label}:post-state-on-state{sfx}", info=info_)
            e, nj = 0.0, 0
            for p, s, q_ in zip(born_, sig, ens.states):
                if p >= 0.05:
                    e = max(e, float(np.max(np.abs(B.F.op(q_.vec) - s / p))))
                    nj += 1
            if nj:
                ctx.num("gm:post-state-vs-generator", e, tp, tf, key=f"{label}:post-state-on-state{sfx}", info=dict(info_, judged=nj))
        else:
            ctx.skip("gm:post-state-vs-generator")

    first = []
    for mode in (0, 1, 2):
        single = bool(rng.random() < 0.3) if mode == 2 else False
        q = generate(povm, Ms, mode, rhos_ps, single, info)
        if q is not None:
            first.append((q, single))

    # ---------------------------------------------------------------- history: the same POVM object, asked again
    if hrng is not None:
        def other_states(n_):
            return [ref.rand_density(d, hrng, int(hrng.integers(1, d + 1))) for _ in range(n_)]

        # a POVM kept from the previous case of this shard (other elements, maybe another outcome count)
        # (decisions from a stream of their own: a replay of this case alone has no kept POVM)
        kept = hist.get("kept_povm")
        if kept is not None:
            kp, kMs, kinfo = kept
            krng = ctx.rng(12)
            generate(kp, kMs, int(krng.integers(0, 3)), [ref.rand_density(d, krng, int(krng.integers(1, d + 1))) for _ in kMs], bool(krng.random() < 0.5),
                     dict(kinfo, state=B.descr[0]), ":re-used-object")
            ctx.count("history:gm:kept-povm")
        # a second POVM of the same outcome count on the same system in between
        B2 = Builder(ctx, J, hs, c_sys, hrng)
        kind2, Ms2, _ = B2.povm_ops(m)
        ok, povm2 = ctx.attempt(gen.make_povm, c_sys, Ms2, is_physicality_required=True)
        if ok:
            generate(povm2, Ms2, int(hrng.integers(0, 3)), other_states(m), bool(hrng.random() < 0.5), dict(info, povm_kind=kind2 + "(second POVM)"))
            ctx.count("history:gm:second-povm-in-between")
        # the first POVM again: other order, other post-selected states, the other argument form
        was_single = {q[1]: s for q, s in first}.get(2, False)
        for mode in [int(x) for x in hrng.permutation(3)]:
            generate(povm, Ms, mode, other_states(m), not was_single, info, ":second-call")
        ctx.count("history:gm:same-povm-asked-again")
        # ... and reached through copy() / generate_from_var
        route = str(hrng.choice(["copy", "from-var"]))
        pv3 = derive(ctx, povm, route)
        if pv3 is not None:
            generate(pv3, Ms, int(hrng.integers(0, 3)), other_states(m), bool(hrng.random() < 0.5), info, ":via-" + route)
        # a POVM on a sibling composite system (other shape / other basis) turned into an MProcess inside a short chain
        sibs = hist.get("sibs")
        if sibs:
            name, sc = sibs[int(hrng.integers(len(sibs)))]
            ctx.count("history:gm:sibling-system-chain:" + name)
            run_chain_case(ctx, hs, J, sc, "SMP", name, comp, plan={1: {"kind": "from-povm"}}, rng=np.random.default_rng(int(hrng.integers(1 << 62))), hist=None)
        # the MProcesses generated first, queried again after all these calls
        for q, _ in first:
            query(q, ":second-call")
        hist["kept_povm"] = (povm, Ms, dict(info))
    ctx.nontrivial("gm", shape_name, kind, m, np.array(Ms).ravel(), rho.ravel())
    if ctx.cur_case is not None and ctx.cur_case < 1:
        ctx.sample({"generate_mprocess": True, "shape": shape_name, "povm_kind": kind, "m": m, "state": B.descr[0], "born": born})


# --------------------------------------------------------------------- shards

SHAPE_COST = {"S1": 1.0, "S3": 2.0, "S2": 5.0}
SPLIT = {2: 1, 3: 2, 4: 4, 5: 6}
REPS = {"quick": {2: 24, 3: 12, 4: 6}, "thorough": {2: 200, 3: 100, 4: 50, 5: 12}}
GM_CASES = {"quick": 60, "thorough": 600}
EDGE_CASES = {"quick": 48, "thorough": 480}
EDGE_PATTERNS = ["SMM", "SMMP", "SMGM", "SMMM", "SGMMP"]


def shards(tier, seed):
    out = []
    lengths = [2, 3, 4] if tier == "quick" else [2, 3, 4, 5]
    for shape in ("S1", "S3", "S2"):
        for n in lengths:
            pats = patterns(n)
            k = SPLIT[n]
            reps = REPS[tier][n]
            if shape == "S2":
                reps = max(2, reps // 2)
            for part in range(k):
                sub = pats[part::k]
                out.append({"kind": "chain", "shape": shape, "n": n, "patterns": sub, "reps": reps,
                            "weight": SHAPE_COST[shape] * len(sub) * reps * (3 ** (n - 2))})
        e = EDGE_CASES[tier] // (2 if shape == "S2" else 1)
        out.append({"kind": "edge", "shape": shape, "cases": e, "weight": SHAPE_COST[shape] * e * 9})
        g = GM_CASES[tier] // (2 if shape == "S2" else 1)
        out.append({"kind": "gm", "shape": shape, "cases": g, "weight": SHAPE_COST[shape] * g})
    return out


def run_shard(ctx):
    p = ctx.params
    bad = self_test(np.random.default_rng(20260927))
    if bad:
        ctx.mark_inconclusive(f"C06 reference self-test failed: {bad}")
        return
    rbad = ref.self_test()
    if rbad:
        ctx.mark_inconclusive(f"qv.ref self-test failed: {rbad}")
        return
    import quara.objects.operators as ops

    hs, J = install(ctx)
    c_sys = gen.make_csys(gen.SHAPES[p["shape"]])
    # history: objects that live for the whole shard.  "sibs": composite systems of another shape and of the same shape with
    # another (identity-first, orthonormal, Hermitian) basis, on which short chains are interleaved; "kept": the operands of
    # the previous case; "kept_povm": the POVM of the previous generate_mprocess case
    other = {"S1": "S3", "S3": "S1", "S2": "S1"}[p["shape"]]
    hist = {"sibs": [(other, gen.make_csys(gen.SHAPES[other])), (p["shape"] + "-mixed-basis", mixed_csys(gen.SHAPES[p["shape"]]))]}
    keep = [c_sys] + [sc for _, sc in hist["sibs"]]

    def done():
        J.bad_ids.clear()
        J.frames.trim(keep)

    try:
        comp = ops.compose_qoperations  # the hooked public entry point
        if p["kind"] == "chain":
            pats = p["patterns"]
            for i in ctx.cases(len(pats) * p["reps"]):
                run_chain_case(ctx, hs, J, c_sys, pats[i % len(pats)], p["shape"], comp, hist=hist)
                done()
        elif p["kind"] == "edge":
            # a branch of weight w just above eps_zero entering a second measurement: some of its outcomes fall below the
            # threshold (zeroed, rest renormalised), the others must keep their probability and a normalised post-state
            d = int(c_sys.dim)
            for i in ctx.cases(p["cases"]):
                rng = ctx.rng(7)
                pat = EDGE_PATTERNS[i % len(EDGE_PATTERNS)]
                eps = float(rng.choice([1e-8, 1e-6]))
                w = eps * float(rng.choice([2.0, 3.0, 10.0, 30.0]))
                pos = [k for k, c in enumerate(pat) if c in "MP"]
                pool = [int(x) for x in rng.permutation([x for x in (2, 3, 4, 5) if x != d])]
                counts = {pos[0]: d}
                for k in pos[1:]:
                    counts[k] = pool.pop()
                if pat.endswith("P") and counts[pos[-1]] > 4:
                    j = min(pos[1:-1], key=lambda k: counts[k])
                    counts[j], counts[pos[-1]] = counts[pos[-1]], counts[j]
                plan = {"counts": counts, 0: {"kind": "pure"},
                        pos[0]: {"kind": "lueders", "povm_kind": "rank1", "p_target": w, "eps_zero": 1e-8, "track": 0},
                        pos[1]: {"kind": "generic", "eps_zero": eps}}
                run_chain_case(ctx, hs, J, c_sys, pat, p["shape"], comp, plan=plan, hist=hist, label="edge")
                done()
        else:
            for i in ctx.cases(p["cases"]):
                run_gm_case(ctx, hs, J, c_sys, p["shape"], comp, hist=hist)
                done()
    finally:
        hs.uninstall()
    ctx.extra["hook_counts"] = hs.counts
    hs.require(["operators.compose_qoperations", "operators._compose_qoperations"])
    if p["kind"] == "gm":
        hs.require(["Povm.generate_mprocess", "MProcess.to_povm"])
