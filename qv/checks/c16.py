"""C16  Outcome-probability bookkeeping obeys probability theory.

Contracts on the two index_util functions, on MultinomialDistribution
(__init__ / __getitem__ / marginalize / conditionalize), StateEnsemble.state,
validate_prob_dist and ProbDist.__getitem__; a driver that enumerates index
maps exhaustively, walks probability tensors over all shapes with <= 4
variables of 1..5 values (all ordered subsets of retained variables, all
conditioning assignments) and builds state ensembles by MProcess o State and
MProcess o StateEnsemble from Kraus operators of the reference model.

Reference conventions (own code, never quara): the serial index of the
multi-index (x0..xn-1) in shape (d0..dn-1) is ((x0*d1 + x1)*d2 + x2)... (row
major, cross-checked against numpy.ravel_multi_index / unravel_index);
marginals and conditional slices are accumulated cell by cell in explicit
loops over that serial index.

History / combination steps (every one is judged by the same hooks and driver
oracles as the first pass, against the reference model, never against an
earlier answer of quara; keys that can only come from such a step carry a
suffix):
  :second-call                the same objects asked again after other calls
                              (marginalize / conditionalize in another order and
                              with other assignments, joint = marginal x
                              conditional again, every cell of the joint read
                              again against the reference tensor, the same
                              composition repeated on the same operand objects)
  :same-shape-twin            a second distribution / process of the same shape,
                              class and options with other numbers, used
                              alternately with the first
  :re-used-object             process objects applied to another state / another
                              ensemble, the process kept from the previous case
                              of the shard applied to this case's operands
  :re-read-after-later-calls  ensembles of the first pass read again at the end;
  ...result-changed-after-later-calls  distributions returned in the first pass
                              read again against the snapshot taken when they
                              were returned (1e-13 / 1e-9, not bit-wise)
  :on-returned-distribution   returned distributions (marginals, conditionals,
                              Povm o StateEnsemble) as operands of marginalize /
                              conditionalize
  :after-setter               MProcess.set_mode_sampling(True, seed) - one
                              sampled composition, not judged - then
                              set_mode_sampling(False) and the composition again
  :via-copy / :via-gate       operands reached through copy() (only when the
                              copy reproduces its source) / through
                              Gate o StateEnsemble
  :sibling-system             a short chain on a second composite system of the
                              same dimensions with the other basis in the same
                              process
plus, without suffix (the hooks judge every call): one list object re-used for
the sizes of many shapes and the previous shape asked again in the index shards,
a twin ProbDist, default option values asked again after explicit ones
(validate_prob_dist eps / validate_sum, MultinomialDistribution eps_zero).
The decisions of these steps come from their own RNG sub-stream, so the first
pass of every case is the former workload unchanged.
"""
import itertools

import numpy as np

from qv import gen, ref
from qv.monitor import HookSet

ID = "C16"
RULE = ("(a) index maps: every shape with 1..4 variables of 1..5 values and every serial index (exhaustive, both tiers), "
        "non-trivial when >= 2 variables have > 1 value (row- and column-major differ); (b) probability tensors over those "
        "shapes (all 780 in the thorough tier, a stride plus fixed non-square shapes in the quick tier) of classes dense / "
        "exact zeros incl. whole zero slices / sub-threshold entries / parent eps_zero 1e-12 with entries between 1e-12 and "
        "1e-8 / parent eps_zero 1e-3 / all-zero / shape=None, with every ordered non-empty subset of retained variables and "
        "every conditioning assignment of every proper subset (quick: capped per subset) plus permuted argument orders; "
        "distinct by (shape, class, rounded tensor), non-trivial when the shape is non-square or the tensor has zero / "
        "sub-threshold entries; (c) ensembles: d in {2,3,4,6}, MProcess o State, MProcess o (MProcess o State) and a third "
        "step, pairwise different outcome counts from 2..4 (also a (2,2)-shaped MProcess and a directly built ensemble), "
        "generic / zero-probability first step / zero-probability second step; distinct by (dims, counts, kind, rounded "
        "state), non-trivial when the step counts differ; (d) history steps in every case of (b) and (c): a same-shape twin "
        "used alternately, second calls in another order, returned distributions as operands, first results and the joint "
        "read again at the end; processes re-used with other states / ensembles and across cases, sampling-mode setter on and "
        "off, operands via copy() and via a gate, a sibling system with the other basis (these add evaluations, not distinct cases)")
ANCHORS = [
    "quara/utils/index_util.py:index_multi_dimensional_from_index_serial",
    "quara/utils/index_util.py:index_serial_from_index_multi_dimensional",
    "quara/objects/multinomial_distribution.py:MultinomialDistribution.__init__",
    "quara/objects/multinomial_distribution.py:MultinomialDistribution.__getitem__",
    "quara/objects/multinomial_distribution.py:MultinomialDistribution.marginalize",
    "quara/objects/multinomial_distribution.py:MultinomialDistribution.conditionalize",
    "quara/objects/state_ensemble.py:StateEnsemble.state",
    "quara/math/probability.py:validate_prob_dist",
    "quara/objects/prob_dist.py:ProbDist.__getitem__",
    "quara/objects/operators.py:_compose_qoperations_MProcess_State",
    "quara/objects/operators.py:_compose_qoperations_MProcess_StateEnsemble",
]
REQUIRED_REACH = ANCHORS
REQUIRED_ORACLES = [
    "index.multi_from_serial:row-major", "index.multi_from_serial:inverse",
    "index.serial_from_multi:row-major", "index.serial_from_multi:inverse",
    "MD.ctor:renormalised-values", "MD.ctor:sub-threshold-zeroed", "MD.ctor:normalised", "MD.ctor:is_zero_dist",
    "MD.getitem:serial", "MD.getitem:multi",
    "MD.marginalize:explicit-sums", "MD.marginalize:shape",
    "MD.conditionalize:renormalised-slice", "MD.conditionalize:joint=marginal*conditional(ref-marginal)",
    "driver:joint=marginal*conditional(quara-marginal)",
    "StateEnsemble.state:same-layout-as-prob_dist",
    "validate_prob_dist:verdict", "ProbDist.getitem:multi",
    "ensemble:MProcess*State:probability-of-history", "ensemble:MProcess*State:post-state-of-history",
    "ensemble:MProcess*StateEnsemble:probability-of-history", "ensemble:MProcess*StateEnsemble:post-state-of-history",
    # history steps
    "driver:getitem-vs-reference-tensor:second-call", "driver:getitem-vs-reference-tensor:same-shape-twin",
    "driver:joint=marginal*conditional(quara-marginal):second-call", "driver:returned-distribution-unchanged",
    "driver:attributes-as-constructed:second-call",
    "ensemble:MProcess*State:post-state-of-history:second-call", "ensemble:MProcess*State:post-state-of-history:re-used-object",
    "ensemble:MProcess*State:post-state-of-history:same-shape-twin", "ensemble:MProcess*State:post-state-of-history:after-setter",
    "ensemble:MProcess*State:post-state-of-history:re-read-after-later-calls",
    "ensemble:MProcess*StateEnsemble:post-state-of-history:second-call", "ensemble:MProcess*StateEnsemble:post-state-of-history:re-used-object",
    "ensemble:MProcess*StateEnsemble:post-state-of-history:re-read-after-later-calls",
    "ensemble:MProcess*StateEnsemble:post-state-of-history:sibling-system",
]
MIN_EVALS = {"quick": 400000, "thorough": 4000000}
WATCHDOG = {"quick": 600, "thorough": 2400}
EXHAUSTIVE = {"quick": True, "thorough": True}
EXHAUSTIVE_SCOPE = ("index_multi_dimensional_from_index_serial and index_serial_from_index_multi_dimensional on all 780 shapes "
                    "with 1..4 variables of 1..5 values and all 54240 (shape, index) pairs (both tiers; totals asserted in "
                    "finalize). Thorough tier additionally: MultinomialDistribution.marginalize for every ordered non-empty "
                    "subset and conditionalize for every assignment of every non-empty proper subset, for all 780 shapes "
                    "(tensors themselves are sampled).")
ASSUMPTIONS = [
    "numpy.ravel_multi_index / unravel_index (C order) as the definition of row-major, cross-checked by explicit arithmetic",
    "thresholding is judged against the eps_zero the returned distribution reports (marginalize / conditionalize build their "
    "result with the documented default 1e-8); cells within 1e-6 relative of the threshold give no verdict",
    "marginalize([]) and conditionalize on all variables (0-variable results, not representable by the class) are outside the "
    "explored domain, as are conditioning events of zero marginal",
]

N_PAIRS = 54240  # sum over shapes of prod(shape) = 15 + 15^2 + 15^3 + 15^4
MUST_SHAPES = [(2, 3), (3, 2), (1, 4), (2, 3, 4), (4, 3, 2), (3, 1, 2), (2, 3, 4, 5), (5, 4, 3, 2), (1, 3, 1, 2), (2, 5, 1, 3), (3, 3, 2, 2)]
CLASSES = ["dense", "zeros", "subthr", "eps-small", "eps-large", "zeros", "dense", "allzero"]


# ------------------------------------------------------------------ reference helpers


def all_shapes():
    out = []
    for n in range(1, 5):
        out += list(itertools.product(range(1, 6), repeat=n))
    return out


def rm_serial(dims, idx):
    """row-major serial index by explicit arithmetic"""
    s = 0
    for d, i in zip(dims, idx):
        s = s * int(d) + int(i)
    return s


def cm_serial(dims, idx):
    """column-major serial index (only used to name a mechanism)"""
    s, w = 0, 1
    for d, i in zip(dims, idx):
        s += int(i) * w
        w *= int(d)
    return s


def rm_multi(dims, k):
    out = []
    for d in reversed(list(dims)):
        out.append(k % int(d))
        k //= int(d)
    return tuple(reversed(out))


def cm_multi(dims, k):
    out = []
    for d in dims:
        out.append(k % int(d))
        k //= int(d)
    return tuple(out)


def ishape(shape):
    return tuple(int(x) for x in shape)


def is_index(i):
    return isinstance(i, (int, np.integer)) and not isinstance(i, (bool, np.bool_))


def same(a, b):
    try:
        return bool(a == b) or (bool(np.isnan(a)) and bool(np.isnan(b)))
    except Exception:
        return False


def model_ctor(p, eps):
    """documented constructor semantics on the flat vector p.
    returns (candidate outputs, is_zero_dist, number zeroed, near-threshold flag)"""
    p = np.asarray(p, dtype=float).ravel()
    zero = p < eps
    amb = bool(np.any(np.abs(p - eps) <= 1e-6 * eps))
    if zero.all():
        return [np.zeros_like(p)], True, int(zero.sum()), amb
    kept = np.where(zero, 0.0, p)
    cands = [kept / kept.sum()]
    if not zero.any():
        cands.append(p.copy())  # nothing zeroed: the input may be kept as it is
    return cands, False, int(zero.sum()), amb


def explicit_marginal(flat, dims, keep_sorted):
    out = np.zeros([dims[k] for k in keep_sorted])
    for idx in itertools.product(*[range(d) for d in dims]):
        out[tuple(idx[k] for k in keep_sorted)] += flat[rm_serial(dims, idx)]
    return out


def explicit_slice(flat, dims, cidx, cval):
    """cells of the joint with variables cidx fixed to cval; axes = remaining variables in original order"""
    n = len(dims)
    fixed = dict(zip(cidx, cval))
    rest = [k for k in range(n) if k not in fixed]
    out = np.zeros([dims[k] for k in rest])
    for sub in itertools.product(*[range(dims[k]) for k in rest]):
        idx = [0] * n
        for k, v in fixed.items():
            idx[k] = v
        for k, v in zip(rest, sub):
            idx[k] = v
        out[sub] = flat[rm_serial(dims, idx)]
    return out, rest


def maxabs(a, b):
    a = np.asarray(a, dtype=float)
    b = np.asarray(b, dtype=float)
    if a.shape != b.shape:
        return float("inf")
    if a.size == 0:
        return 0.0
    d = np.abs(a - b)
    if np.any(np.isnan(d)):
        return float("inf")
    return float(d.max())


# ------------------------------------------------------------------ monitors


def install(ctx):
    import quara.math.probability as prob_mod
    import quara.utils.index_util as iu
    from quara.objects.multinomial_distribution import MultinomialDistribution as MD
    from quara.objects.prob_dist import ProbDist
    from quara.objects.state_ensemble import StateEnsemble

    hs = HookSet(ctx)
    orig_multi = iu.index_multi_dimensional_from_index_serial
    orig_serial = iu.index_serial_from_index_multi_dimensional

    # ---------------------------------------------------------------- index maps
    def dims_ok(nums_length):
        try:
            dims = [int(d) for d in nums_length]
        except Exception:
            return None
        if any((not is_index(d)) or d < 1 for d in nums_length):
            return None
        return dims

    def post_multi(result, snap, nums_length, index_serial):
        L = "index.multi_from_serial"
        dims = dims_ok(nums_length)
        if dims is None or not is_index(index_serial) or not (0 <= index_serial < int(np.prod(dims, dtype=object)) if dims else index_serial == 0):
            ctx.skip(L + ":out-of-domain")
            return
        k = int(index_serial)
        exp = tuple(int(v) for v in np.unravel_index(k, dims)) if dims else ()
        if exp != rm_multi(dims, k):
            ctx.mark_inconclusive("reference row-major arithmetic disagrees with numpy.unravel_index")
            return
        try:
            got = tuple(int(v) for v in result)
        except Exception:
            got = None
        ok = isinstance(result, tuple) and got == exp
        key = "index_util.multi_from_serial:" + ("column-major" if got == cm_multi(dims, k) and got != exp else "not-row-major")
        ctx.truth(L + ":row-major", ok, key=key, info={"dims": dims, "serial": k, "got": repr(result), "want": exp})
        try:
            back = orig_serial(nums_length, result)
        except Exception as e:  # noqa: BLE001
            back = f"{type(e).__name__}"
        ctx.truth(L + ":inverse", same(back, k), key="index_util.multi_from_serial:serial_from_multi-is-not-its-inverse",
                  info={"dims": dims, "serial": k, "multi": repr(result), "back": repr(back)})
        ok_rng = got is not None and len(got) == len(dims) and all(0 <= g < d for g, d in zip(got, dims))
        ctx.truth(L + ":in-range", ok_rng, key="index_util.multi_from_serial:component-out-of-range", info={"dims": dims, "serial": k, "got": repr(result)})

    def post_serial(result, snap, nums_length, index_multi_dimensional):
        L = "index.serial_from_multi"
        dims = dims_ok(nums_length)
        try:
            idx = tuple(index_multi_dimensional)
        except Exception:
            idx = None
        if dims is None or idx is None or len(idx) != len(dims) or not all(is_index(i) and 0 <= i < d for i, d in zip(idx, dims)):
            ctx.skip(L + ":out-of-domain")
            return
        idx = tuple(int(i) for i in idx)
        exp = int(np.ravel_multi_index(idx, dims)) if dims else 0
        if exp != rm_serial(dims, idx):
            ctx.mark_inconclusive("reference row-major arithmetic disagrees with numpy.ravel_multi_index")
            return
        ok = is_index(result) and int(result) == exp
        key = "index_util.serial_from_multi:" + ("column-major" if is_index(result) and int(result) == cm_serial(dims, idx) and not ok else "not-row-major")
        ctx.truth(L + ":row-major", ok, key=key, info={"dims": dims, "multi": idx, "got": repr(result), "want": exp})
        try:
            back = orig_multi(nums_length, result)
            back_ok = tuple(int(v) for v in back) == idx
        except Exception as e:  # noqa: BLE001
            back, back_ok = f"{type(e).__name__}", False
        ctx.truth(L + ":inverse", back_ok, key="index_util.serial_from_multi:multi_from_serial-is-not-its-inverse",
                  info={"dims": dims, "multi": idx, "serial": repr(result), "back": repr(back)})

    hs.function(iu, "index_multi_dimensional_from_index_serial", post=post_multi, label="index.multi_from_serial")
    hs.function(iu, "index_serial_from_index_multi_dimensional", post=post_serial, label="index.serial_from_multi")

    # ---------------------------------------------------------------- validate_prob_dist
    def judge_validate(raised, exc, prob_dist, eps=None, validate_sum=True, raise_error=True, message=""):
        L = "validate_prob_dist"
        try:
            p = np.asarray(prob_dist, dtype=float).ravel()
            e = 1e-8 if eps is None else float(eps)
        except Exception:
            ctx.skip(L + ":out-of-domain")
            return
        if raised and not isinstance(exc, ValueError):
            ctx.skip(L + ":out-of-domain")
            return
        if p.size == 0 or not (e > 0):
            ctx.skip(L + ":out-of-domain")
            return
        info = {"eps": e, "validate_sum": bool(validate_sum), "min": float(np.nanmin(p)) if not np.all(np.isnan(p)) else "nan",
                "sum_minus_1": float(np.sum(p) - 1.0), "raised": bool(raised), "n": int(p.size)}
        if not raise_error:
            ctx.truth(L + ":no-raise-mode", not raised, key="validate_prob_dist:raises-although-raise_error=False", info=info)
            return
        if np.any(np.isnan(p)):
            if validate_sum is True:
                ctx.truth(L + ":verdict", raised, key="validate_prob_dist:accepts-nan", info=info)
            else:
                ctx.skip(L + ":free-zone")
            return
        neg = max(0.0, -float(p.min()))
        s = abs(float(p.sum()) - 1.0)
        chk_sum = validate_sum is True
        if neg >= 10 * e:
            ctx.truth(L + ":verdict", raised, key="validate_prob_dist:accepts-negative-entry", info=info)
        elif chk_sum and s >= 10 * e:
            ctx.truth(L + ":verdict", raised, key="validate_prob_dist:accepts-unnormalised", info=info)
        elif neg == 0.0 and (not chk_sum or s <= e / 10):
            ctx.truth(L + ":verdict", not raised, key="validate_prob_dist:rejects-valid", info=info)
        else:
            ctx.skip(L + ":free-zone")

    hs.function(prob_mod, "validate_prob_dist",
                post=lambda result, snap, *a, **kw: judge_validate(False, None, *a, **kw),
                on_exc=lambda exc, snap, *a, **kw: judge_validate(True, exc, *a, **kw), label="validate_prob_dist")

    # ---------------------------------------------------------------- MultinomialDistribution.__init__
    def pre_init(self, ps, shape=None, eps_zero=None):
        try:
            p = np.array(ps, dtype=float)  # copy: the constructor writes into its argument
        except Exception:
            return None
        return {"p": p}

    def exc_init(exc, snap, self, ps, shape=None, eps_zero=None):
        L = "MD.ctor:accepts-valid"
        if snap is None or snap["p"].ndim != 1:
            return
        p = snap["p"]
        size_ok = True
        if shape is not None:
            try:
                size_ok = len(shape) > 0 and int(np.prod([int(x) for x in shape], dtype=object)) == p.size and all(int(x) >= 1 for x in shape)
            except Exception:
                size_ok = False
        valid = (p.size > 0 and size_ok and bool(np.all(np.isfinite(p))) and float(p.min()) >= 0.0 and abs(float(p.sum()) - 1.0) <= 1e-9
                 and (eps_zero is None or (is_real(eps_zero) and 0 <= eps_zero <= 1e-2)))
        if valid:
            ctx.truth(L, False, key="MultinomialDistribution.ctor:rejects-valid-distribution:" + type(exc).__name__,
                      info={"p": p, "shape": repr(shape), "eps_zero": repr(eps_zero), "exc": repr(exc)[:200]})
        else:
            ctx.skip("MD.ctor:rejection-not-judged")

    def is_real(x):
        return isinstance(x, (int, float, np.integer, np.floating)) and not isinstance(x, bool)

    def post_init(result, snap, self, ps, shape=None, eps_zero=None):
        if snap is None or snap["p"].ndim != 1 or snap["p"].size == 0:
            ctx.skip("MD.ctor:out-of-domain")
            return
        p0 = snap["p"]
        if eps_zero is not None and not is_real(eps_zero):
            ctx.skip("MD.ctor:out-of-domain")
            return
        ctx.truth("MD.ctor:accepts-valid", True)
        eps_doc = 1e-8 if eps_zero is None else float(eps_zero)
        eps_used = float(self.eps_zero)
        info = {"p_in": p0, "shape": repr(shape), "eps_zero_arg": repr(eps_zero), "eps_zero_reported": eps_used}
        if eps_zero is not None and float(eps_zero) == 0.0:
            ctx.truth("MD.ctor:eps_zero=0-honoured", eps_used == 0.0,
                      key="MultinomialDistribution.ctor:eps_zero=0-replaced-by-default-threshold", info=info)
            eps_model = eps_used  # the rest is judged against the threshold the object reports
        else:
            ctx.truth("MD.ctor:eps_zero-reported", eps_used == eps_doc,
                      key="MultinomialDistribution.ctor:reported-eps_zero-is-not-the-documented-threshold", info=info)
            eps_model = eps_doc
        exp_shape = (int(p0.size),) if shape is None else ishape(shape)
        ctx.truth("MD.ctor:shape", ishape(self.shape) == exp_shape, key="MultinomialDistribution.ctor:shape-not-as-given",
                  info=dict(info, shape_reported=repr(self.shape)))
        try:
            out = np.asarray(self.ps, dtype=float).ravel()
        except Exception:
            out = np.zeros(0)
        if out.shape != p0.shape:
            ctx.truth("MD.ctor:size", False, key="MultinomialDistribution.ctor:size-of-ps-changed", info=info)
            return
        info["p_out"] = out
        cands, is_zero, nz, _ = model_ctor(p0, eps_model)
        zero = p0 < eps_model
        if zero.any():
            ctx.truth("MD.ctor:sub-threshold-zeroed", bool(np.all(out[zero] == 0.0)),
                      key="MultinomialDistribution.ctor:sub-threshold-entry-not-zeroed", info=info)
        ctx.truth("MD.ctor:nonnegative", bool(np.all(out >= 0.0)), key="MultinomialDistribution.ctor:negative-or-nan-entry-left", info=info)
        ctx.truth("MD.ctor:is_zero_dist", bool(self.is_zero_dist) == is_zero, key="MultinomialDistribution.ctor:is_zero_dist-flag-wrong", info=info)
        err = min(maxabs(out, c) for c in cands)
        ctx.num("MD.ctor:renormalised-values", err, 1e-13, 1e-9,
                key="MultinomialDistribution.ctor:kept-entries-not-renormalised" if nz else "MultinomialDistribution.ctor:entries-changed", info=info)
        if not is_zero:
            # inputs within the validator's 1e-8 of normalisation and without zeroed entries are kept as given
            tight = nz > 0 or abs(float(p0.sum()) - 1.0) <= 1e-13
            ctx.num("MD.ctor:normalised", abs(float(out.sum()) - 1.0), 1e-11 if tight else 1e-12, 1e-9 if tight else 1e-7,
                    key="MultinomialDistribution.ctor:sum-not-1", info=info)

    hs.method(MD, "__init__", pre=pre_init, post=post_init, on_exc=exc_init, label="MD.ctor")

    # ---------------------------------------------------------------- __getitem__ (MD, ProbDist)
    def mk_getitem(L, K, get_ps, get_shape):
        def post(result, snap, self, idx):
            try:
                ps = np.asarray(get_ps(self)).ravel()
                shape = get_shape(self)
                shape = None if shape is None else ishape(shape)
            except Exception:
                ctx.skip(L + ":out-of-domain")
                return
            if type(idx) is int:
                if 0 <= idx < ps.size:
                    ctx.truth(L + ":serial", same(result, ps[idx]), key=K + ":serial-index-wrong-entry", info={"idx": idx, "shape": shape})
                else:
                    ctx.skip(L + ":out-of-domain")
            elif type(idx) is tuple and shape is not None and len(idx) == len(shape) and all(is_index(i) and 0 <= i < d for i, d in zip(idx, shape)) \
                    and int(np.prod(shape, dtype=object)) == ps.size:
                k = rm_serial(shape, idx)
                ok = np.ndim(result) == 0 and same(result, ps[k])
                key = K + (":multi-index-column-major" if (not ok and np.ndim(result) == 0 and same(result, ps[cm_serial(shape, idx)])) else ":multi-index-wrong-entry")
                ctx.truth(L + ":multi", ok, key=key, info={"idx": idx, "shape": shape, "got": repr(result), "want": float(ps[k])})
            else:
                ctx.skip(L + ":out-of-domain")
        return post

    hs.method(MD, "__getitem__", post=mk_getitem("MD.getitem", "MultinomialDistribution.getitem", lambda s: s.ps, lambda s: s.shape), label="MD.getitem")
    hs.method(ProbDist, "__getitem__", post=mk_getitem("ProbDist.getitem", "ProbDist.getitem", lambda s: s.ps, lambda s: s.shape), label="ProbDist.getitem")

    # ---------------------------------------------------------------- marginalize
    def post_marg(result, snap, self, outcome_indices_remain):
        L, K = "MD.marginalize", "MultinomialDistribution.marginalize"
        try:
            dims = ishape(self.shape)
            flat = np.array(self.ps, dtype=float).ravel()
            keep = list(outcome_indices_remain)
        except Exception:
            ctx.skip(L + ":out-of-domain")
            return
        n = len(dims)
        if (not keep or not all(is_index(k) and 0 <= k < n for k in keep) or len(set(keep)) != len(keep)
                or flat.size != int(np.prod(dims, dtype=object)) or np.any(np.isnan(flat))):
            ctx.skip(L + ":out-of-domain")
            return
        keep = [int(k) for k in keep]
        ks = sorted(keep)
        M = explicit_marginal(flat, dims, ks)                       # axes in original order
        perm = [ks.index(k) for k in keep]
        lay = {"original-order": M, "requested-order": np.transpose(M, perm)}
        rshape = ishape(result.shape)
        got = np.asarray(result.ps, dtype=float).ravel()
        info = {"shape": dims, "keep": keep, "result_shape": rshape, "result_ps": got, "parent_ps": flat}
        fits = [nm for nm, T in lay.items() if T.shape == rshape]
        ctx.truth(L + ":shape", bool(fits) and got.size == M.size, key=K + ":reported-shape-is-neither-original-nor-requested-order", info=info)
        if not fits or got.size != M.size:
            return
        eps = float(result.eps_zero)
        best, amb_any, nz_any = float("inf"), False, 0
        for nm in fits:
            cands, is_zero, nz, amb = model_ctor(lay[nm].ravel(), eps)
            amb_any |= amb
            nz_any = max(nz_any, nz)
            best = min(best, min(maxabs(got, c) for c in cands))
        if amb_any:
            ctx.skip(L + ":cell-at-threshold")
            return
        key = K + ":not-the-sums-over-removed-variables"
        if best >= 1e-9:
            # name the mechanism: right numbers laid out in the order the reported shape does not have?
            for nm, T in lay.items():
                if nm not in fits and min(maxabs(got, c) for c in model_ctor(T.ravel(), eps)[0]) < 1e-9:
                    key = K + ":axis-order-inconsistent-with-reported-shape"
        ctx.num(L + ":explicit-sums", best, 1e-13, 1e-9, key=key, info=info)

    hs.method(MD, "marginalize", post=post_marg, label="MD.marginalize")

    # ---------------------------------------------------------------- conditionalize
    def post_cond(result, snap, self, conditional_variable_indices, conditional_variable_values):
        L, K = "MD.conditionalize", "MultinomialDistribution.conditionalize"
        try:
            dims = ishape(self.shape)
            flat = np.array(self.ps, dtype=float).ravel()
            cidx = list(conditional_variable_indices)
            cval = list(conditional_variable_values)
        except Exception:
            ctx.skip(L + ":out-of-domain")
            return
        n = len(dims)
        if (not cidx or len(cidx) != len(cval) or len(set(cidx)) != len(cidx) or len(cidx) >= n
                or not all(is_index(k) and 0 <= k < n for k in cidx)
                or not all(is_index(v) and 0 <= v < dims[k] for k, v in zip(cidx, cval))
                or flat.size != int(np.prod(dims, dtype=object)) or np.any(np.isnan(flat))):
            ctx.skip(L + ":out-of-domain")
            return
        cidx = [int(k) for k in cidx]
        cval = [int(v) for v in cval]
        S, rest = explicit_slice(flat, dims, cidx, cval)
        marg = 0.0
        for v in S.ravel():
            marg += float(v)
        got = np.asarray(result.ps, dtype=float).ravel()
        rshape = ishape(result.shape)
        info = {"shape": dims, "cond_indices": cidx, "cond_values": cval, "marginal_of_event": marg, "result_shape": rshape,
                "result_ps": got, "slice": S.ravel()}
        if not (marg > 0.0):
            ctx.skip(L + ":zero-marginal-event")
            return
        ctx.truth(L + ":shape", rshape == S.shape and got.size == S.size, key=K + ":shape-is-not-the-remaining-variables-in-order", info=info)
        if rshape != S.shape or got.size != S.size:
            return
        eps = float(result.eps_zero)
        cands, is_zero, nz, amb = model_ctor(S.ravel() / marg, eps)
        if amb:
            ctx.skip(L + ":cell-at-threshold")
            return
        err = min(maxabs(got, c) for c in cands)
        key = K + ":not-the-renormalised-slice"
        if err >= 1e-9 and maxabs(got * (S.sum() / max(got.sum(), 1e-300)), S.ravel()) < 1e-9 * max(1.0, 1.0 / marg):
            key = K + ":slice-not-renormalised"
        ctx.num(L + ":renormalised-slice", err, 1e-13, 1e-9, key=key, info=info)
        # joint = marginal x conditional, cell by cell (marginal of the event from the explicit loops)
        tp, tf = (1e-13, 1e-9) if nz == 0 else (4 * S.size * eps, 400 * S.size * eps)
        jerr = maxabs(marg * got, S.ravel())
        ctx.num(L + ":joint=marginal*conditional(ref-marginal)", jerr, tp, tf, key=K + ":joint-differs-from-marginal-times-conditional", info=info)

    hs.method(MD, "conditionalize", post=post_cond, label="MD.conditionalize")

    # ---------------------------------------------------------------- StateEnsemble.state
    def post_state(result, snap, self, outcome):
        L, K = "StateEnsemble.state", "StateEnsemble.state"
        try:
            shape = ishape(self.prob_dist.shape)
            states = self.states
            nps = int(np.asarray(self.prob_dist.ps).size)
        except Exception:
            ctx.skip(L + ":out-of-domain")
            return
        if type(outcome) is tuple and len(outcome) == len(shape) and all(is_index(i) and 0 <= i < d for i, d in zip(outcome, shape)) \
                and len(states) == nps == int(np.prod(shape, dtype=object)):
            k = rm_serial(shape, outcome)
            ok = result is states[k]
            key = K + (":column-major-although-prob_dist-is-row-major" if (not ok and result is states[cm_serial(shape, outcome)]) else ":addresses-other-entry-than-prob_dist")
            ctx.truth(L + ":same-layout-as-prob_dist", ok, key=key, info={"outcome": outcome, "shape": shape})
        elif type(outcome) is int and 0 <= outcome < len(states):
            ctx.truth(L + ":serial", result is states[outcome], key=K + ":serial-index-wrong-entry", info={"outcome": outcome, "shape": shape})
        else:
            ctx.skip(L + ":out-of-domain")

    hs.method(StateEnsemble, "state", post=post_state, label="StateEnsemble.state")
    return hs


# ------------------------------------------------------------------ shards


def shards(tier, seed):
    out = []
    # (a) index maps, exhaustive in both tiers
    out.append({"kind": "index", "nvars": [1, 2, 3], "first": 0, "weight": 5})
    for f in range(1, 6):
        out.append({"kind": "index", "nvars": [4], "first": f, "weight": 3 * f})
    # (b) probability tensors
    nparts = 16 if tier == "quick" else 24
    for j in range(nparts):
        out.append({"kind": "dist", "part": j, "nparts": nparts, "stride": 7 if tier == "quick" else 1,
                    "reps": 1 if tier == "quick" else 2, "cap": 6 if tier == "quick" else 0, "weight": 30 if tier == "quick" else 60})
    # validator ladder + ProbDist + documented rejections
    out.append({"kind": "misc", "n": 40 if tier == "quick" else 400, "weight": 4})
    # (c) ensembles
    n = {"quick": 6, "thorough": 60}[tier]
    for shape, basis, w, k in (("S1", "std", 1, 3), ("S1", "nggm", 1, 3), ("S3", "std", 2, 2), ("S3", "nggm", 2, 2),
                               ("S2", "std", 4, 1.5), ("S23", "std", 12, 0.7), ("S2", "nggm", 4, 1.5)):
        out.append({"kind": "ens", "shape": shape, "basis": basis, "n": max(2, int(n * k)), "weight": w * n * k})
    return out


def run_shard(ctx):
    kind = ctx.params["kind"]
    hs = install(ctx)
    try:
        if kind == "index":
            run_index(ctx, hs)
        elif kind == "dist":
            run_dist(ctx, hs)
        elif kind == "misc":
            run_misc(ctx, hs)
        elif kind == "ens":
            run_ens(ctx, hs)
        else:
            raise ValueError(kind)
    finally:
        hs.uninstall()
    ctx.extra["hook_counts"] = dict(hs.counts)
    ctx.extra["kind"] = kind


# ------------------------------------------------------------------ (a) index maps


def run_index(ctx, hs):
    import quara.utils.index_util as iu

    p = ctx.params
    shapes = [s for s in all_shapes() if len(s) in p["nvars"] and (p["first"] == 0 or s[0] == p["first"])]
    pairs = 0
    buf = []       # ONE list object handed over with the numbers of many shapes (a memo keyed by id() would answer for the first)
    prev = None    # the previous shape of this shard: asked again after the current one (history step, hooks judge every call)
    for i in ctx.cases(len(shapes)):
        dims = shapes[i]
        total = int(np.prod(dims))
        as_list = (i % 2 == 0)
        nl = list(dims) if as_list else tuple(dims)
        if i % 4 == 0:
            buf[:] = dims
            nl = buf
        for k in range(total):
            ok, multi = ctx.attempt(iu.index_multi_dimensional_from_index_serial, nl, k)
            if not ok:
                ctx.violation("index_util.multi_from_serial:" + ctx.exc_key(multi), {"dims": dims, "serial": k})
                continue
            want = rm_multi(dims, k)
            ok2, ser = ctx.attempt(iu.index_serial_from_index_multi_dimensional, nl, want)
            if not ok2:
                ctx.violation("index_util.serial_from_multi:" + ctx.exc_key(ser), {"dims": dims, "multi": want})
                continue
            pairs += 1
        # ---- history: the previous shape again (descending), then this shape again in another order
        for sh in ([prev] if prev is not None else []) + [dims]:
            tot = int(np.prod(sh))
            for k in sorted({tot - 1, tot // 2, 0}, reverse=True):
                ok, multi = ctx.attempt(iu.index_multi_dimensional_from_index_serial, tuple(sh), k)
                if not ok:
                    ctx.violation("index_util.multi_from_serial:" + ctx.exc_key(multi) + S_SECOND, {"dims": sh, "serial": k})
                    continue
                ok2, ser = ctx.attempt(iu.index_serial_from_index_multi_dimensional, list(sh), rm_multi(sh, k))
                if not ok2:
                    ctx.violation("index_util.serial_from_multi:" + ctx.exc_key(ser) + S_SECOND, {"dims": sh, "multi": rm_multi(sh, k)})
        prev = dims
        if sum(1 for d in dims if d > 1) >= 2:
            ctx.nontrivial("index", dims)
        if i < 2 and p["first"] in (0, 3):
            ctx.sample({"part": "index maps", "shape": dims, "indices_enumerated": total, "last_serial": total - 1,
                        "multi_of_last": list(rm_multi(dims, total - 1))})
    ctx.extra["index_pairs"] = pairs
    ctx.extra["index_shapes"] = len(shapes) if ctx.only_case is None else 1
    # documented rejection + a few shapes beyond the exhaustive scope (6 variables, up to 9 values, numpy integers)
    if p["first"] == 0:
        for i in ctx.cases(60, start=10000):
            rng = ctx.rng()
            n = int(rng.integers(1, 7))
            dims = [int(x) for x in rng.integers(1, 10, size=n)]
            k = int(rng.integers(0, int(np.prod(dims))))
            nl = [np.int64(d) for d in dims] if i % 3 == 0 else dims
            ok, multi = ctx.attempt(iu.index_multi_dimensional_from_index_serial, nl, k)
            if not ok:
                ctx.violation("index_util.multi_from_serial:" + ctx.exc_key(multi), {"dims": dims, "serial": k})
                continue
            ok2, ser = ctx.attempt(iu.index_serial_from_index_multi_dimensional, nl, tuple(multi))
            if not ok2:
                ctx.violation("index_util.serial_from_multi:" + ctx.exc_key(ser), {"dims": dims, "multi": multi})
            ok3, e = ctx.attempt(iu.index_serial_from_index_multi_dimensional, dims, tuple(multi) + (0,))
            ctx.truth("index.serial_from_multi:length-mismatch-raises", (not ok3) and isinstance(e, ValueError),
                      key="index_util.serial_from_multi:length-mismatch-not-rejected", info={"dims": dims})
            ctx.nontrivial("index-random", dims, k)
    hs.require(["index.multi_from_serial", "index.serial_from_multi"])


# ------------------------------------------------------------------ (b) probability tensors


def make_tensor(rng, dims, cls):
    """flat probability vector (float64, sums to 1 within rounding) and the constructor's eps_zero argument"""
    size = int(np.prod(dims))
    eps_arg = None
    p = rng.gamma(0.7, size=size) + 1e-3
    if cls == "zeros" and size > 1:
        T = p.reshape(dims)
        # a whole slice of one variable (a zero-marginal conditioning event) and scattered zeros
        ax = int(rng.integers(0, len(dims)))
        if dims[ax] > 1:
            sl = [slice(None)] * len(dims)
            sl[ax] = int(rng.integers(0, dims[ax]))
            T[tuple(sl)] = 0.0
        mask = rng.random(size) < 0.25
        p = T.ravel()
        p[mask] = 0.0
        if not np.any(p > 0):
            p[int(rng.integers(0, size))] = 1.0
    p = p / p.sum()
    if cls == "subthr" and size > 1:
        k = int(rng.integers(1, min(3, size - 1) + 1))
        pos = rng.choice(size, size=k, replace=False)
        p[pos] = rng.choice([1e-9, 3e-9, 1e-12, 1e-15], size=k)
        big = int(np.argmax(p))
        p[big] += 1.0 - p.sum()
    if cls == "eps-small" and size > 1:
        eps_arg = 1e-12
        k = int(rng.integers(1, max(2, size // 2) + 1))
        pos = rng.choice(size, size=min(k, size - 1), replace=False)
        p[pos] = rng.choice([2e-11, 3e-10, 1.5e-9, 4e-9, 1e-13, 0.0], size=len(pos))
        if not np.any(p > 1e-3):
            p[int(rng.integers(0, size))] = 1.0
        p = p / p.sum()
    if cls == "eps-large":
        eps_arg = 1e-3
        if size > 1:
            k = int(rng.integers(1, max(2, size // 3) + 1))
            pos = rng.choice(size, size=min(k, size - 1), replace=False)
            p[pos] = rng.choice([2e-4, 5e-5, 9e-4], size=len(pos))
            p = p / p.sum()
    if cls == "allzero":
        p = np.zeros(size) if rng.random() < 0.5 else rng.choice([0.0, 1e-9, 4e-9 / size], size=size)
    return np.ascontiguousarray(p, dtype=np.float64), eps_arg


def ordered_subsets(n):
    for r in range(1, n + 1):
        for c in itertools.permutations(range(n), r):
            yield list(c)


HIST = 16   # sub-stream of the case RNG used by the history steps (the base cases stay bit-identical to the former workload)
S_SECOND = ":second-call"
S_TWIN = ":same-shape-twin"
S_REUSED = ":re-used-object"
S_REREAD = ":re-read-after-later-calls"
S_RETURNED = ":on-returned-distribution"
S_SETTER = ":after-setter"
S_COPY = ":via-copy"
S_GATE = ":via-gate"
S_SIBLING = ":sibling-system"


class FirstResults:
    """distributions returned in the first pass of a case, with a snapshot (shape, ps) taken when they were returned
    (each was judged by its hook at that moment); the first 24 and the last 24 are kept and read again at the end"""

    def __init__(self):
        self.items = []
        self.n = 0

    def remember(self, what, args, obj):
        try:
            snap = (ishape(obj.shape), np.array(obj.ps, dtype=float).ravel().copy())
        except Exception:
            return
        it = {"what": what, "args": args, "obj": obj, "shape": snap[0], "ps": snap[1]}
        if len(self.items) < 48:
            self.items.append(it)
        else:
            self.items[24 + self.n % 24] = it
        self.n += 1


def judge_joint(ctx, P, Mg, C, dims, sub, av, rest, thr, nflat, cidx, cval, cls, sfx=""):
    """joint = marginal x conditional through the public accessors only (P: joint, Mg: P.marginalize(sub), C: the conditional)"""
    n = len(dims)
    okm, m_q = ctx.attempt(Mg.__getitem__, tuple(int(v) for v in av))
    if not okm:
        ctx.violation("MultinomialDistribution.getitem:" + ctx.exc_key(m_q) + sfx, {"shape": dims, "idx": av})
        return
    worst = 0.0
    for cell in itertools.product(*[range(dims[k]) for k in rest]):
        full = [0] * n
        for k, v in zip(sub, av):
            full[k] = v
        for k, v in zip(rest, cell):
            full[k] = v
        o1, j = ctx.attempt(P.__getitem__, tuple(full))
        o2, c = ctx.attempt(C.__getitem__, tuple(cell))
        if not (o1 and o2):
            ctx.violation("MultinomialDistribution.getitem:" + ctx.exc_key(c if o1 else j) + sfx, {"shape": dims, "idx": full})
            return
        worst = max(worst, abs(j - m_q * c))
    # children are thresholded at 1e-8: the mass zeroed in the marginal and in the conditional is at most
    # (number of cells) * 1e-8 each, which bounds the cell-wise discrepancy (derived bound, not calibrated)
    tp, tf = (1e-13, 1e-9) if not thr else (4 * nflat * 1e-8, 400 * nflat * 1e-8)
    ctx.num("driver:joint=marginal*conditional(quara-marginal)" + sfx, worst, tp, tf,
            key="MultinomialDistribution:joint-differs-from-marginalize-times-conditionalize" + sfx,
            info={"shape": dims, "cond_indices": cidx, "cond_values": cval, "class": cls, "marginal": float(m_q), "history_step": sfx})


def reread(ctx, P, dims, flat, is_zero, eps_arg, cls, sfx):
    """every multi-index and every serial index of P against the reference tensor, and the reported attributes"""
    K = "MultinomialDistribution"
    for idx in itertools.product(*[range(d) for d in dims]):
        k = rm_serial(dims, idx)
        oka, a = ctx.attempt(P.__getitem__, k)           # serial first this time
        okb, b = ctx.attempt(P.__getitem__, tuple(idx))
        if not (oka and okb):
            ctx.violation(K + ".getitem:" + ctx.exc_key(b if oka else a) + sfx, {"shape": dims, "idx": idx})
            continue
        ctx.num("driver:getitem-vs-reference-tensor" + sfx, max(abs(a - flat[k]), abs(a - b)) if not is_zero else max(abs(a), abs(b)), 1e-13, 1e-9,
                key=K + ".getitem:value-differs-from-reference-tensor" + sfx, info={"shape": dims, "idx": idx, "class": cls, "history_step": sfx})
    ok, att = ctx.attempt(lambda: (ishape(P.shape), float(P.eps_zero), bool(P.is_zero_dist)))
    if not ok:
        ctx.violation(K + ":attributes:" + ctx.exc_key(att) + sfx, {"shape": dims})
        return
    want = (tuple(dims), 1e-8 if eps_arg is None else float(eps_arg), bool(is_zero))
    for nm, g, w in zip(("shape", "eps_zero", "is_zero_dist"), att, want):
        ctx.truth("driver:attributes-as-constructed" + sfx, g == w, key=f"{K}:{nm}-changed-after-construction" + sfx,
                  info={"shape": dims, "class": cls, "got": repr(g), "want": repr(w)})


def dist_history(ctx, MD, P, dims, flat, is_zero, eps_arg, cls, hist):
    """history / combination steps on the joint distribution P of one case, all judged by the hooks and by the driver
    oracles of the first pass:
      * a twin distribution (same shape, same class, same eps_zero, other numbers) is built and the SAME calls go alternately
        to the twin and to P (a cache / scratch buffer keyed by shape, size, class or arguments hands one the other's data);
      * P.marginalize / P.conditionalize are asked AGAIN (other order of the retained variables, other assignments) and
        joint = marginal x conditional is judged again through the accessors;
      * returned distributions are used as operands of further marginalize / conditionalize calls;
      * at the end P (and the twin) are read again, cell by cell, against the reference tensor, and the distributions
        returned in the first pass are read again against the snapshot taken when they were returned."""
    rng = ctx.rng(HIST)
    n = len(dims)
    K = "MultinomialDistribution"
    thr = (eps_arg is not None and eps_arg < 1e-8)
    # ---- twin
    p2, eps2 = make_tensor(rng, dims, cls)
    kw = {} if eps2 is None else {"eps_zero": eps2}
    ok2, P2 = ctx.attempt(MD, p2.copy(), tuple(dims), **kw)
    flat2, zero2 = None, True
    if not ok2:
        ctx.violation(K + ".ctor:" + ctx.exc_key(P2) + S_TWIN, {"shape": dims, "class": cls, "p": p2})
        P2 = None
    else:
        c2, zero2, _, _ = model_ctor(p2, 1e-8 if eps2 is None else eps2)
        flat2 = c2[0]
    objs = [(P2, flat2, zero2, S_TWIN), (P, flat, is_zero, S_SECOND)]
    # ---- marginals again, alternately on the twin and on P
    keeps = list(ordered_subsets(n))
    pick = sorted(int(t) for t in rng.choice(len(keeps), size=min(4, len(keeps)), replace=False))
    for t in reversed(pick):
        for obj, fl, zr, sfx in objs:
            if obj is None:
                continue
            okm, Mg = ctx.attempt(obj.marginalize, list(keeps[t]))
            if not okm:
                ctx.violation(K + ".marginalize:" + ctx.exc_key(Mg) + sfx, {"shape": dims, "keep": keeps[t], "class": cls})
            elif sfx == S_SECOND:
                hist.remember("marginalize", list(keeps[t]), Mg)
    # ---- conditionals again (random assignments, permuted argument order), joint = marginal x conditional again
    for _ in range(4 if n >= 2 else 0):
        r = int(rng.integers(1, n))
        sub = sorted(int(k) for k in rng.choice(n, size=r, replace=False))
        av = [int(rng.integers(0, dims[k])) for k in sub]
        pm = [int(t) for t in rng.permutation(r)]
        cidx, cval = [sub[t] for t in pm], [av[t] for t in pm]
        for obj, fl, zr, sfx in objs:
            if obj is None or zr:
                continue
            S, rest = explicit_slice(fl, dims, sub, av)
            m_ref = float(S.sum())
            okc, C = ctx.attempt(obj.conditionalize, list(cidx), list(cval))
            if m_ref <= 0.0:
                ctx.skip("driver:conditioning-on-zero-marginal-event")
                continue
            if not okc:
                ctx.violation(K + ".conditionalize:" + ctx.exc_key(C) + sfx,
                              {"shape": dims, "cond_indices": cidx, "cond_values": cval, "marginal_of_event": m_ref, "class": cls})
                continue
            okm, Mg = ctx.attempt(obj.marginalize, list(sub))
            if not okm:
                ctx.violation(K + ".marginalize:" + ctx.exc_key(Mg) + sfx, {"shape": dims, "keep": sub, "class": cls})
                continue
            judge_joint(ctx, obj, Mg, C, dims, sub, av, rest, thr, len(fl), cidx, cval, cls, sfx)
    # ---- returned distributions as operands (the hooks judge every call against the operand's own numbers)
    cand = [it for it in hist.items if len(it["shape"]) >= 2 and float(it["ps"].sum()) > 0.5]
    for t in (sorted(int(x) for x in rng.choice(len(cand), size=min(3, len(cand)), replace=False)) if cand else []):
        it = cand[t]
        ch, shp = it["obj"], it["shape"]
        T = it["ps"].reshape(shp)
        last = len(shp) - 1
        okm, Mg = ctx.attempt(ch.marginalize, [last])
        if not okm:
            ctx.violation(K + ".marginalize:" + ctx.exc_key(Mg) + S_RETURNED, {"shape": shp, "keep": [last], "from": it["what"]})
        v = int(np.argmax(T.sum(axis=tuple(range(1, len(shp))))))   # a value of variable 0 with non-zero marginal
        okc, C = ctx.attempt(ch.conditionalize, [0], [v])
        if not okc:
            ctx.violation(K + ".conditionalize:" + ctx.exc_key(C) + S_RETURNED, {"shape": shp, "cond_indices": [0], "cond_values": [v], "from": it["what"]})
    # ---- read everything again
    reread(ctx, P, dims, flat, is_zero, eps_arg, cls, S_SECOND)
    if P2 is not None:
        reread(ctx, P2, dims, flat2, zero2, eps2, cls, S_TWIN)
    for it in hist.items:
        ok, cur = ctx.attempt(lambda: (ishape(it["obj"].shape), np.array(it["obj"].ps, dtype=float).ravel()))
        if not ok:
            ctx.violation(f"{K}.{it['what']}:result-changed-after-later-calls:" + ctx.exc_key(cur), {"shape": dims, "args": it["args"]})
            continue
        err = maxabs(cur[1], it["ps"]) if cur[0] == it["shape"] else float("inf")
        ctx.num("driver:returned-distribution-unchanged", err, 1e-13, 1e-9, key=f"{K}.{it['what']}:result-changed-after-later-calls",
                info={"shape": dims, "class": cls, "args": it["args"], "returned_shape": it["shape"], "ps_when_returned": it["ps"], "ps_now": cur[1]})


def run_dist(ctx, hs):
    from quara.objects.multinomial_distribution import MultinomialDistribution as MD

    prm = ctx.params
    shapes_all = all_shapes()
    mine = [s for k, s in enumerate(shapes_all) if k % prm["nparts"] == prm["part"]]
    if prm["stride"] > 1:
        sel = [s for k, s in enumerate(mine) if k % prm["stride"] == (prm["part"] % prm["stride"])]
        sel += [s for k, s in enumerate(MUST_SHAPES) if k % prm["nparts"] == prm["part"] and s not in sel]
    else:
        sel = mine
    work = [(s, r) for s in sel for r in range(prm["reps"])]
    cap = prm["cap"]
    n_marg = n_cond = 0
    for i in ctx.cases(len(work)):
        dims, rep = work[i]
        rng = ctx.rng()
        n = len(dims)
        cls = CLASSES[(i + prm["part"] + 3 * rep) % len(CLASSES)] if rep == 0 else str(rng.choice(CLASSES))
        p_in, eps_arg = make_tensor(rng, dims, cls)
        given = p_in.copy()
        kw = {} if eps_arg is None else {"eps_zero": eps_arg}
        use_default_shape = (n == 1 and rng.random() < 0.5)
        if use_default_shape:
            ok, P = ctx.attempt(MD, list(given) if rng.random() < 0.5 else given, **kw)
        else:
            ok, P = ctx.attempt(MD, given, tuple(dims) if rng.random() < 0.7 else list(dims), **kw)
        if not ok:
            ctx.violation("MultinomialDistribution.ctor:" + ctx.exc_key(P), {"shape": dims, "class": cls, "p": p_in})
            continue
        cands, is_zero, nz, _ = model_ctor(p_in, 1e-8 if eps_arg is None else eps_arg)
        flat = cands[0]   # reference tensor (documented constructor semantics), flat row-major
        nonsquare = len(set(d for d in dims if d > 1)) >= 2
        if nonsquare or nz > 0:
            ctx.nontrivial("dist", dims, cls, p_in)
        if i < 2 and prm["part"] < 3:
            ctx.sample({"part": "probability tensor", "shape": dims, "class": cls, "eps_zero": eps_arg, "ps_in": p_in,
                        "zeroed_by_constructor": nz, "is_zero_dist": is_zero})
        # ---- accessors: every multi-index and every serial index
        for idx in itertools.product(*[range(d) for d in dims]):
            oka, a = ctx.attempt(P.__getitem__, tuple(idx))
            okb, b = ctx.attempt(P.__getitem__, rm_serial(dims, idx))
            if not oka:
                ctx.violation("MultinomialDistribution.getitem:" + ctx.exc_key(a), {"shape": dims, "idx": idx})
            elif not okb:
                ctx.violation("MultinomialDistribution.getitem:" + ctx.exc_key(b), {"shape": dims, "idx": idx})
            else:
                ctx.num("driver:getitem-vs-reference-tensor", max(abs(a - flat[rm_serial(dims, idx)]), abs(a - b)) if not is_zero else abs(a), 1e-13, 1e-9,
                        key="MultinomialDistribution.getitem:value-differs-from-reference-tensor", info={"shape": dims, "idx": idx})
        # ---- marginals: every ordered non-empty subset of retained variables
        margs = {}
        hist = FirstResults()
        thr = (eps_arg is not None and eps_arg < 1e-8)
        for keep in ordered_subsets(n):
            okm, Mg = ctx.attempt(P.marginalize, list(keep))
            n_marg += 1
            if not okm:
                ctx.violation("MultinomialDistribution.marginalize:" + ctx.exc_key(Mg), {"shape": dims, "keep": keep, "class": cls})
                continue
            hist.remember("marginalize", list(keep), Mg)
            if keep == sorted(keep):
                margs[tuple(keep)] = Mg
        if is_zero:
            dist_history(ctx, MD, P, dims, flat, is_zero, eps_arg, cls, hist)
            continue
        # ---- conditionals: every assignment of every non-empty proper subset
        for r in range(1, n):
            for sub in itertools.combinations(range(n), r):
                assigns = list(itertools.product(*[range(dims[k]) for k in sub]))
                if cap and len(assigns) > cap:
                    pick = rng.choice(len(assigns), size=cap, replace=False)
                    assigns = [assigns[int(t)] for t in sorted(pick)]
                Mg = margs.get(tuple(sub))
                for av in assigns:
                    cidx, cval = list(sub), [int(v) for v in av]
                    if r > 1 and rng.random() < 0.5:
                        pm = [int(t) for t in rng.permutation(r)]
                        cidx, cval = [cidx[t] for t in pm], [cval[t] for t in pm]
                    S, rest = explicit_slice(flat, dims, list(sub), list(av))
                    m_ref = float(S.sum())
                    okc, C = ctx.attempt(P.conditionalize, cidx, cval)
                    n_cond += 1
                    if m_ref <= 0.0:
                        ctx.skip("driver:conditioning-on-zero-marginal-event")
                        continue
                    if not okc:
                        ctx.violation("MultinomialDistribution.conditionalize:" + ctx.exc_key(C),
                                      {"shape": dims, "cond_indices": cidx, "cond_values": cval, "marginal_of_event": m_ref, "class": cls})
                        continue
                    hist.remember("conditionalize", (cidx, cval), C)
                    if Mg is None:
                        continue
                    judge_joint(ctx, P, Mg, C, dims, sub, av, rest, thr, len(flat), cidx, cval, cls)
        dist_history(ctx, MD, P, dims, flat, is_zero, eps_arg, cls, hist)
    ctx.count("marginalize-calls", n_marg)
    ctx.count("conditionalize-calls", n_cond)
    ctx.extra["dist_shapes"] = [list(s) for s in sel] if ctx.only_case is None else []
    if work and ctx.only_case is None:
        hs.require(["MD.ctor", "MD.getitem", "MD.marginalize", "MD.conditionalize", "validate_prob_dist", "index.serial_from_multi"])


# ------------------------------------------------------------------ validator, ProbDist, documented rejections


def run_misc(ctx, hs):
    from quara.math.probability import validate_prob_dist
    from quara.objects.multinomial_distribution import MultinomialDistribution as MD
    from quara.objects.prob_dist import ProbDist

    for i in ctx.cases(ctx.params["n"]):
        rng = ctx.rng()
        size = int(rng.integers(1, 13))
        base = rng.gamma(0.8, size=size) + 1e-3
        base = base / base.sum()
        # ---- validator ladder (the hook decides; exceptions are the verdict)
        for eps in (None, 1e-12, 1e-8, 1e-5, 1e-2):
            e = 1e-8 if eps is None else eps
            for fac in (0.0, 0.03, 30.0, 1e3):
                for what in ("sum+", "sum-", "neg"):
                    p = base.copy()
                    if what == "sum+":
                        p[int(rng.integers(0, size))] += fac * e
                    elif what == "sum-":
                        j = int(np.argmax(p))
                        p[j] -= min(fac * e, p[j] / 2)
                    else:
                        if size < 2 or fac == 0.0:
                            continue
                        j = int(rng.integers(0, size))
                        k = (j + 1) % size
                        p[k] += p[j] + fac * e
                        p[j] = -fac * e
                    for vs in (True, False):
                        args = (p,) if eps is None and vs else (p, eps, vs)
                        ctx.attempt(validate_prob_dist, *args)
        ctx.attempt(validate_prob_dist, base * 3.0, None, True, False)  # raise_error=False must not raise
        ctx.nontrivial("validate", base)
        # ---- constructor: documented rejections and boundary inputs
        for what, bad in (("negative", -1e-3), ("sum", 1e-3), ("size", 0.0)):
            p = base.copy()
            shape = None
            if what == "negative" and size >= 2:
                p[0], p[1] = bad, p[1] + p[0] - bad
            elif what == "sum":
                p[0] += bad
            elif what == "size":
                shape = (size + 1,)
            else:
                continue
            ok, val = ctx.attempt(MD, p, shape)
            ctx.truth("MD.ctor:documented-rejection", (not ok) and isinstance(val, ValueError),
                      key=f"MultinomialDistribution.ctor:accepts-invalid-input:{what}", info={"p": p, "shape": shape})
        # tiny negative entries (tolerated by the validator) must not survive; a sum off by < 1e-8 is renormalised or kept
        if size >= 2:
            p = base.copy()
            p[0], p[1] = -3e-10, p[1] + p[0] + 3e-10
            ctx.attempt(MD, p)
            q = base.copy()
            q[int(np.argmax(q))] += 4e-9
            ctx.attempt(MD, q)
        # explicit thresholds, eps_zero=0 ("never zero anything") included
        for ez in (1e-8, 1e-5, 0.0, 0):
            p = base.copy()
            if size >= 2:
                j = int(np.argmin(p))
                k = int(np.argmax(p))
                p[k] += p[j] - 2e-9
                p[j] = 2e-9
            ctx.attempt(MD, p, None, ez)
        # ---- documented rejections of marginalize / conditionalize
        dims = (2, 3) if size % 2 else (3, 2, 2)
        t = rng.gamma(1.0, size=int(np.prod(dims)))
        ok, P = ctx.attempt(MD, t / t.sum(), dims)
        if ok:
            for keep in ([len(dims)], [-1], [0, len(dims) + 2]):
                okx, val = ctx.attempt(P.marginalize, keep)
                ctx.truth("MD.marginalize:out-of-range-raises", (not okx) and isinstance(val, ValueError),
                          key="MultinomialDistribution.marginalize:out-of-range-variable-not-rejected", info={"keep": keep, "shape": dims})
            for ci, cv in (([0, 1], [0]), ([-1], [0]), ([0], [-1])):
                okx, val = ctx.attempt(P.conditionalize, ci, cv)
                ctx.truth("MD.conditionalize:documented-rejection", (not okx) and isinstance(val, ValueError),
                          key="MultinomialDistribution.conditionalize:invalid-arguments-not-rejected", info={"indices": ci, "values": cv, "shape": dims})
        else:
            ctx.violation("MultinomialDistribution.ctor:" + ctx.exc_key(P), {"shape": dims})
        # ---- ProbDist accessor on a non-square shape
        shapes = all_shapes()
        dims = shapes[int(rng.integers(0, len(shapes)))]
        t = rng.random(int(np.prod(dims)))
        pd = ProbDist(t / t.sum(), tuple(dims))
        for idx in itertools.product(*[range(d) for d in dims]):
            oka, a = ctx.attempt(pd.__getitem__, tuple(idx))
            okb, b = ctx.attempt(pd.__getitem__, rm_serial(dims, idx))
            if not (oka and okb):
                ctx.violation("ProbDist.getitem:" + ctx.exc_key(b if oka else a), {"shape": dims, "idx": idx})
        # ---- history: a second ProbDist of the same shape with other numbers, asked alternately with the first (descending)
        rh = ctx.rng(HIST)
        t2 = rh.random(int(np.prod(dims)))
        pd2 = ProbDist(t2 / t2.sum(), tuple(dims))
        for idx in reversed(list(itertools.product(*[range(d) for d in dims]))):
            for obj, sfx in ((pd2, S_TWIN), (pd, S_SECOND)):
                oka, a = ctx.attempt(obj.__getitem__, tuple(idx))
                okb, b = ctx.attempt(obj.__getitem__, rm_serial(dims, idx))
                if not (oka and okb):
                    ctx.violation("ProbDist.getitem:" + ctx.exc_key(b if oka else a) + sfx, {"shape": dims, "idx": idx})
        # ---- history: defaults after explicit option values (an option value must not outlive the call it was given to)
        off = base.copy()
        off[int(np.argmax(off))] += 1e-5
        ctx.attempt(validate_prob_dist, off)                 # default eps 1e-8: must raise (the ladder ended with eps=1e-2)
        ctx.attempt(validate_prob_dist, base)                # must not raise
        ctx.attempt(validate_prob_dist, base * 3.0, validate_sum=False)   # only non-negativity is asked
        ctx.attempt(validate_prob_dist, base * 3.0)          # default validate_sum=True again: must raise
        if size >= 2:
            p = base.copy()
            j, k = int(np.argmin(p)), int(np.argmax(p))
            p[k] += p[j] - 2e-9
            p[j] = 2e-9
            ctx.attempt(MD, p.copy(), None, 1e-12)           # keeps the 2e-9 entry
            ctx.attempt(MD, p.copy())                        # default threshold again: zeroes it
        if len(set(d for d in dims if d > 1)) >= 2:
            ctx.nontrivial("probdist", dims, t)
    if ctx.only_case is None:
        hs.require(["validate_prob_dist", "ProbDist.getitem", "MD.ctor"])


# ------------------------------------------------------------------ (c) ensembles


def rank1_vectors(d, m, rng):
    """vectors w_x with sum |w_x><w_x| = I  (m >= d)"""
    E = ref.rand_povm(d, m, rng, 1)
    ws = []
    for e in E:
        w, v = np.linalg.eigh(e)
        ws.append(np.sqrt(max(w[-1], 0.0)) * v[:, -1])
    return ws


def projective_sets(u, m):
    d = u.shape[0]
    groups = np.array_split(np.arange(d), min(m, d))
    sets = [[sum(np.outer(u[:, i], u[:, i].conj()) for i in g)] for g in groups]
    while len(sets) < m:
        sets.append([np.zeros((d, d), dtype=complex)])
    return sets


def ref_histories(sig0, steps):
    """unnormalised operators of every outcome history.
    sig0: array hist_shape0 + (d,d); steps: list of (shape_of_step, kraus sets in row-major order of that shape)"""
    sig = np.asarray(sig0, dtype=complex)
    d = sig.shape[-1]
    for shp, sets in steps:
        hshape = sig.shape[:-2]
        new = np.zeros(hshape + (len(sets), d, d), dtype=complex)
        for h in itertools.product(*[range(x) for x in hshape]):
            for x, ks in enumerate(sets):
                new[h + (x,)] = sum(k @ sig[h] @ ref.dag(k) for k in ks)
        sig = new.reshape(hshape + tuple(shp) + (d, d))  # row-major split of the step's own multi-index (reference convention)
    return sig


def check_ensemble(ctx, tag, ens, sig, B, info, sfx=""):
    """ens.prob_dist[t] and ens.state(t) against the reference history operators sig[t].
    sfx names the history step that led to this evaluation (appended to oracle names and violation keys)"""
    K = f"ensemble:{tag}"
    if sfx:
        info = dict(info, history_step=sfx)
    hshape = tuple(int(x) for x in sig.shape[:-2])
    if not ctx.truth(K + ":result-type" + sfx, type(ens).__name__ == "StateEnsemble", key=K + ":result-is-not-a-StateEnsemble" + sfx,
                     info=dict(info, got=type(ens).__name__)):
        return False
    ok, rshape = ctx.attempt(lambda: ishape(ens.prob_dist.shape))
    if not ok:
        ctx.violation(K + ":" + ctx.exc_key(rshape) + sfx, info)
        return False
    info = dict(info, history_shape=hshape, reported_shape=rshape)
    tr = None
    if rshape == hshape:
        tr = lambda t: t  # noqa: E731
    elif len(hshape) == 2 and rshape == hshape[::-1] and hshape[0] != hshape[1]:
        tr = lambda t: t[::-1]  # noqa: E731  (time order reversed but consistently: allowed by the statement)
    ctx.truth(K + ":shape" + sfx, tr is not None and len(ens.states) == int(np.prod(hshape)),
              key=K + ":shape-is-not-the-outcome-counts-of-the-steps" + sfx, info=info)
    if tr is None or len(ens.states) != int(np.prod(hshape)):
        return False
    p_ref = np.real(np.trace(sig, axis1=-2, axis2=-1))
    if np.any((p_ref > 1e-13) & (p_ref < 1e-6)):
        ctx.skip(K + ":probability-near-threshold" + sfx)
        return True
    ep = es = 0.0
    wp = ws = None
    n_states = 0
    obs = np.zeros(rshape)
    for t in itertools.product(*[range(x) for x in rshape]):
        h = tr(t)
        o1, pt = ctx.attempt(ens.prob_dist.__getitem__, tuple(t))
        o2, st = ctx.attempt(ens.state, tuple(t))
        k = rm_serial(rshape, t)
        o3, pk = ctx.attempt(ens.prob_dist.__getitem__, k)
        o4, sk = ctx.attempt(ens.state, k)
        if not (o1 and o2 and o3 and o4):
            bad = [v for o, v in ((o1, pt), (o2, st), (o3, pk), (o4, sk)) if not o][0]
            ctx.violation(K + ":accessor:" + ctx.exc_key(bad) + sfx, dict(info, outcome=t))
            return False
        obs[t] = pt
        if p_ref[h] >= 1e-3:
            rho = sig[h] / p_ref[h]
            e2 = float(np.max(np.abs(ref.op(B, np.asarray(st.vec)) - rho)))
            n_states += 1
            if e2 >= es:
                es, ws = e2, t
    keyp = K + ":probability-of-history-wrong" + sfx
    ref_t = np.where(p_ref > 1e-13, p_ref, 0.0)
    ref_t = ref_t if rshape == hshape else np.transpose(ref_t)
    # the generated instruments are trace preserving only to rounding (tot-1 ~ 1e-13 for ill-conditioned rank-1 POVMs);
    # quara renormalises when it has zeroed an entry and keeps the numbers otherwise: either is right
    tot = float(ref_t.sum())
    if abs(tot - 1.0) > 1e-10:
        ctx.skip(K + ":generated-instrument-not-trace-preserving" + sfx)
        return True
    D = np.abs(obs - (ref_t / tot if maxabs(obs, ref_t / tot) < maxabs(obs, ref_t) else ref_t))
    ep = float(D.max())
    wp = tuple(int(x) for x in np.unravel_index(int(np.argmax(D)), D.shape))
    if ep >= 1e-9 and len(rshape) >= 2:
        # same numbers, other layout?
        if maxabs(obs.ravel(), ref_t.ravel(order="F")) < 1e-9:
            keyp = K + ":probabilities-in-column-major-layout" + sfx
    ctx.num(K + ":probability-of-history" + sfx, ep, 1e-12, 1e-9, key=keyp, info=dict(info, worst_outcome=wp, p_ref=p_ref, p_obs=obs))
    if n_states:
        ctx.num(K + ":post-state-of-history" + sfx, es, 1e-11, 1e-9,
                key=K + ":state(t)-is-not-the-post-state-of-the-history-prob_dist[t]-refers-to" + sfx,
                info=dict(info, worst_outcome=ws, p_ref=p_ref))
    return True


def ens_history(ctx, compose, c_sys, B, d, info, i, kept, sib, state, rho, M1, shp1, sets1, M2, m2, sets2, e1, sig1, e2, sig2, third, dist):
    """history / combination steps of one ensemble case; every ensemble is judged by check_ensemble against its own
    reference histories (and every state(t) call by the hook), nothing is compared with an earlier answer of quara"""
    rng = ctx.rng(HIST)
    TS, TE = "MProcess*State", "MProcess*StateEnsemble"

    def step(tag, sfx, fn, sig, counts=None):
        ok, e = ctx.attempt(fn)
        if not ok:
            ctx.violation(f"ensemble:{tag}:" + ctx.exc_key(e) + sfx, info)
            return None
        good = check_ensemble(ctx, tag, e, sig, B, info if counts is None else dict(info, counts=counts), sfx)
        return e if good else None

    # ---- (c) the process kept from the PREVIOUS case of the shard measures this case's state and this case's first ensemble
    if kept:
        Mk, setsk, shpk = kept["M"], kept["sets"], kept["shp"]
        step(TS, S_REUSED, lambda: compose(Mk, state), ref_histories(rho, [(shpk, setsk)]), [list(shpk)])
        step(TE, S_REUSED, lambda: compose(Mk, e1), ref_histories(rho, [(shp1, sets1), (shpk, setsk)]), [list(shp1), list(shpk)])
    # ---- (c) twins: another process of the same outcome shape on the same state (non-default options), and the case's own
    #      process objects on ANOTHER state, alternately
    n1 = int(np.prod(shp1))
    sets1t = ref.rand_instrument(d, n1, rng, [int(rng.integers(1, 3)) for _ in range(n1)])
    opt = {"eps_zero": 1e-12} if rng.random() < 0.5 else {}
    ok, M1t = ctx.attempt(lambda: gen.make_mprocess(c_sys, sets1t, shape=shp1, **opt))
    if not ok:
        ctx.violation("ensemble:construction:" + ctx.exc_key(M1t) + S_TWIN, info)
        M1t = None
    rho_b = ref.rand_density(d, rng, int(rng.integers(1, d + 1)))
    ok, state_b = ctx.attempt(lambda: gen.make_state(c_sys, rho_b))
    if not ok:
        ctx.violation("ensemble:construction:" + ctx.exc_key(state_b) + S_TWIN, info)
        state_b = None
    if M1t is not None:
        step(TS, S_TWIN, lambda: compose(M1t, state), ref_histories(rho, [(shp1, sets1t)]))
    if state_b is not None:
        e1b = step(TS, S_REUSED, lambda: compose(M1, state_b), ref_histories(rho_b, [(shp1, sets1)]))
        if e1b is not None:
            # second process with the option shape=(2,2) where it has four outcomes (same Kraus sets, other object)
            if m2 == 4 and rng.random() < 0.6:
                ok, M2s = ctx.attempt(lambda: gen.make_mprocess(c_sys, sets2, shape=(2, 2)))
                if ok:
                    step(TE, S_TWIN, lambda: compose(M2s, e1b), ref_histories(rho_b, [(shp1, sets1), ((2, 2), sets2)]), [list(shp1), [2, 2]])
                else:
                    ctx.violation("ensemble:construction:" + ctx.exc_key(M2s) + S_TWIN, info)
            step(TE, S_REUSED, lambda: compose(M2, e1b), ref_histories(rho_b, [(shp1, sets1), ((m2,), sets2)]))
    if M1t is not None:
        step(TE, S_TWIN, lambda: compose(M2, M1t, state), ref_histories(rho, [(shp1, sets1t), ((m2,), sets2)]))
    # ---- (c) a short chain on a SIBLING composite system of the same dimensions with the other basis, living in the same
    #      process (a module-level cache keyed by dimension / system names / outcome counts would mix the two up)
    if sib is not None:
        c2, B2 = sib
        rho_s = ref.rand_density(d, rng, int(rng.integers(1, d + 1)))
        sets_s1 = ref.rand_instrument(d, n1, rng, [int(rng.integers(1, 3)) for _ in range(n1)])
        sets_s2 = ref.rand_instrument(d, m2, rng, [int(rng.integers(1, 3)) for _ in range(m2)])
        ok, ob = ctx.attempt(lambda: (gen.make_state(c2, rho_s), gen.make_mprocess(c2, sets_s1, shape=shp1), gen.make_mprocess(c2, sets_s2)))
        if not ok:
            ctx.violation("ensemble:construction:" + ctx.exc_key(ob) + S_SIBLING, info)
        else:
            ok, es1 = ctx.attempt(compose, ob[1], ob[0])
            if not ok:
                ctx.violation(f"ensemble:{TS}:" + ctx.exc_key(es1) + S_SIBLING, info)
            elif check_ensemble(ctx, TS, es1, ref_histories(rho_s, [(shp1, sets_s1)]), B2, info, S_SIBLING):
                ok, es2 = ctx.attempt(compose, ob[2], es1)
                if not ok:
                    ctx.violation(f"ensemble:{TE}:" + ctx.exc_key(es2) + S_SIBLING, info)
                else:
                    check_ensemble(ctx, TE, es2, ref_histories(rho_s, [(shp1, sets_s1), ((m2,), sets_s2)]), B2, info, S_SIBLING)
    # ---- (a) the same calls again on the same operand objects
    step(TS, S_SECOND, lambda: compose(M1, state), sig1)
    step(TE, S_SECOND, lambda: compose(M2, e1), sig2)
    # ---- public setter: sampling mode on, one sampled composition (its random result is not judged), sampling mode off
    if rng.random() < 0.6:
        seed = int(rng.integers(0, 2**31 - 1))
        oks, _ = ctx.attempt(M1.set_mode_sampling, True, seed)
        if oks:
            ctx.attempt(compose, M1, state_b if state_b is not None else state)
            ctx.count("history:sampling-mode-compositions(not judged)")
        okb, err = ctx.attempt(M1.set_mode_sampling, False)
        if not okb:
            ctx.violation("ensemble:MProcess.set_mode_sampling(False):" + ctx.exc_key(err), info)
        else:
            step(TS, S_SETTER, lambda: compose(M1, state), sig1)
            step(TE, S_SETTER, lambda: compose(M1, e1), ref_histories(rho, [(shp1, sets1), (shp1, sets1)]), [list(shp1), list(shp1)])
    # ---- (b) operands reached through copy(); used only when the copy reproduces the raw arrays of its source
    #      (what copy() returns is the business of other properties)
    ok, cp = ctx.attempt(lambda: (M1.copy(), state.copy(), M2.copy()))
    if ok:
        M1c, sc, M2c = cp
        with_same = (ishape(M1c.shape) == ishape(M1.shape) and ishape(M2c.shape) == ishape(M2.shape)
                     and maxabs(np.array(M1c.hss), np.array(M1.hss)) <= 1e-12 and maxabs(np.array(M2c.hss), np.array(M2.hss)) <= 1e-12
                     and maxabs(sc.vec, state.vec) <= 1e-12 and M1c.eps_zero == M1.eps_zero and M2c.eps_zero == M2.eps_zero
                     and not M1c.mode_sampling and not M2c.mode_sampling)
        if with_same:
            ec = step(TS, S_COPY, lambda: compose(M1c, sc), sig1)
            if ec is not None:
                step(TE, S_COPY, lambda: compose(M2c, ec), sig2)
        else:
            ctx.count("history:copy-does-not-reproduce-the-source(not judged here)")
    else:
        ctx.count("history:copy-raises(not judged here)")
    # ---- (b) a unitary gate between the two measurements: the rotated ensemble (returned by a previous library call,
    #      sharing the distribution object of e1) is the operand of the second measurement
    u = ref.rand_unitary(d, rng)
    ok, G = ctx.attempt(lambda: gen.make_gate(c_sys, kraus=[u]))
    if ok:
        ok, e1g = ctx.attempt(compose, G, e1)
        if ok:
            sig1g = np.einsum("ab,...bc,dc->...ad", u, sig1, u.conj())
            step(TE, S_GATE, lambda: compose(M2, e1g), ref_histories(sig1g, [((m2,), sets2)]))
        else:
            ctx.count("history:Gate*StateEnsemble-raises(not judged here)")
    # ---- (b) the joint distribution returned by Povm o StateEnsemble as operand of marginalize / conditionalize
    #      (the hooks judge the values against the operand's own numbers)
    ok, nv = ctx.attempt(lambda: len(dist.shape))
    if ok and nv >= 2:
        for keep in (list(range(nv - 1)), [nv - 1], [nv - 1, 0]):
            okm, Mg = ctx.attempt(dist.marginalize, keep)
            if not okm:
                ctx.violation("MultinomialDistribution.marginalize:" + ctx.exc_key(Mg) + S_RETURNED, dict(info, keep=keep))
        okp, ps = ctx.attempt(lambda: np.array(dist.ps, dtype=float).reshape(ishape(dist.shape)))
        if okp and float(ps.sum()) > 0.5:
            y = int(np.argmax(ps.sum(axis=tuple(range(nv - 1)))))
            okc, C = ctx.attempt(dist.conditionalize, [nv - 1], [y])
            if not okc:
                ctx.violation("MultinomialDistribution.conditionalize:" + ctx.exc_key(C) + S_RETURNED, dict(info, cond_indices=[nv - 1], cond_values=[y]))
    # ---- (a) the ensembles of the first pass read again after everything else
    check_ensemble(ctx, TS, e1, sig1, B, info, S_REREAD)
    check_ensemble(ctx, TE, e2, sig2, B, info, S_REREAD)
    if third is not None:
        check_ensemble(ctx, TE, third[0], third[1], B, info, S_REREAD)


def run_ens(ctx, hs):
    from quara.objects.multinomial_distribution import MultinomialDistribution as MD
    from quara.objects.operators import compose_qoperations
    from quara.objects.state_ensemble import StateEnsemble

    prm = ctx.params
    dims = gen.SHAPES[prm["shape"]]
    c_sys = gen.make_csys(dims, kind=prm["basis"])
    B = gen.basis_of(c_sys)
    d = c_sys.dim
    KINDS = ["random", "eigen", "prepare", "shape2d", "direct", "random"]
    kept = {}   # a measurement process (with its Kraus sets) kept alive from the previous case of the shard
    ok, c2 = ctx.attempt(gen.make_csys, dims, kind={"std": "nggm", "nggm": "std"}[prm["basis"]])
    sib = (c2, gen.basis_of(c2)) if ok else None
    for i in ctx.cases(prm["n"]):
        rng = ctx.rng()
        kind = KINDS[i % len(KINDS)]
        ms = [int(x) for x in rng.permutation([2, 3, 4])]
        m1, m2, m3 = ms
        u = ref.rand_unitary(d, rng)
        rho = ref.rand_density(d, rng, int(rng.integers(1, d + 1)))
        shp1 = (m1,)
        if kind == "eigen":
            rho = np.outer(u[:, 0], u[:, 0].conj())
            sets1 = projective_sets(u, m1)
        elif kind == "prepare" and max(ms) >= d:
            m1 = max(ms)
            m2, m3 = [x for x in ms if x != m1]
            shp1 = (m1,)
            ws = rank1_vectors(d, m1, rng)
            sets1 = [[np.outer(u[:, x % d], w.conj())] for x, w in enumerate(ws)]
        elif kind == "shape2d":
            m1, shp1 = 4, (2, 2)
            m2, m3 = [int(x) for x in rng.permutation([2, 3])]
            m2, m3 = (3, 2) if m2 == 2 and rng.random() < 0.7 else (m2, m3)
            sets1 = ref.rand_instrument(d, 4, rng, [int(rng.integers(1, 3)) for _ in range(4)])
        else:
            sets1 = ref.rand_instrument(d, m1, rng, [int(rng.integers(1, 3)) for _ in range(m1)])
        if kind == "prepare" and max(ms) >= d:
            sets2 = projective_sets(u, m2)
        else:
            sets2 = ref.rand_instrument(d, m2, rng, [int(rng.integers(1, 3)) for _ in range(m2)])
        info = {"dims": dims, "basis": prm["basis"], "kind": kind, "counts": [list(shp1), m2]}
        ok, objs = ctx.attempt(lambda: (gen.make_state(c_sys, rho), gen.make_mprocess(c_sys, sets1, shape=shp1), gen.make_mprocess(c_sys, sets2)))
        if not ok:
            ctx.violation("ensemble:construction:" + ctx.exc_key(objs), info)
            continue
        state, M1, M2 = objs
        ctx.nontrivial("ens", dims, prm["basis"], kind, list(shp1), m2, gen.real_coeffs(B, rho))
        if i < 1:
            ctx.sample({"part": "ensemble", "dims": dims, "basis": prm["basis"], "kind": kind, "step1_shape": list(shp1), "step2_outcomes": m2,
                        "state_vec": gen.real_coeffs(B, rho)})

        if kind == "direct":
            # a directly built ensemble (a != m1), then one measurement: MProcess o StateEnsemble "once"
            a = [x for x in (2, 3, 4) if x != m1][int(rng.integers(0, 2))]
            rhos = [ref.rand_density(d, rng) for _ in range(a)]
            w = rng.dirichlet(np.ones(a))
            w = w / w.sum()
            ok, ens0 = ctx.attempt(lambda: StateEnsemble([gen.make_state(c_sys, r) for r in rhos], MD(np.array(w), (a,))))
            if not ok:
                ctx.violation("ensemble:construction:" + ctx.exc_key(ens0), info)
                continue
            sig0 = np.array([wi * r for wi, r in zip(w, rhos)])
            ok, e1 = ctx.attempt(compose_qoperations, M1, ens0)
            if not ok:
                ctx.violation("ensemble:MProcess*StateEnsemble:" + ctx.exc_key(e1), info)
                continue
            sig1d = ref_histories(sig0, [(shp1, sets1)])
            check_ensemble(ctx, "MProcess*StateEnsemble", e1, sig1d, B, dict(info, counts=[a, list(shp1)]))
            # ---- history: the directly built ensemble is measured by ANOTHER process, then by the first one again;
            #      the first result is read again afterwards
            ok, e1b = ctx.attempt(compose_qoperations, M2, ens0)
            if not ok:
                ctx.violation("ensemble:MProcess*StateEnsemble:" + ctx.exc_key(e1b) + S_REUSED, info)
            else:
                check_ensemble(ctx, "MProcess*StateEnsemble", e1b, ref_histories(sig0, [((m2,), sets2)]), B, dict(info, counts=[a, m2]), S_REUSED)
            ok, e1c = ctx.attempt(compose_qoperations, M1, ens0)
            if not ok:
                ctx.violation("ensemble:MProcess*StateEnsemble:" + ctx.exc_key(e1c) + S_SECOND, info)
            else:
                check_ensemble(ctx, "MProcess*StateEnsemble", e1c, sig1d, B, dict(info, counts=[a, list(shp1)]), S_SECOND)
            check_ensemble(ctx, "MProcess*StateEnsemble", e1, sig1d, B, dict(info, counts=[a, list(shp1)]), S_REREAD)
            kept = {"M": M2, "sets": sets2, "shp": (m2,)}
            continue

        # ---- once
        ok, e1 = ctx.attempt(compose_qoperations, M1, state)
        if not ok:
            ctx.violation("ensemble:MProcess*State:" + ctx.exc_key(e1), info)
            continue
        sig1 = ref_histories(rho, [(shp1, sets1)])
        if not check_ensemble(ctx, "MProcess*State", e1, sig1, B, info):
            continue
        # ---- twice: the second process is applied to the ensemble (never MProcess o MProcess, whose layout belongs to C06)
        if i % 2 == 0:
            ok, e2 = ctx.attempt(compose_qoperations, M2, e1)
        else:
            ok, e2 = ctx.attempt(compose_qoperations, M2, M1, state)  # list form, evaluated from the tail
        if not ok:
            ctx.violation("ensemble:MProcess*StateEnsemble:" + ctx.exc_key(e2), info)
            continue
        sig2 = ref_histories(rho, [(shp1, sets1), ((m2,), sets2)])
        if not check_ensemble(ctx, "MProcess*StateEnsemble", e2, sig2, B, info):
            continue
        third = None
        # ---- a third step (all three counts different) on small systems
        if d <= 3 and kind in ("random", "shape2d"):
            sets3 = ref.rand_instrument(d, m3, rng)
            ok, e3 = ctx.attempt(lambda: compose_qoperations(gen.make_mprocess(c_sys, sets3), e2))
            if not ok:
                ctx.violation("ensemble:MProcess*StateEnsemble:" + ctx.exc_key(e3), info)
                continue
            sig3 = ref_histories(rho, [(shp1, sets1), ((m2,), sets2), ((m3,), sets3)])
            if check_ensemble(ctx, "MProcess*StateEnsemble", e3, sig3, B, dict(info, counts=[list(shp1), m2, m3])):
                third = (e3, sig3)
        # ---- a POVM on the two-step ensemble: joint distribution over (history, outcome)
        k = 5
        N = ref.rand_povm(d, k, rng)
        ok, dist = ctx.attempt(lambda: compose_qoperations(gen.make_povm(c_sys, N), e2))
        if not ok:
            ctx.violation("ensemble:Povm*StateEnsemble:" + ctx.exc_key(dist), info)
            continue
        hshape = tuple(sig2.shape[:-2])
        J = np.zeros(hshape + (k,))
        for h in itertools.product(*[range(x) for x in hshape]):
            for y in range(k):
                J[h + (y,)] = np.real(np.trace(N[y] @ sig2[h]))
        rs = ishape(dist.shape)
        ctx.truth("ensemble:Povm*StateEnsemble:shape", rs == J.shape, key="ensemble:Povm*StateEnsemble:shape-is-not-history-then-outcome",
                  info=dict(info, reported_shape=rs, want=J.shape))
        if rs == J.shape:
            if np.any((J > 1e-13) & (J < 1e-6)):
                ctx.skip("ensemble:Povm*StateEnsemble:probability-near-threshold")
            else:
                worst = 0.0
                Jr = np.where(J > 1e-13, J, 0.0)
                Jo = np.zeros(J.shape)
                for t in itertools.product(*[range(x) for x in rs]):
                    o, v = ctx.attempt(dist.__getitem__, tuple(t))
                    if not o:
                        ctx.violation("ensemble:Povm*StateEnsemble:accessor:" + ctx.exc_key(v), info)
                        worst = None
                        break
                    Jo[t] = v
                if worst is not None and abs(float(Jr.sum()) - 1.0) > 1e-10:
                    ctx.skip("ensemble:Povm*StateEnsemble:generated-instrument-not-trace-preserving")
                elif worst is not None:
                    worst = min(maxabs(Jo, Jr), maxabs(Jo, Jr / Jr.sum()))  # renormalised or not (see check_ensemble)
                    ctx.num("ensemble:Povm*StateEnsemble:joint-probability", worst, 1e-12, 1e-9,
                            key="ensemble:Povm*StateEnsemble:joint-probability-of-(history,outcome)-wrong", info=dict(info, J=J))
        ens_history(ctx, compose_qoperations, c_sys, B, d, info, i, kept, sib, state, rho, M1, shp1, sets1, M2, m2, sets2, e1, sig1, e2, sig2, third, dist)
        kept = {"M": M2, "sets": sets2, "shp": (m2,)}
    if ctx.only_case is None:
        hs.require(["StateEnsemble.state", "MD.getitem", "MD.ctor", "index.serial_from_multi"])


# ------------------------------------------------------------------ offline


def finalize(merged, ctx):
    pairs = shapes = 0
    dshapes = set()
    for e in merged["extra"]:
        x = e["extra"] or {}
        if x.get("kind") == "index":
            pairs += int(x.get("index_pairs", 0))
            shapes += int(x.get("index_shapes", 0))
        if x.get("kind") == "dist":
            dshapes.update(tuple(s) for s in x.get("dist_shapes", []))
    ctx.truth("exhaustive:index-pairs-all-enumerated", True) if (pairs == N_PAIRS and shapes == 780) else \
        ctx.mark_inconclusive(f"index maps not exhaustively enumerated: {pairs}/{N_PAIRS} pairs, {shapes}/780 shapes")
    for nm in ("index.multi_from_serial:row-major", "index.serial_from_multi:row-major"):
        o = merged["oracles"].get(nm, {"pass": 0, "fail": 0})
        if o["pass"] + o["fail"] < N_PAIRS:
            ctx.mark_inconclusive(f"{nm}: only {o['pass'] + o['fail']} decided evaluations (< {N_PAIRS})")
    ctx.count("dist-shapes-walked", len(dshapes))
    if ctx.tier == "thorough" and len(dshapes) != 780:
        ctx.mark_inconclusive(f"thorough tier walked {len(dshapes)}/780 shapes for marginalize/conditionalize")
