"""C14  Sampled data and empirical distributions are valid and reproducible.

Contracts on every data-generation entry point (data_generator, to_stream,
MultinomialDistribution.execute_random_sampling, Experiment.generate_*, the
four tomography classes' generate_empi_dist / _dists / _dists_sequence):

* validity      data are ints in range with probability > 0; an empirical
                distribution is integer counts / n (recovered by round(n e),
                re-divided, compared exactly), counts >= 0 summing to n;
* prefixes      calc_empi_dist_sequence == reference count of exactly the
                first n_k data, successive entries cumulative-consistent,
                invalid num_sums / out-of-range data raise;
* inversion     with a generator whose uniform numbers are known (recording
                or adversarial stub passed through the public parameter) each
                datum i satisfies C_{i-1} <= u < C_i for the exact (fsum)
                cumulative sums, up to summation rounding;
* history       same int seed => bitwise equal output after arbitrary
                interleaved random activity; shared Generator advances and
                gives different draws; different seeds give different output;
* distribution  pooled counts vs n p (per-cell z and chi-square, fixed bounds);
* re-use        (history / combination steps, own RNG stream ctx.rng(H_RNG), so
                the ordinary workload of a case is what it was) the statement
                quantifies over histories: "a function of the seed and the
                arguments only" holds for arguments, objects and results that
                are used AGAIN.  Caller-owned probability arrays / data lists /
                size lists re-used with new contents, a sibling vector of the
                same size asked in turn, earlier results changed by the caller,
                results read again after later calls; MultinomialDistribution /
                Experiment / tomography objects asked for other things in
                between (other schedule, other true object, reset_seed, other
                entry points), reached through copy() / a pickle round trip, changed through the
                public list / schedules setters (also on a copy, and set back),
                built with non-default constructor options and custom schedule
                lists, interleaved with a sibling object of the same class and
                sizes, compared with a fresh twin.  The oracles are the
                existing ones: same explicit seed => equal (discrete) output,
                where the reference output comes from a fresh object / fresh
                array of equal content; validity by the hooks on every call;
                pooled counts against the Born rule of the reference model for
                the content the object has NOW.  Keys of violations that only
                a history step can show end in the step's name
                (":re-used-object", ":via-copy", ":after-setter",
                ":after-schedules-setter", ":interleaved-with-sibling", ":via-pickle",
                ":re-used-array-new-contents", ":second-true-object", ...).

Recorded but NOT verdicts: whether a seeded call touches np.random's global
state, which bit generator an int seed means, what to_stream(None) returns,
whether the multinomial generators happen to be cumulative-consistent.
"""
import copy
import math
import pickle

import numpy as np

from qv import gen, ref
from qv.monitor import HookSet, digest

ID = "C14"
RULE = ("probability vectors with 2..16 outcomes of classes random / exact zero first, middle, last, many / tiny entries "
        "(1e-300, 1e-17, denormal) / decimal fractions / one-hot / sum off by <= atol (both signs, with and without a zero "
        "last entry); sample-size lists; python-int seeds (0 included), shared generators, recording generators, adversarial "
        "stub generators (0.0, every cumulative-sum boundary +-1 ulp and +-1 grid step 2^-53, 1-2^-53), global state; "
        "histories of 1-5 interleaved actions (np.random draws, np.random.seed, other seeded calls, unseeded quara calls, "
        "generator calls, Experiment(seed_data=k)); entry points of data_generator, MultinomialDistribution, Experiment and "
        "the four tomography types (1 qubit, qutrit, 2 qubits; random and computational-basis testers / true objects with "
        "structurally zero probabilities); history steps in every inv / empi / mult / tomo / exp case: arrays and lists re-used "
        "with new contents, sibling vectors / objects of the same size asked in turn, results re-read after later calls, "
        "Experiment list and schedules setters (on the object and on its copy()), tomographies with non-default options and "
        "custom schedule lists, a second true object, a fresh twin. A case is distinct by (entry point, vector class, rounded vector or object "
        "parameters, sample sizes, seed, history) and non-trivial when the vector has an exact zero / tiny entry / sum "
        "defect, or the stream is adversarial, or the history has at least one interleaved action, or the input is invalid")

_DG = "quara/qcircuit/data_generator.py:"
_EX = "quara/qcircuit/experiment.py:Experiment."
_TOMO_FILES = {"StandardQst": "standard_qst", "StandardPovmt": "standard_povmt", "StandardQpt": "standard_qpt",
               "StandardQmpt": "standard_qmpt"}
ANCHORS = [
    _DG + "generate_data_from_prob_dist", _DG + "generate_dataset_from_prob_dists", _DG + "calc_empi_dist_sequence",
    _DG + "calc_empi_dists_sequence", _DG + "generate_empi_dist_sequence_from_prob_dist",
    _DG + "generate_empi_dists_sequence_from_prob_dists", "quara/utils/number_util.py:to_stream",
    "quara/objects/multinomial_distribution.py:MultinomialDistribution.execute_random_sampling",
    _EX + "generate_data", _EX + "generate_dataset", _EX + "generate_empi_dist_sequence", _EX + "generate_empi_dists_sequence",
] + [f"quara/protocol/qtomography/standard/{f}.py:{c}.{m}" for c, f in _TOMO_FILES.items()
     for m in ("generate_empi_dist", "generate_empi_dists", "generate_empi_dists_sequence")]
# _random_number_to_data (private, entered once per datum on this tree) is an optional observation point: the per-draw
# monitor only refines the violation key of the data-level oracle "data.nonzero-probability", which judges every datum
# of every returned data list anyway; a vectorised implementation that no longer calls it is not less observed
REQUIRED_REACH = ANCHORS
REQUIRED_ORACLES = ["data.valid", "data.nonzero-probability", "inversion.interval", "empi.counts-over-n",
                    "calc_empi.prefix-count", "calc_empi.cumulative", "calc_empi.invalid-raises",
                    "history.same-seed", "history.different-seeds", "history.shared-generator-advances",
                    "history.shared-generator-differs", "to_stream.int-seed-same-stream", "dist.cell-z", "dist.chi2-ratio",
                    "multinomial.nonzero-probability", "multinomial.schedules-independent", "experiment.schedules-independent",
                    "tomo.structural-zero", "history.re-used-object", "history.re-used-array", "history.retained-result"]
MIN_EVALS = {"quick": 50000, "thorough": 500000}
WATCHDOG = {"quick": 900, "thorough": 3600}
ASSUMPTIONS = [
    "an adversarial stream is any np.random.Generator subclass whose random(n) returns floats in [0,1): the public "
    "seed_or_generator parameter accepts it; values off the 2^-53 grid are flagged in the witness (on_grid)",
    "scipy's ValueError for a probability vector with |sum-1| > 2.2e-15 is a rejection, not a violation",
    "statistical oracles: |z| <= 8 pass, >= 12 violation (cells with n p >= 20); chi-square <= isf(1e-12) pass, "
    ">= 2 isf(1e-12) violation",
]

GRID = 2.0 ** -53
U_MAX = 1.0 - GRID
DRAWS_DIST = 200_000
Z_PASS, Z_FAIL = 8.0, 12.0
MIN_EXPECT = 20.0


# ===================================================================== helpers


def is_int(x):
    return isinstance(x, (int, np.integer)) and not isinstance(x, (bool, np.bool_))


def exact_cumsums(p):
    """exact (correctly rounded) cumulative sums C_0..C_{m-1} of p"""
    p = [float(x) for x in p]
    return np.array([math.fsum(p[:k + 1]) for k in range(len(p))], dtype=np.float64)


def counts_of(n, e):
    """(why, counts): integer counts of an empirical distribution e for n trials.
    why is None when e is exactly counts / n with counts >= 0 summing to n."""
    if not is_int(n) or n <= 0:
        return "n-not-positive-int", None
    if not isinstance(e, np.ndarray) or e.ndim != 1:
        return "not-a-vector", None
    if e.dtype != np.float64:
        return "dtype-not-float64", None
    if not np.all(np.isfinite(e)):
        return "non-finite", None
    c = np.rint(e * float(n)).astype(np.int64)
    if np.any(c < 0):
        return "negative-count", c
    if int(c.sum()) != int(n):
        return "counts-do-not-sum-to-n", c
    back = c.astype(np.float64) / float(n)
    if not np.array_equal(back, e):
        return "not-counts-over-n", c
    return None, c


def ref_empi(m, data, n):
    c = np.zeros(m, dtype=np.int64)
    for d in data[:n]:
        c[int(d)] += 1
    return c, c.astype(np.float64) / float(n)


def log10_collision_data(p, n):
    """log10 of P(two independent length-n samples of p coincide)"""
    p = np.asarray(p, dtype=np.float64)
    s = float(np.sum((p / max(p.sum(), 1e-300)) ** 2))
    if s >= 1.0:
        return 0.0
    return n * math.log10(s)


def log10_collision_counts(entries):
    """upper bound of log10 P(two independent multinomial outputs coincide);
    entries = [(n, p)], each drawn independently; bound per entry by the
    collision probability of the single cell whose p is closest to 1/2."""
    from scipy.stats import binom

    tot = 0.0
    for n, p in entries:
        p = np.asarray(p, dtype=np.float64)
        p = p / max(p.sum(), 1e-300)
        q = float(p[np.argmin(np.abs(p - 0.5))])
        if n <= 0 or q <= 0.0 or q >= 1.0:
            continue
        if n * q * (1 - q) > 500.0:  # local limit theorem; relative error O(1/(n q (1-q)))
            coll = 1.0 / (2.0 * math.sqrt(math.pi * n * q * (1 - q))) * 1.05
        else:
            pm = binom.pmf(np.arange(n + 1), n, q)
            coll = float(np.sum(pm * pm))
        if 0 < coll < 1:
            tot += math.log10(coll)
    return tot


class RecGen(np.random.Generator):
    """a real generator that remembers the uniform numbers it handed out"""

    def __init__(self, seed):
        super().__init__(np.random.PCG64(seed))
        self.qv_last = None
        self.qv_calls = 0

    def random(self, size=None, *a, **k):
        r = super().random(size, *a, **k)
        self.qv_last = np.array(r, dtype=np.float64, copy=True).ravel()
        self.qv_calls += 1
        return r


class StubGen(np.random.Generator):
    """adversarial stream: random(n) returns the prescribed numbers (cyclically)"""

    def __init__(self, vals):
        super().__init__(np.random.PCG64(0))
        self.vals = np.asarray(vals, dtype=np.float64)
        self.qv_last = None
        self.qv_calls = 0
        self.qv_stub = True

    def random(self, size=None, *a, **k):
        n = 1 if size is None else int(np.prod(size))
        r = np.resize(self.vals, n).astype(np.float64)
        self.qv_last = r.copy()
        self.qv_calls += 1
        return r[0] if size is None else r.reshape(size)


def adversarial_values(p):
    """0, 1-2^-53 and every cumulative-sum boundary (sequential float sum and
    exact sum) with its +-1 ulp and +-1 grid (2^-53) neighbours, inside [0,1)"""
    vals = {0.0, U_MAX, 0.5, GRID}
    seq, c = [], 0.0
    for x in p:
        c += float(x)
        seq.append(c)
    for c in list(seq) + [float(x) for x in exact_cumsums(p)]:
        g = math.floor(c / GRID) * GRID if c < 4 else c
        for v in (c, np.nextafter(c, -np.inf), np.nextafter(c, np.inf), g, g - GRID, g + GRID):
            v = float(v)
            if 0.0 <= v < 1.0:
                vals.add(v)
    return np.array(sorted(vals), dtype=np.float64)


VCLASSES_ALL = ["random", "zero-first", "zero-middle", "zero-last", "zeros-many", "tiny", "decimal", "one-hot",
                "sum-low", "sum-high", "sum-low-zero-last"]
VCLASSES_NORMALISED = ["random", "zero-first", "zero-middle", "zero-last", "zeros-many", "tiny", "decimal", "one-hot"]
NONTRIVIAL_CLASSES = set(VCLASSES_ALL) - {"random"}


def make_vector(rng, cls, atol=1e-13):
    """(p, m) of the class; normalised classes are divided by their float sum"""
    m = int(rng.integers(2, 17))
    if cls in ("zero-middle", "zeros-many") and m < 3:
        m = 3
    alpha = float(rng.choice([0.3, 1.0, 5.0]))
    w = rng.dirichlet(np.ones(m) * alpha) + 1e-6
    if cls in ("zero-first",):
        w[0] = 0.0
    elif cls == "zero-middle":
        w[int(rng.integers(1, m - 1))] = 0.0
    elif cls in ("zero-last", "sum-low-zero-last"):
        w[-1] = 0.0
    elif cls == "zeros-many":
        k = int(rng.integers(1, m))
        idx = rng.choice(m, size=k, replace=False)
        w[idx] = 0.0
        if rng.random() < 0.5:
            w[0] = 0.0
        if rng.random() < 0.5:
            w[-1] = 0.0
        if not np.any(w > 0):
            w[int(rng.integers(0, m))] = 1.0
    elif cls == "tiny":
        k = int(rng.integers(1, max(2, m // 2)))
        idx = rng.choice(m, size=k, replace=False)
        for j in idx:
            w[j] = float(rng.choice([1e-300, 1e-17, 5e-324, 1e-30]))
        if not np.any(w > 1e-3):
            w[int(rng.integers(0, m))] = 1.0
    elif cls == "decimal":
        k = int(rng.choice([3, 5, 6, 7, 9, 10, 11, 12, 13]))
        nz = int(rng.integers(0, 4))
        w = np.array([1.0 / k] * k + [0.0] * nz)
        if rng.random() < 0.5 and nz:
            pos = rng.permutation(len(w))
            w = w[pos]
        return w.astype(np.float64), len(w)
    elif cls == "one-hot":
        w = np.zeros(m)
        w[int(rng.integers(0, m))] = 1.0
        return w, m
    p = w / w.sum()
    if cls in ("sum-low", "sum-high", "sum-low-zero-last"):
        delta = float(rng.choice([0.5, 0.9])) * atol
        j = int(np.argmax(p))
        p[j] = p[j] - delta if cls != "sum-high" else p[j] + delta
    return p.astype(np.float64), m


# ====================================================================== judge


class Judge:
    """oracles shared by the hooks (state: classification of per-draw failures,
    memory of to_stream(int) streams, trace of inner validated results)"""

    def __init__(self, ctx):
        self.ctx = ctx
        self.draw_fail = []      # per-draw failures since the last data-level verdict
        self.stream_by_seed = {}
        self.seed_by_stream = {}
        self.trace = []          # (kind, p, result) of inner calls, consumed by outer hooks
        self.max_z = 0.0
        self.max_chi_ratio = 0.0

    def reset_trace(self):
        self.trace = []

    def push(self, entry):
        if len(self.trace) > 256:
            self.trace = []
        self.trace.append(entry)

    # ------------------------------------------------------------ per draw
    def draw(self, probdist, u, idx):
        """called for every execution of _random_number_to_data; cheap on success"""
        try:
            ok = is_int(idx) and 0 <= idx < len(probdist) and probdist[idx] > 0
        except Exception:
            ok = False
        if ok:
            return
        p = np.asarray(probdist, dtype=np.float64)
        m = len(p)
        u = float(u)
        if not (is_int(idx) and 0 <= idx < m):
            self.draw_fail.append(("_random_number_to_data:index-out-of-range", {"u": u, "idx": repr(idx), "p": p}))
            return
        seq, c = [], 0.0
        for x in p:
            c += float(x)
            seq.append(c)
        on_grid = float(u / GRID).is_integer()
        info = {"u": u, "u_hex": u.hex(), "idx": int(idx), "p": p, "sum_sequential": seq[-1], "sum_exact": math.fsum(p),
                "on_grid": on_grid}
        if idx == m - 1 and not (u < seq[-1]):
            key = "_random_number_to_data:zero-probability-outcome:last-index-fallback"
        elif u == 0.0 or (idx > 0 and u == seq[idx - 1]) or u == seq[idx]:
            key = "_random_number_to_data:zero-probability-outcome:u-on-interval-boundary"
        else:
            key = "_random_number_to_data:zero-probability-outcome:wrong-interval"
        self.draw_fail.append((key, info))

    # ------------------------------------------------------------ data level
    def data(self, label, data, p, n_expected, stream=None):
        ctx = self.ctx
        p = np.asarray(p, dtype=np.float64)
        m = len(p)
        fails, self.draw_fail = self.draw_fail, []
        shape_ok = isinstance(data, list) and (n_expected is None or len(data) == n_expected)
        ints_ok = shape_ok and all(is_int(d) for d in data)
        range_ok = ints_ok and all(0 <= d < m for d in data)
        why = "not-a-list-of-requested-length" if not shape_ok else "datum-not-int" if not ints_ok else "datum-out-of-range"
        ctx.truth("data.valid", range_ok, key=f"{label}:{why}", info={"m": m, "n": n_expected, "data": data if shape_ok else repr(data)[:200]})
        if not range_ok:
            return
        arr = np.asarray(data, dtype=np.int64)
        if arr.size == 0:
            ctx.skip("data.nonzero-probability")
            return
        bad = np.nonzero(~(p[arr] > 0))[0]
        if bad.size == 0 and not fails:
            ctx.truth("data.nonzero-probability", True)
        elif fails:
            seen = set()
            for key, info in fails:
                if key not in seen:
                    seen.add(key)
                    ctx.truth("data.nonzero-probability", False, key=key, info=dict(info, via=label))
        else:
            j = int(arr[bad[0]])
            pos = "last" if j == m - 1 else "first" if j == 0 else "middle"
            ctx.truth("data.nonzero-probability", False, key=f"{label}:zero-probability-outcome:{pos}-index",
                      info={"p": p, "idx": j, "position_in_data": int(bad[0])})
        u = getattr(stream, "qv_last", None)
        if u is not None and len(u) == len(arr):
            self.interval(label, p, np.asarray(u, dtype=np.float64), arr, stub=bool(getattr(stream, "qv_stub", False)))

    def interval(self, label, p, u, arr, stub=False):
        """C_{i-1} <= u < C_i with exact cumulative sums, up to the rounding of
        a float summation of m terms; u >= total sum (deficient vector): free"""
        ctx = self.ctx
        C = exact_cumsums(p)
        lo = np.concatenate([[0.0], C[:-1]])[arr]
        hi = C[arr]
        err = np.maximum(np.maximum(lo - u, u - hi), 0.0)
        free = u >= C[-1] - 4e-15
        n_free = int(np.sum(free))
        if n_free:
            ctx.count("inversion.u-beyond-total-sum(free)", n_free)
        errj = np.where(free, 0.0, err)
        if errj.size == n_free:
            ctx.skip("inversion.interval")
            return
        j = int(np.argmax(errj))
        ctx.num("inversion.interval", float(errj[j]), 4e-15, 1e-12, key=f"{label}:datum-outside-cumulative-interval",
                info={"p": p, "u": float(u[j]), "idx": int(arr[j]), "lo": float(lo[j]), "hi": float(hi[j]), "stub": stub})

    # --------------------------------------------------- empirical distributions
    def empi(self, label, n, e, n_expected=None, p=None, m=None, oracle_zero="multinomial.nonzero-probability"):
        """one (n, e) tuple; returns counts or None"""
        ctx = self.ctx
        if n_expected is not None:
            ctx.truth("empi.sample-size", is_int(n) and n == n_expected, key=f"{label}:sample-size-differs-from-requested",
                      info={"n": repr(n), "requested": n_expected})
        if is_int(n) and n == 0:
            ctx.skip("empi.counts-over-n")
            return None
        why, c = counts_of(n, e)
        if why is None and m is not None and len(c) != m:
            why = "wrong-number-of-outcomes"
        ctx.truth("empi.counts-over-n", why is None, key=f"{label}:empirical-distribution:{why}", info={"n": repr(n), "e": e, "m": m})
        if why is not None:
            return None
        if p is not None and len(p) == len(c):
            p = np.asarray(p, dtype=np.float64)
            bad = np.nonzero((c > 0) & ~(p > 0))[0]
            ctx.truth(oracle_zero, bad.size == 0, key=f"{label}:zero-probability-outcome-counted",
                      info={"p": p, "counts": c, "n": n})
        return c

    def empi_tuple(self, label, t, **kw):
        ok = isinstance(t, tuple) and len(t) == 2
        self.ctx.truth("empi.tuple", ok, key=f"{label}:entry-not-(n,distribution)", info={"entry": repr(t)[:200]})
        if not ok:
            return None
        return self.empi(label, t[0], t[1], **kw)

    def cumulative(self, oracle, label, seq_counts, ns, verdict=True):
        """successive count vectors: differences >= 0 summing to n_{k+1}-n_k"""
        ok = True
        for k in range(len(seq_counts) - 1):
            a, b = seq_counts[k], seq_counts[k + 1]
            if a is None or b is None:
                return
            d = b - a
            if np.any(d < 0) or int(d.sum()) != int(ns[k + 1] - ns[k]):
                ok = False
        if len(seq_counts) < 2:
            return
        if verdict:
            self.ctx.truth(oracle, ok, key=f"{label}:successive-entries-not-cumulative", info={"ns": list(ns)})
        else:
            self.ctx.count(f"{oracle}(recorded):{'consistent' if ok else 'independent-draws'}")

    # ------------------------------------------------------------- statistics
    def distribution(self, label, counts, p, n, sfx=""):
        """pooled counts vs n p : per-cell z (cells with n p >= 20) and chi-square; sfx = ":<history step>" or empty"""
        from scipy.stats import chi2

        ctx = self.ctx
        counts = np.asarray(counts, dtype=np.float64)
        p = np.asarray(p, dtype=np.float64)
        p = p / p.sum()
        E = n * p
        big = E >= MIN_EXPECT
        if int(np.sum(big)) == 0:
            ctx.skip("dist.cell-z")
            return None
        var = n * p * (1 - p)
        cells = np.nonzero(big & (var > 0))[0]
        z = 0.0
        if cells.size:
            zs = np.abs(counts[cells] - E[cells]) / np.sqrt(var[cells])
            j = int(np.argmax(zs))
            z = float(zs[j])
            ctx.num("dist.cell-z", z, Z_PASS, Z_FAIL, key=f"{label}:cell-frequency-off{sfx}",
                    info={"p": p, "counts": counts, "n": n, "cell": int(cells[j]), "z": z})
            self.max_z = max(self.max_z, z)
        # deterministic cells (p == 1): counts must be n exactly -> covered by zero-probability oracles
        k = int(np.sum(big))
        rest_E = float(E[~big].sum())
        stat = float(np.sum((counts[big] - E[big]) ** 2 / E[big]))
        if rest_E >= MIN_EXPECT:
            stat += (float(counts[~big].sum()) - rest_E) ** 2 / rest_E
            df = k
        elif rest_E <= 1e-9 * n and k >= 2:
            df = k - 1
        else:
            df = k
        if df >= 1 and k >= 2:
            thr = float(chi2.isf(1e-12, df))
            ratio = stat / thr
            ctx.num("dist.chi2-ratio", ratio, 1.0, 2.0, key=f"{label}:chi-square-off{sfx}",
                    info={"p": p, "counts": counts, "n": n, "stat": stat, "df": df, "threshold_p1e-12": thr})
            self.max_chi_ratio = max(self.max_chi_ratio, ratio)
        return z


# ====================================================================== hooks


def quara_mods():
    import types

    import quara.objects.multinomial_distribution as md
    import quara.qcircuit.data_generator as dg
    import quara.qcircuit.experiment as ex
    import quara.utils.number_util as nu
    from quara.protocol.qtomography.standard.standard_povmt import StandardPovmt
    from quara.protocol.qtomography.standard.standard_qmpt import StandardQmpt
    from quara.protocol.qtomography.standard.standard_qpt import StandardQpt
    from quara.protocol.qtomography.standard.standard_qst import StandardQst

    try:  # more namespaces that hold to_stream (rebinding covers what is imported)
        import quara.simulation.standard_qtomography_simulation  # noqa: F401
    except Exception:
        pass
    return types.SimpleNamespace(md=md, dg=dg, ex=ex, nu=nu, StandardQst=StandardQst, StandardPovmt=StandardPovmt,
                                 StandardQpt=StandardQpt, StandardQmpt=StandardQmpt,
                                 tomo=[StandardQst, StandardPovmt, StandardQpt, StandardQmpt])


def is_scipy_rejection(exc):
    """ValueError raised inside scipy / numpy (parameter validation of the sampler)"""
    import traceback

    fr = traceback.extract_tb(exc.__traceback__)
    if not isinstance(exc, ValueError) or not fr:
        return False
    fn = fr[-1].filename.replace("\\", "/")
    return "/scipy/" in fn or "/numpy/" in fn or "numpy/random" in fn or fn.startswith("numpy") or fn.endswith(".pyx")


def peek_stream(stream, k=4):
    """first k uniform numbers a stream would give, without disturbing it"""
    try:
        if isinstance(stream, np.random.Generator):
            return copy.deepcopy(stream).random(k).tobytes()
        if stream is np.random:
            rs = np.random.RandomState()
            rs.set_state(np.random.get_state())
            return rs.random_sample(k).tobytes()
        if isinstance(stream, np.random.RandomState):
            rs = np.random.RandomState()
            rs.set_state(stream.get_state())
            return rs.random_sample(k).tobytes()
    except Exception:
        return None
    return None


def install(ctx):
    M = quara_mods()
    hs = HookSet(ctx)
    J = Judge(ctx)
    dg = M.dg

    # ---- inversion sampling, per draw
    def post_draw(result, snap, probdist, random_number):
        J.draw(probdist, random_number, result)

    hs.function(dg, "_random_number_to_data", post=post_draw)

    # ---- generate_data_from_prob_dist
    def pre_data(prob_dist, data_num, seed_or_generator=None, atol=None):
        J.draw_fail = []
        return None

    def post_data(result, snap, prob_dist, data_num, seed_or_generator=None, atol=None):
        J.data("generate_data_from_prob_dist", result, prob_dist, data_num, stream=seed_or_generator)
        J.push(("data", np.array(prob_dist, dtype=np.float64), result))

    hs.function(dg, "generate_data_from_prob_dist", pre=pre_data, post=post_data)

    def post_dataset(result, snap, prob_dists, data_nums, seeds_or_generators=None):
        ok = isinstance(result, list) and len(result) == len(prob_dists)
        ctx.truth("dataset.shape", ok, key="generate_dataset_from_prob_dists:wrong-number-of-data-lists")
        if not ok:
            return
        inner = [t for t in J.trace if t[0] == "data"]
        validated = len(inner) == len(result) and all(r is t[2] or r == t[2] for r, t in zip(result, inner))
        if validated:  # every list was judged by the contract of generate_data_from_prob_dist
            ctx.truth("dataset.returns-validated", all(isinstance(r, list) and len(r) == n for r, n in zip(result, data_nums)),
                      key="generate_dataset_from_prob_dists:data-list-length-differs-from-requested")
        else:
            for data, p, n in zip(result, prob_dists, data_nums):
                J.data("generate_dataset_from_prob_dists", data, p, n)

    def exc_dataset(exc, snap, prob_dists, data_nums, seeds_or_generators=None):
        bad = len(prob_dists) != len(data_nums) or (seeds_or_generators is not None and len(seeds_or_generators) != len(prob_dists))
        if bad:
            ctx.truth("dataset.length-mismatch-raises", True)

    hs.function(dg, "generate_dataset_from_prob_dists", pre=lambda *a, **k: J.reset_trace(), post=post_dataset, on_exc=exc_dataset)

    # ---- calc_empi_dist_sequence
    def classify_calc_input(measurement_num, data, num_sums):
        """'valid' | 'free:<why>' | 'invalid:<why>'"""
        try:
            ns = [int(x) for x in num_sums]
            m = int(measurement_num)
            L = len(data)
        except Exception:
            return "free:unparsable"
        if m < 0:
            return "invalid:negative-measurement-num"
        if len(ns) == 0:
            return "free:empty-num-sums"
        if any(x <= 0 for x in ns):
            return "free:non-positive-sample-size"
        if any(b <= a for a, b in zip(ns, ns[1:])):
            return "invalid:num-sums-not-increasing"
        if any(x > L for x in ns):
            return "invalid:num-sums-longer-than-data"
        if any((not is_int(d)) or not (0 <= d < m) for d in data[:ns[-1]]):
            return "invalid:datum-out-of-range-within-prefix"
        if any((not is_int(d)) or not (0 <= d < m) for d in data[ns[-1]:]):
            return "free:datum-out-of-range-beyond-last-prefix"
        return "valid"

    def judge_calc(label, result, measurement_num, data, num_sums):
        cls = classify_calc_input(measurement_num, data, num_sums)
        if cls.startswith("invalid"):
            ctx.truth("calc_empi.invalid-raises", False, key=f"{label}:accepts-{cls}",
                      info={"m": measurement_num, "data": list(data), "num_sums": list(num_sums)})
            return
        if cls.startswith("free"):
            ctx.skip("calc_empi.input-class")
            ctx.count(f"calc_empi.{cls}:returned-" + ("all-requested-entries" if isinstance(result, list) and len(result) == len(num_sums)
                                                          else "fewer-entries-than-requested-without-raising"))
            return
        m = int(measurement_num)
        ok = isinstance(result, list) and len(result) == len(num_sums)
        ctx.truth("calc_empi.length", ok, key=f"{label}:number-of-entries-differs-from-num-sums",
                  info={"returned": len(result) if isinstance(result, list) else repr(result)[:80], "num_sums": list(num_sums)})
        if not ok:
            return
        cs = []
        for t, n in zip(result, num_sums):
            okt = isinstance(t, tuple) and len(t) == 2
            ctx.truth("empi.tuple", okt, key=f"{label}:entry-not-(n,distribution)")
            if not okt:
                cs.append(None)
                continue
            c = J.empi(label, t[0], t[1], n_expected=int(n), m=m)
            cs.append(c)
            rc, re_ = ref_empi(m, data, int(n))
            same = isinstance(t[1], np.ndarray) and t[1].shape == re_.shape and np.array_equal(t[1], re_)
            ctx.truth("calc_empi.prefix-count", same, key=f"{label}:not-the-count-of-the-first-n-data",
                      info={"n": int(n), "got": t[1], "reference": re_, "len_data": len(data)})
        J.cumulative("calc_empi.cumulative", label, cs, [int(n) for n in num_sums])

    def post_calc(result, snap, measurement_num, data, num_sums):
        judge_calc("calc_empi_dist_sequence", result, measurement_num, data, num_sums)
        J.push(("calc", None, result))

    def exc_calc(exc, snap, measurement_num, data, num_sums):
        cls = classify_calc_input(measurement_num, data, num_sums)
        if cls == "valid":
            ctx.truth("calc_empi.valid-accepted", False, key=f"calc_empi_dist_sequence:rejects-valid-input:{type(exc).__name__}",
                      info={"m": measurement_num, "data": list(data), "num_sums": list(num_sums), "exc": str(exc)[:200]})
        elif cls.startswith("invalid"):
            ctx.truth("calc_empi.invalid-raises", True)
            ctx.count(f"calc_empi.{cls}:raised-{type(exc).__name__}")
        else:
            ctx.skip("calc_empi.input-class")
            ctx.count(f"calc_empi.{cls}:raised-{type(exc).__name__}")

    hs.function(dg, "calc_empi_dist_sequence", post=post_calc, on_exc=exc_calc)

    def post_calcs(result, snap, measurement_nums, dataset, list_num_sums):
        ok = len(measurement_nums) == len(dataset) == len(list_num_sums)
        ctx.truth("calc_empi.lists-match", ok, key="calc_empi_dists_sequence:accepts-mismatched-list-lengths")
        if not ok:
            return
        ok = isinstance(result, list) and len(result) == len(dataset)
        ctx.truth("calc_empi.lists-shape", ok, key="calc_empi_dists_sequence:wrong-number-of-sequences")
        if ok:
            hs.counts["calc_empi_dists_sequence:rejudged"] = hs.counts.get("calc_empi_dists_sequence:rejudged", 0) + 1
            for r, m, d, ns in zip(result, measurement_nums, dataset, list_num_sums):
                judge_calc("calc_empi_dists_sequence", r, m, d, ns)

    def exc_calcs(exc, snap, measurement_nums, dataset, list_num_sums):
        if not (len(measurement_nums) == len(dataset) == len(list_num_sums)):
            ctx.truth("calc_empi.lists-match", True)

    hs.function(dg, "calc_empi_dists_sequence", post=post_calcs, on_exc=exc_calcs)

    # ---- multinomial generators
    def post_gen_seq(result, snap, prob_dist, num_sums, seed_or_generator=None):
        label = "generate_empi_dist_sequence_from_prob_dist"
        ok = isinstance(result, list) and len(result) == len(num_sums)
        ctx.truth("empi.sequence-length", ok, key=f"{label}:number-of-entries-differs-from-num-sums")
        if not ok:
            return
        p = np.asarray(prob_dist, dtype=np.float64)
        cs = [J.empi_tuple(label, t, n_expected=int(n), p=p, m=len(p)) for t, n in zip(result, num_sums)]
        if len(cs) >= 2 and all(b > a for a, b in zip(num_sums, num_sums[1:])):
            J.cumulative("multinomial.cumulative", label, cs, [int(n) for n in num_sums], verdict=False)
        J.push(("seq", p, result))

    def exc_gen_seq(exc, snap, prob_dist, num_sums, seed_or_generator=None):
        if is_scipy_rejection(exc):
            ctx.count("multinomial.rejected-by-scipy")
            J.push(("rejected", None, None))

    hs.function(dg, "generate_empi_dist_sequence_from_prob_dist", post=post_gen_seq, on_exc=exc_gen_seq)

    def post_gen_seqs(result, snap, prob_dists, list_num_sums, seed_or_generator=None):
        label = "generate_empi_dists_sequence_from_prob_dists"
        ok = len(prob_dists) == len(list_num_sums)
        ctx.truth("empi.lists-match", ok, key=f"{label}:accepts-mismatched-list-lengths")
        if not ok:
            return
        ok = isinstance(result, list) and len(result) == len(prob_dists)
        ctx.truth("empi.lists-shape", ok, key=f"{label}:wrong-number-of-sequences")
        if not ok:
            return
        for r, p, ns in zip(result, prob_dists, list_num_sums):
            okr = isinstance(r, list) and len(r) == len(ns)
            ctx.truth("empi.sequence-length", okr, key=f"{label}:number-of-entries-differs-from-num-sums")
            if okr:
                for t, n in zip(r, ns):
                    J.empi_tuple(label, t, n_expected=int(n), p=np.asarray(p, dtype=np.float64), m=len(p))

    def exc_gen_seqs(exc, snap, prob_dists, list_num_sums, seed_or_generator=None):
        if len(prob_dists) != len(list_num_sums):
            ctx.truth("empi.lists-match", True)

    hs.function(dg, "generate_empi_dists_sequence_from_prob_dists", post=post_gen_seqs, on_exc=exc_gen_seqs)

    # ---- execute_random_sampling
    def post_ers(result, snap, self, num, size, random_generator=None):
        label = "MultinomialDistribution.execute_random_sampling"
        ok = isinstance(result, list) and len(result) == size
        ctx.truth("sampling.shape", ok, key=f"{label}:wrong-number-of-samples", info={"size": size})
        if not ok:
            return
        p = np.asarray(self.ps, dtype=np.float64)
        for c in result:
            c = np.asarray(c)
            good = c.ndim == 1 and len(c) == len(p) and np.issubdtype(c.dtype, np.integer) and np.all(c >= 0) and int(c.sum()) == int(num)
            ctx.truth("sampling.counts", bool(good), key=f"{label}:counts-invalid", info={"counts": c, "num": num})
            if good:
                bad = np.nonzero((c > 0) & ~(p > 0))[0]
                ctx.truth("multinomial.nonzero-probability", bad.size == 0, key=f"{label}:zero-probability-outcome-counted",
                          info={"p": p, "counts": c})

    def exc_ers(exc, snap, self, num, size, random_generator=None):
        if is_scipy_rejection(exc):
            ctx.count("multinomial.rejected-by-scipy")

    hs.method(M.md.MultinomialDistribution, "execute_random_sampling", post=post_ers, on_exc=exc_ers)

    # ---- to_stream
    def post_to_stream(result, snap, seed_or_generator=None):
        s = seed_or_generator
        ctx.truth("to_stream.usable", callable(getattr(result, "random", None)), key="to_stream:result-has-no-random-method",
                  info={"arg": repr(s)[:80], "result": repr(result)[:80]})
        if s is None:
            ctx.count("to_stream(None):" + ("np.random-module" if result is np.random else type(result).__name__))
            return
        if is_int(s) and type(s) is int:
            ctx.count("to_stream(int):" + type(result).__name__ + "/" + (type(result.bit_generator).__name__ if hasattr(result, "bit_generator") else "?"))
            d = peek_stream(result)
            if d is None:
                ctx.skip("to_stream.int-seed-same-stream")
                ctx.count("to_stream(int):unpeekable")
                return
            mt = np.random.Generator(np.random.MT19937(s)).random(4).tobytes()
            ctx.count("to_stream(int)==Generator(MT19937(seed)):" + str(d == mt))
            prev = J.stream_by_seed.get(s)
            if prev is None:
                J.stream_by_seed[s] = d
                ctx.skip("to_stream.int-seed-same-stream")
            else:
                ctx.truth("to_stream.int-seed-same-stream", prev == d, key="to_stream:int-seed:stream-depends-on-history",
                          info={"seed": s})
            other = J.seed_by_stream.setdefault(d, s)
            ctx.truth("to_stream.int-seed-distinct-streams", other == s, key="to_stream:int-seed:different-seeds-same-stream",
                      info={"seed": s, "other_seed": other})
            return
        ctx.count("to_stream(generator):" + ("same-object" if result is s else "other-object"))

    hs.function(M.nu, "to_stream", post=post_to_stream)

    # ---- Experiment level: structure + equality with the inner validated results
    def pre_trace(*a, **k):
        J.trace = []
        return None

    def post_exp_data(result, snap, self, schedule_index, data_num, seed_or_generator=None):
        inner = [t for t in J.trace if t[0] == "data"]
        ok = isinstance(result, list) and len(result) == data_num and all(is_int(d) and d >= 0 for d in result)
        ctx.truth("data.valid", ok, key="Experiment.generate_data:not-a-list-of-requested-length-of-ints")
        if inner:
            ctx.truth("experiment.returns-validated", result == inner[-1][2], key="Experiment.generate_data:differs-from-generated-data")
            if ok and result:
                ctx.truth("data.valid", max(result) < len(inner[-1][1]), key="Experiment.generate_data:datum-out-of-range")

    hs.method(M.ex.Experiment, "generate_data", pre=pre_trace, post=post_exp_data)

    def post_exp_dataset(result, snap, self, data_nums, seed_or_generator=None):
        inner = [t for t in J.trace if t[0] == "data"]
        ok = isinstance(result, list) and len(result) == len(data_nums) and all(
            isinstance(r, list) and len(r) == n and all(is_int(d) and d >= 0 for d in r) for r, n in zip(result, data_nums))
        ctx.truth("data.valid", ok, key="Experiment.generate_dataset:not-lists-of-requested-lengths-of-ints")
        if ok and len(inner) == len(result):
            ctx.truth("experiment.returns-validated", all(r == t[2] for r, t in zip(result, inner)),
                      key="Experiment.generate_dataset:differs-from-generated-data")

    hs.method(M.ex.Experiment, "generate_dataset", pre=pre_trace, post=post_exp_dataset)

    def judge_seq(label, r, ns, m=None, p=None):
        okr = isinstance(r, list) and len(r) == len(ns)
        ctx.truth("empi.sequence-length", okr, key=f"{label}:number-of-entries-differs-from-num-sums")
        if okr:
            for t, n in zip(r, ns):
                J.empi_tuple(label, t, n_expected=int(n), m=m, p=p)

    def post_exp_seq(result, snap, self, schedule_index, num_sums, seed_or_generator=None):
        inner = [t for t in J.trace if t[0] == "seq"]
        p = inner[-1][1] if inner else None
        judge_seq("Experiment.generate_empi_dist_sequence", result, num_sums, m=None if p is None else len(p), p=p)

    hs.method(M.ex.Experiment, "generate_empi_dist_sequence", pre=pre_trace, post=post_exp_seq)

    def post_exp_seqs(result, snap, self, list_num_sums, seed_or_generator=None):
        label = "Experiment.generate_empi_dists_sequence"
        inner = [t for t in J.trace if t[0] == "seq"]
        n_sched = len(self.schedules)
        ok = isinstance(result, list) and len(result) == n_sched
        ctx.truth("empi.lists-shape", ok, key=f"{label}:wrong-number-of-sequences")
        if not ok:
            return
        for j, r in enumerate(result):
            ns = [row[j] for row in list_num_sums]
            p = inner[j][1] if len(inner) == n_sched else None
            judge_seq(label, r, ns, m=None if p is None else len(p), p=p)

    hs.method(M.ex.Experiment, "generate_empi_dists_sequence", pre=pre_trace, post=post_exp_seqs)

    # ---- tomography level
    def mk_tomo(cls):
        name = cls.__name__

        def post_one(result, snap, self, schedule_index, true_obj, num_sum, seed_or_generator=None, **kw):
            inner = [t for t in J.trace if t[0] == "seq"]
            p = inner[-1][1] if inner else None
            J.empi_tuple(f"{name}.generate_empi_dist", result, n_expected=int(num_sum), m=None if p is None else len(p), p=p)

        def post_all(result, snap, self, true_obj, num_sum, seed_or_generator=None, **kw):
            label = f"{name}.generate_empi_dists"
            inner = [t for t in J.trace if t[0] == "seq"]
            n_sched = len(self._experiment.schedules)
            ok = isinstance(result, list) and len(result) == n_sched
            ctx.truth("empi.lists-shape", ok, key=f"{label}:number-of-entries-differs-from-number-of-schedules")
            if ok:
                for j, t in enumerate(result):
                    p = inner[j][1] if len(inner) == n_sched else None
                    J.empi_tuple(label, t, n_expected=int(num_sum), m=None if p is None else len(p), p=p)

        def post_seq(result, snap, self, true_obj, num_sums, seed_or_generator=None, **kw):
            label = f"{name}.generate_empi_dists_sequence"
            inner = [t for t in J.trace if t[0] == "seq"]
            n_sched = len(self._experiment.schedules)
            ok = isinstance(result, list) and len(result) == len(num_sums) and all(isinstance(r, list) and len(r) == n_sched for r in result)
            ctx.truth("empi.lists-shape", ok, key=f"{label}:shape-differs-from-(num_sums,schedules)")
            if ok:
                for r, n in zip(result, num_sums):
                    for j, t in enumerate(r):
                        p = inner[j][1] if len(inner) == n_sched else None
                        J.empi_tuple(label, t, n_expected=int(n), m=None if p is None else len(p), p=p)

        hs.method(cls, "generate_empi_dist", pre=pre_trace, post=post_one)
        hs.method(cls, "generate_empi_dists", pre=pre_trace, post=post_all)
        hs.method(cls, "generate_empi_dists_sequence", pre=pre_trace, post=post_seq)

    for cls in M.tomo:
        mk_tomo(cls)
    return hs, J, M


# ==================================================================== workload


def shards(tier, seed):
    q = tier == "quick"
    out = []

    def add(kind, n, w, **kw):
        out.append(dict(kind=kind, n=n, weight=w, **kw))

    for b in range(4 if q else 8):
        add("inv", 44 if q else 330, 6, block=b)
    for b in range(2 if q else 4):
        add("adv", 110 if q else 1100, 3, block=b)
    for b in range(2 if q else 4):
        add("empi", 300 if q else 3000, 2, block=b)
    for b in range(3 if q else 6):
        add("mult", 48 if q else 400, 5, block=b)
    for b in range(6 if q else 12):
        add("dist", 5 if q else 40, 10, block=b)
    for t in ("qst", "povmt", "qpt", "qmpt"):
        for shape in (("S1", "S3") if q else ("S1", "S3", "S2")):
            if shape == "S2" and t == "qmpt":
                continue
            add("tomo", (10 if q else 60) if shape != "S2" else 12, 8 if shape != "S2" else 12, type=t, shape=shape)
    for b in range(2 if q else 4):
        add("exp", 10 if q else 80, 6, block=b)
    return out


ACTIONS = ["np.random.random", "np.random.seed", "np.random.normal+randint", "other-seeded-call", "unseeded-quara-call",
           "generator-call", "Experiment(seed_data)", "same-seed-other-entry-point"]


def interleave(ctx, rng, call, M, s):
    acts = []
    for _ in range(int(rng.integers(1, 6))):
        a = int(rng.integers(0, len(ACTIONS)))
        acts.append(ACTIONS[a])
        k = int(rng.integers(0, 2 ** 31))
        if a == 0:
            np.random.random(int(rng.integers(1, 50)))
        elif a == 1:
            np.random.seed(k)
        elif a == 2:
            np.random.standard_normal(3)
            np.random.randint(0, 10, 5)
        elif a == 3:
            ctx.attempt(call, k)
        elif a == 4:
            ctx.attempt(call, None)
        elif a == 5:
            ctx.attempt(call, np.random.Generator(np.random.MT19937(k)))
        elif a == 6:
            ctx.attempt(M.ex.Experiment, schedules=[], seed_data=k)
        elif a == 7:
            ctx.attempt(M.dg.generate_data_from_prob_dist, np.array([0.25, 0.75]), 5, s)
            ctx.attempt(M.dg.generate_empi_dist_sequence_from_prob_dist, np.array([0.25, 0.75]), [10], s)
    return acts


def run_call(ctx, name, call, arg, sfx=""):
    """(True, value) | (False, None); scipy rejections are counted, other exceptions are violations
    (sfx = ":<history step>" when the call belongs to one)"""
    ok, v = ctx.attempt(call, arg)
    if ok:
        return True, v
    if is_scipy_rejection(v):
        ctx.count(f"rejected-by-scipy:{name}")
    else:
        ctx.violation(f"{name}:" + ctx.exc_key(v) + sfx, {"arg": repr(arg)[:80], "exc": str(v)[:300]})
    return False, None


def history_check(ctx, name, call, rng, M, coll_log10, info=None):
    """reproducibility as a history property for one entry point with fixed arguments"""
    info = dict(info or {})
    s = 0 if rng.random() < 0.15 else int(rng.integers(0, 2 ** 31))
    s2 = s + 1 + int(rng.integers(0, 1000))
    info["seed"] = s
    g0 = digest(np.random.get_state())
    ok, r1 = run_call(ctx, name, call, s)
    if not ok:
        return None
    ctx.count("seeded-call:np.random-global-state-" + ("untouched" if digest(np.random.get_state()) == g0 else "changed"))
    d1 = digest(r1)
    ok, r1b = run_call(ctx, name, call, s)
    ctx.truth("history.same-seed", ok and digest(r1b) == d1, key=f"{name}:int-seed:immediate-repeat-differs", info=info)
    acts = interleave(ctx, rng, call, M, s)
    ok, r2 = run_call(ctx, name, call, s)
    ctx.truth("history.same-seed", ok and digest(r2) == d1, key=f"{name}:int-seed:output-depends-on-history",
              info=dict(info, history=acts))
    decisive = coll_log10 <= -30.0
    ok, r3 = run_call(ctx, name, call, s2)
    if ok and decisive:
        ctx.truth("history.different-seeds", digest(r3) != d1, key=f"{name}:different-seeds:identical-output",
                  info=dict(info, other_seed=s2, log10_collision=coll_log10))
    else:
        ctx.skip("history.different-seeds")
    # shared generator
    gs = int(rng.integers(0, 2 ** 31))
    mk = (lambda: np.random.Generator(np.random.PCG64(gs))) if rng.random() < 0.5 else (lambda: np.random.Generator(np.random.MT19937(gs)))
    g = mk()
    st0 = digest(g.bit_generator.state)
    ok_a, a = run_call(ctx, name, call, g)
    st1 = digest(g.bit_generator.state)
    ok_b, b = run_call(ctx, name, call, g)
    st2 = digest(g.bit_generator.state)
    if ok_a and ok_b:
        # a degenerate distribution needs no random numbers: advancing is demanded only where the draws must differ
        if decisive:
            ctx.truth("history.shared-generator-advances", st0 != st1 and st1 != st2 and st0 != st2,
                      key=f"{name}:shared-generator:state-not-advanced", info=info)
            ctx.truth("history.shared-generator-differs", digest(a) != digest(b), key=f"{name}:shared-generator:identical-draws",
                      info=dict(info, log10_collision=coll_log10))
        else:
            ctx.skip("history.shared-generator-advances")
            ctx.skip("history.shared-generator-differs")
            ctx.count("shared-generator:state-" + ("advanced" if st0 != st1 else "not-advanced") + "(recorded, degenerate or small sample)")
        ok_c, c = run_call(ctx, name, call, mk())
        ctx.truth("history.generator-state-determines-output", ok_c and digest(c) == digest(a),
                  key=f"{name}:generator:same-state-different-output", info=info)
    # global state path: recorded, not a verdict
    k = int(rng.integers(0, 2 ** 31))
    np.random.seed(k)
    g1 = digest(np.random.get_state())
    ok_u, u1 = ctx.attempt(call, None)
    if ok_u:
        ctx.count("unseeded-call:np.random-global-state-" + ("advanced" if digest(np.random.get_state()) != g1 else "not-advanced"))
        np.random.seed(k)
        ok_v, u2 = ctx.attempt(call, None)
        if ok_v:
            ctx.count("unseeded-call:same-global-seed-same-output:" + str(digest(u1) == digest(u2)))
            # Without a seed the calls share numpy's global stream: it is the "shared generator" of the statement for the
            # default argument, so two successive unseeded calls (no re-seeding in between) must not be copies of one
            # another.  (Which state the global stream is left in is still only recorded.)
            ok_w, u3 = ctx.attempt(call, None)
            if ok_w and decisive:
                ctx.truth("history.global-stream-advances", digest(u3) != digest(u2),
                          key=f"{name}:unseeded:successive-calls-identical", info=dict(info, log10_collision=coll_log10))
            else:
                ctx.skip("history.global-stream-advances")
    return acts


def pick_atol(rng, cls):
    if cls.startswith("sum-"):
        return [None, 1e-8, 1e-3][int(rng.integers(0, 3))]
    return None if rng.random() < 0.8 else 1e-8


# ======================================================= history / combination steps
#
# "A function of the seed and the arguments only ... independent of earlier calls" is a statement about arguments,
# objects and results that are used AGAIN.  The steps below re-use them the way a caller may (his own arrays and lists
# with new contents, public setters, copy(), constructor options, several objects alive at once) and hand every answer
# to the existing oracles.  The reference output of an equality verdict always comes from a fresh array / fresh object
# of equal content, called with the same explicit int seed; the outputs compared are discrete (data, counts / n).

H_RNG = 1  # ctx.rng(H_RNG): the steps' own stream, so the ordinary workload of a case draws what it drew before


def pick_seed(rng):
    return 0 if rng.random() < 0.15 else int(rng.integers(0, 2 ** 31))


class Retained:
    """results the driver keeps and reads again after later calls: what a call returned must not change afterwards
    (a result that aliases a buffer of the library, or of a later result, would)"""

    def __init__(self, ctx):
        self.ctx = ctx
        self.items = []

    def keep(self, name, r):
        self.items.append((name, r, digest(r)))

    def keep_all(self, outs):
        for name, (d, r) in outs.items():
            if d is not None:
                self.keep(name, r)

    def reread(self):
        for name, r, d in self.items:
            self.ctx.truth("history.retained-result", digest(r) == d, key=f"{name}:retained-result-changed-by-later-calls")
        self.items = []


def ref_out(ctx, call, arg=None):
    """(digest, value) of a reference call on fresh arguments; (None, None) when it raises - never judged here, the
    ordinary workload judges the exceptions of first calls"""
    ok, r = ctx.attempt(call, arg)
    if not ok:
        ctx.count("history-step:reference-call-raised")
        return None, None
    return digest(r), r


def expect_same(ctx, name, call, arg, d_ref, step, what="output-depends-on-history", info=None, oracle="history.re-used-array"):
    """the call must reproduce the reference output (digest d_ref); an exception where the reference call returned
    is a violation too"""
    if d_ref is None:
        ctx.skip(oracle)
        return None
    ok, r = ctx.attempt(call, arg)
    if not ok:
        if is_scipy_rejection(r):
            ctx.count(f"rejected-by-scipy:{name}")
        else:
            ctx.violation(f"{name}:{ctx.exc_key(r)}:{step}", dict(info or {}, exc=str(r)[:300]))
        return None
    ctx.truth(oracle, digest(r) == d_ref, key=f"{name}:int-seed:{what}:{step}", info=info)
    return r


def outputs(ctx, calls, s):
    """{name: (digest, result) | (None, exception)} of the calls {name: seed -> result} with the explicit seed s"""
    out = {}
    for name, call in calls.items():
        ok, r = ctx.attempt(call, s)
        out[name] = (digest(r), r) if ok else (None, r)
    return out


def compare_outputs(ctx, used, reference, step, what="output-depends-on-history", info=None):
    """entry point by entry point: the object under a history step against the reference outputs"""
    oracle = "history.re-used-object"
    for name, (d_ref, _) in reference.items():
        d_u, r_u = used[name]
        if d_ref is None:
            ctx.skip(oracle)
            ctx.count("history-step:reference-call-raised")
            continue
        if d_u is None:
            if is_scipy_rejection(r_u):
                ctx.count(f"rejected-by-scipy:{name}")
            else:
                ctx.violation(f"{name}:{ctx.exc_key(r_u)}:{step}", dict(info or {}, exc=str(r_u)[:300]))
            continue
        ctx.truth(oracle, d_u == d_ref, key=f"{name}:int-seed:{what}:{step}", info=info)


def sibling_vector(rng, p):
    """same length, the same entries in another order (zeros and tiny entries move)"""
    p = np.asarray(p, dtype=np.float64)
    if rng.random() < 0.5 or len(p) < 3:
        return np.ascontiguousarray(p[::-1])
    return np.ascontiguousarray(np.roll(p, int(rng.integers(1, len(p)))))


def hist_data(ctx, dg, rng, p, N, atol):
    """generate_data_from_prob_dist: one caller-owned array with changing contents, a sibling vector in turn"""
    name = "generate_data_from_prob_dist"
    Nh = min(N, 150)
    s = pick_seed(rng)
    q = sibling_vector(rng, p)
    keep = Retained(ctx)

    def gen(arr):
        return lambda sg: dg.generate_data_from_prob_dist(arr, Nh, sg, atol)

    dA, rA = ref_out(ctx, gen(p.copy()), s)
    dB, rB = ref_out(ctx, gen(q.copy()), s)
    if dA is None or dB is None:
        ctx.count("history-step:skipped:" + name)
        return
    keep.keep(name, rA)
    keep.keep(name, rB)
    info = {"p": p, "sibling": q, "N": Nh, "seed": s, "atol": atol}
    fresh = "output-differs-from-fresh-array"
    buf = p.copy()
    expect_same(ctx, name, gen(buf), s, dA, "re-used-array", info=info)
    buf[:] = q  # the caller's own array, new contents
    expect_same(ctx, name, gen(buf), s, dB, "re-used-array-new-contents", what=fresh, info=info)
    ctx.attempt(gen(buf), RecGen(int(rng.integers(0, 2 ** 31))))  # hooks: every datum against the intervals of the contents NOW
    buf[:] = p
    expect_same(ctx, name, gen(buf), s, dA, "re-used-array-restored-contents", what=fresh, info=info)
    ctx.attempt(gen(buf), RecGen(int(rng.integers(0, 2 ** 31))))
    for _ in range(2):
        expect_same(ctx, name, gen(q.copy()), s, dB, "interleaved-with-sibling", info=info)
        expect_same(ctx, name, gen(p.copy()), s, dA, "interleaved-with-sibling", info=info)
    ok, r = ctx.attempt(gen(p.copy()), s)  # what a call returned belongs to the caller: changing it must not reach later calls
    if ok and isinstance(r, list):
        r.reverse()
        r.append(-1)
    expect_same(ctx, name, gen(p.copy()), s, dA, "after-caller-changed-earlier-result", info=info)
    keep.reread()


def hist_dataset(ctx, dg, rng, p, N):
    """generate_dataset_from_prob_dists: the caller's lists (vectors, sizes, seeds) re-used with new contents"""
    name = "generate_dataset_from_prob_dists"
    Nh = min(N, 150)
    s = pick_seed(rng)
    q = sibling_vector(rng, p)
    seeds = [s, s + 5]
    keep = Retained(ctx)

    def ds(L, Ns, sd):
        return lambda _: dg.generate_dataset_from_prob_dists(L, Ns, sd)

    d1, r1 = ref_out(ctx, ds([p.copy(), q.copy()], [Nh, 7], list(seeds)))
    d2, r2 = ref_out(ctx, ds([q.copy(), p.copy()], [7, Nh], list(seeds)))
    if d1 is None or d2 is None:
        ctx.count("history-step:skipped:" + name)
        return
    keep.keep(name, r1)
    keep.keep(name, r2)
    info = {"p": p, "sibling": q, "seeds": seeds}
    fresh = "output-differs-from-fresh-lists"
    L, Ns, sd = [p.copy(), q.copy()], [Nh, 7], list(seeds)
    expect_same(ctx, name, ds(L, Ns, sd), None, d1, "re-used-lists", info=info)
    L.reverse()
    Ns.reverse()
    expect_same(ctx, name, ds(L, Ns, sd), None, d2, "re-used-lists-new-contents", what=fresh, info=info)
    L[0][:] = p
    L[1][:] = q
    Ns.reverse()
    expect_same(ctx, name, ds(L, Ns, sd), None, d1, "re-used-arrays-new-contents", what=fresh, info=info)
    keep.reread()


def spoil_empi_result(r):
    """the caller overwrites the arrays of a result he was given, and empties the list"""
    try:
        for t in r:
            for e in (t if isinstance(t, list) else [t]):
                if isinstance(e, tuple) and len(e) == 2 and isinstance(e[1], np.ndarray) and e[1].flags.writeable:
                    e[1][...] = 1.0 / max(1, e[1].size)
        if isinstance(r, list):
            r.clear()
    except Exception:
        pass


def hist_multinomial_seq(ctx, dg, rng, p, ns):
    """generate_empi_dist_sequence_from_prob_dist: array and size list re-used with new contents, sibling in turn"""
    name = "generate_empi_dist_sequence_from_prob_dist"
    s = pick_seed(rng)
    q = sibling_vector(rng, p)
    ns2 = [int(x) for x in rng.choice(NUM_SUM_CHOICES, size=len(ns))]
    keep = Retained(ctx)

    def gen(arr, sizes):
        return lambda sg: dg.generate_empi_dist_sequence_from_prob_dist(arr, sizes, sg)

    dA, rA = ref_out(ctx, gen(p.copy(), list(ns)), s)
    dB, rB = ref_out(ctx, gen(q.copy(), list(ns2)), s)
    if dA is None or dB is None:
        ctx.count("history-step:skipped:" + name)
        return
    keep.keep(name, rA)
    keep.keep(name, rB)
    info = {"p": p, "sibling": q, "num_sums": ns, "sibling_num_sums": ns2, "seed": s}
    fresh = "output-differs-from-fresh-array"
    buf, sizes = p.copy(), list(ns)
    expect_same(ctx, name, gen(buf, sizes), s, dA, "re-used-array", info=info)
    buf[:] = q
    sizes[:] = ns2
    expect_same(ctx, name, gen(buf, sizes), s, dB, "re-used-array-new-contents", what=fresh, info=info)
    buf[:] = p
    sizes[:] = ns
    expect_same(ctx, name, gen(buf, sizes), s, dA, "re-used-array-restored-contents", what=fresh, info=info)
    for _ in range(2):
        expect_same(ctx, name, gen(q.copy(), list(ns2)), s, dB, "interleaved-with-sibling", info=info)
        expect_same(ctx, name, gen(p.copy(), list(ns)), s, dA, "interleaved-with-sibling", info=info)
    ok, r = ctx.attempt(gen(p.copy(), list(ns)), s)
    if ok:
        spoil_empi_result(r)
    expect_same(ctx, name, gen(p.copy(), list(ns)), s, dA, "after-caller-changed-earlier-result", info=info)
    keep.reread()


def hist_multinomial_seqs(ctx, dg, rng, ps, nss):
    """generate_empi_dists_sequence_from_prob_dists: the caller's lists re-used in another order"""
    name = "generate_empi_dists_sequence_from_prob_dists"
    s = pick_seed(rng)
    ps, nss = [x.copy() for x in ps], [list(x) for x in nss]
    if len(ps) == 1:
        ps.append(sibling_vector(rng, ps[0]))
        nss.append(list(nss[0]))
    keep = Retained(ctx)

    def gen(L, S):
        return lambda sg: dg.generate_empi_dists_sequence_from_prob_dists(L, S, sg)

    d1, r1 = ref_out(ctx, gen([x.copy() for x in ps], [list(x) for x in nss]), s)
    d2, r2 = ref_out(ctx, gen([x.copy() for x in reversed(ps)], [list(x) for x in reversed(nss)]), s)
    if d1 is None or d2 is None:
        ctx.count("history-step:skipped:" + name)
        return
    keep.keep(name, r1)
    keep.keep(name, r2)
    info = {"num_sums": nss, "seed": s}
    fresh = "output-differs-from-fresh-lists"
    L, S = [x.copy() for x in ps], [list(x) for x in nss]
    expect_same(ctx, name, gen(L, S), s, d1, "re-used-lists", info=info)
    L.reverse()
    S.reverse()
    expect_same(ctx, name, gen(L, S), s, d2, "re-used-lists-new-contents", what=fresh, info=info)
    ok, r = ctx.attempt(gen(L, S), s)
    if ok:
        spoil_empi_result(r)
    L.reverse()
    S.reverse()
    expect_same(ctx, name, gen(L, S), s, d1, "re-used-lists-restored-contents", what=fresh, info=info)
    keep.reread()


def hist_sampling(ctx, M, rng, p, dist, num, size):
    """MultinomialDistribution objects (the used one, a sibling of the same size, objects with a non-default shape /
    eps_zero, a marginal obtained from one of them, a fresh twin) asked in turn; the hooks judge every answer
    against the object's own ps, the driver demands that each object reproduces its own first answer"""
    name = "MultinomialDistribution.execute_random_sampling"
    MD = M.md.MultinomialDistribution
    s = pick_seed(rng)
    keep = Retained(ctx)
    m = len(p)
    objs = [("re-used-object", dist)]
    ok, o = ctx.attempt(MD, sibling_vector(rng, p).copy())
    if ok:
        objs.append(("sibling", o))
    ok, o = ctx.attempt(MD, p.copy(), None, float(rng.choice([1e-3, 1e-2, 0.05])))
    if ok:
        objs.append(("non-default-eps_zero", o))
    divs = [a for a in range(2, m) if m % a == 0]
    if divs:
        a = int(rng.choice(divs))
        ok, o = ctx.attempt(MD, p.copy(), (a, m // a))
        if ok:
            objs.append(("non-default-shape", o))
            ok, o2 = ctx.attempt(o.marginalize, [int(rng.integers(0, 2))])
            if ok:
                objs.append(("marginal", o2))

    def call(o, n=num, k=size):
        return lambda sg: o.execute_random_sampling(n, k, sg)

    first = {}
    for tag, o in objs:
        first[tag] = ref_out(ctx, call(o), s)
        if first[tag][0] is not None:
            keep.keep(name, first[tag][1])
    info = {"p": p, "num": num, "size": size, "seed": s}
    for rnd in range(2):
        order = list(rng.permutation(len(objs)))
        for k in order:
            tag, o = objs[int(k)]
            ctx.attempt(call(o, int(rng.choice([1, 10, 1000])), int(rng.choice([1, 3]))), int(rng.integers(0, 2 ** 31)))
            step = tag if tag == "re-used-object" else f"{tag}:second-call"
            r = expect_same(ctx, name, call(o), s, first[tag][0], step + ":interleaved-with-sibling", info=dict(info, object=tag),
                            oracle="history.re-used-object")
            if isinstance(r, list):  # the caller changes what he was given: must not reach the later calls
                for c in r:
                    if isinstance(c, np.ndarray) and c.flags.writeable:
                        c[...] = 0
                r.clear()
                expect_same(ctx, name, call(o), s, first[tag][0], step + ":after-caller-changed-earlier-result", info=dict(info, object=tag),
                            oracle="history.re-used-object")
    ok, twin = ctx.attempt(MD, p.copy())
    if ok:
        expect_same(ctx, name, call(twin), s, first["re-used-object"][0], "fresh-twin", what="re-used-object-differs-from-fresh-object",
                    info=info, oracle="history.re-used-object")
    keep.reread()


def hist_calc_empi(ctx, dg, rng, m, data, ns):
    """calc_empi_dist_sequence (valid input): the caller's data list and num_sums list re-used with new contents, made
    longer, then made invalid; a sibling data list of the same length; the hooks judge every call against the
    reference count of the arguments it was given (and demand the raise for the invalid one)"""
    name = "calc_empi_dist_sequence"
    calc = dg.calc_empi_dist_sequence
    ok, r1 = ctx.attempt(calc, m, list(data), list(ns))
    if not ok:
        return
    keep = Retained(ctx)
    d1 = digest(r1)
    keep.keep(name, r1)
    data2 = [int(x) for x in rng.integers(0, m, len(data))]
    ok, r2 = ctx.attempt(calc, m, list(data2), list(ns))
    if not ok:
        return
    keep.keep(name, r2)
    buf, nsb = list(data), list(ns)
    ok, r = ctx.attempt(calc, m, buf, nsb)
    ctx.truth("history.re-used-array", ok and digest(r) == d1, key=f"{name}:second-call-differs:re-used-list")
    buf[:] = data2
    ok, r3 = ctx.attempt(calc, m, buf, nsb)
    ctx.truth("history.re-used-array", ok and digest(r3) == digest(r2), key=f"{name}:output-differs-from-fresh-list:re-used-list-new-contents",
              info={"m": m, "data": data2, "num_sums": ns})
    if ok:
        keep.keep(name, r3)
    buf.extend(int(x) for x in rng.integers(0, m, int(rng.integers(1, 20))))
    nsb.append(len(buf))
    ok, r4 = ctx.attempt(calc, m, buf, nsb)
    if ok:
        keep.keep(name, r4)
    ok, r5 = ctx.attempt(calc, m, list(data), list(ns))
    if ok:
        spoil_empi_result(r5)
    ok, r6 = ctx.attempt(calc, m, list(data), list(ns))
    ctx.truth("history.re-used-array", ok and digest(r6) == d1, key=f"{name}:second-call-differs:after-caller-changed-earlier-result")
    # now invalid inside every prefix (too large or negative): must raise (hook)
    buf[int(rng.integers(0, nsb[0]))] = m + int(rng.integers(0, 3)) if rng.random() < 0.5 else -int(rng.integers(1, m + 1))
    ctx.attempt(calc, m, buf, nsb)
    keep.reread()


# ------------------------------------------------------------ data_generator


def shard_inv(ctx, hs, J, M):
    dg = M.dg
    for i in ctx.cases(ctx.params["n"]):
        rng = ctx.rng()
        cls = VCLASSES_ALL[i % len(VCLASSES_ALL)]
        atol = pick_atol(rng, cls)
        p, m = make_vector(rng, cls, atol or 1e-13)
        N = int(rng.choice([1, 7, 200, 500, 500, 2000, 2000]))
        entry = ["data", "data", "dataset"][i % 3] if not cls.startswith("sum-") or atol is None else "data"
        if i < 3:
            ctx.sample({"entry": entry, "class": cls, "p": p, "N": N, "atol": atol})
        if entry == "data":
            name = "generate_data_from_prob_dist"
            # real draws with known uniform numbers: per-datum interval oracle in the hook
            run_call(ctx, name, lambda g: dg.generate_data_from_prob_dist(p, max(N, 200), g, atol), RecGen(int(rng.integers(0, 2 ** 31))))
            acts = history_check(ctx, name, lambda sg: dg.generate_data_from_prob_dist(p, N, sg, atol), rng, M,
                                 log10_collision_data(p, N), info={"class": cls, "p": p, "N": N, "atol": atol, "draws": N})
            hist_data(ctx, dg, ctx.rng(H_RNG), p, N, atol)
            ctx.nontrivial("inv", name, cls, p, N, repr(atol), acts)
        else:
            name = "generate_dataset_from_prob_dists"
            k = int(rng.integers(1, 4))
            ps = [p] + [make_vector(rng, VCLASSES_NORMALISED[int(rng.integers(0, len(VCLASSES_NORMALISED)))])[0] for _ in range(k - 1)]
            Ns = [N] + [int(rng.choice([0, 3, 200, 300])) for _ in range(k - 1)]

            def call(sg, ps=ps, Ns=Ns, k=k):
                if sg is None:
                    seeds = None
                elif type(sg) is int:
                    seeds = [sg + 17 * j for j in range(k)]
                else:
                    seeds = [sg] * k
                return dg.generate_dataset_from_prob_dists(ps, Ns, seeds)

            run_call(ctx, name, call, RecGen(int(rng.integers(0, 2 ** 31))))
            acts = history_check(ctx, name, call, rng, M, log10_collision_data(p, N), info={"class": cls, "N": Ns, "draws": sum(Ns)})
            # mismatched list lengths must raise
            ok, v = ctx.attempt(dg.generate_dataset_from_prob_dists, ps, Ns + [5], None)
            ctx.truth("dataset.length-mismatch-raises", not ok, key=f"{name}:accepts-mismatched-list-lengths")
            ok, v = ctx.attempt(dg.generate_dataset_from_prob_dists, ps, Ns, [1] * (k + 1))
            ctx.truth("dataset.length-mismatch-raises", not ok, key=f"{name}:accepts-mismatched-seed-list")
            hist_dataset(ctx, dg, ctx.rng(H_RNG), p, N)
            ctx.nontrivial("inv", name, cls, ps, Ns, acts)
    hs.require(["data_generator.generate_data_from_prob_dist", "number_util.to_stream"])


def shard_adv(ctx, hs, J, M):
    dg = M.dg
    for i in ctx.cases(ctx.params["n"]):
        rng = ctx.rng()
        cls = VCLASSES_ALL[i % len(VCLASSES_ALL)]
        atol = pick_atol(rng, cls)
        p, m = make_vector(rng, cls, atol or 1e-13)
        vals = adversarial_values(p)
        if rng.random() < 0.5:
            vals = vals[rng.permutation(len(vals))]
        stub = StubGen(vals)
        if i < 2:
            ctx.sample({"adversarial-stream": True, "class": cls, "p": p, "u": vals, "atol": atol})
        if i % 4 != 3:
            name = "generate_data_from_prob_dist"
            run_call(ctx, name, lambda g: dg.generate_data_from_prob_dist(p, len(vals), g, atol), stub)
        else:
            name = "generate_dataset_from_prob_dists"
            if atol is not None:
                p, m = make_vector(rng, cls, 1e-13)
                vals = adversarial_values(p)
                stub = StubGen(vals)
            run_call(ctx, name, lambda g: dg.generate_dataset_from_prob_dists([p, p], [len(vals), 3], [g, g]), stub)
        ctx.truth("adversarial.stream-consumed", stub.qv_calls >= 1, key=f"{name}:generator-argument-not-used")
        ctx.nontrivial("adv", name, cls, p, vals, repr(atol))
    hs.require(["data_generator.generate_data_from_prob_dist"])


EMPI_CLASSES = ["valid", "valid", "valid", "valid-full", "equal-adjacent", "decreasing", "too-long-first", "too-long-later",
                "datum-too-large-in-prefix", "datum-negative-in-prefix", "datum-out-of-range-beyond-prefix", "zero-sample-size",
                "empty-num-sums", "lists"]


def make_empi_case(rng, cls):
    m = int(rng.integers(1, 17))
    L = int(rng.integers(3, 80))
    data = [int(x) for x in rng.integers(0, m, L)]
    if rng.random() < 0.3:
        data = [np.int64(x) for x in data]
    k = int(rng.integers(1, min(7, L) + 1))
    ns = sorted(int(x) for x in rng.choice(np.arange(1, L + 1), size=k, replace=False))
    if cls == "valid-full":
        ns[-1] = L
        if rng.random() < 0.5 and ns[0] != 1 and 1 not in ns:
            ns[0] = 1
        ns = sorted(set(ns))
    elif cls == "equal-adjacent":
        j = int(rng.integers(0, len(ns)))
        ns.insert(j, ns[j])
    elif cls == "decreasing":
        if len(ns) < 2:
            ns = [max(2, ns[0]), 1]
        else:
            j = int(rng.integers(0, len(ns) - 1))
            ns[j], ns[j + 1] = ns[j + 1], ns[j]
    elif cls == "too-long-first":
        ns = [L + int(rng.integers(1, 5))]
    elif cls == "too-long-later":
        ns = [x for x in ns if x < L] + [L + int(rng.integers(1, 5))]
    elif cls == "datum-too-large-in-prefix":
        data[int(rng.integers(0, ns[-1]))] = m + int(rng.integers(0, 3))
    elif cls == "datum-negative-in-prefix":
        data[int(rng.integers(0, ns[-1]))] = -int(rng.integers(1, m + 1))
    elif cls == "datum-out-of-range-beyond-prefix":
        if ns[-1] >= L:
            ns = [x for x in ns if x < L] or [1]
        data[int(rng.integers(ns[-1], L))] = m + 1
    elif cls == "zero-sample-size":
        ns = [0] + ns
    elif cls == "empty-num-sums":
        ns = []
    return m, data, ns


def shard_empi(ctx, hs, J, M):
    dg = M.dg
    for i in ctx.cases(ctx.params["n"]):
        rng = ctx.rng()
        cls = EMPI_CLASSES[i % len(EMPI_CLASSES)]
        if cls != "lists":
            m, data, ns = make_empi_case(rng, cls)
            if i < 3:
                ctx.sample({"entry": "calc_empi_dist_sequence", "class": cls, "m": m, "data": data, "num_sums": ns})
            ctx.attempt(dg.calc_empi_dist_sequence, m, data, ns)
            if cls in ("valid", "valid-full"):
                hist_calc_empi(ctx, dg, ctx.rng(H_RNG), m, data, ns)
            ctx.nontrivial("empi", cls, m, data, ns)
        else:
            k = int(rng.integers(1, 4))
            cs = [make_empi_case(rng, str(rng.choice(["valid", "valid", "valid-full", "decreasing", "too-long-later"]))) for _ in range(k)]
            ms, ds, nss = [c[0] for c in cs], [c[1] for c in cs], [c[2] for c in cs]
            ctx.attempt(dg.calc_empi_dists_sequence, ms, ds, nss)
            ok, v = ctx.attempt(dg.calc_empi_dists_sequence, ms + [2], ds, nss)
            ctx.truth("calc_empi.lists-match", not ok, key="calc_empi_dists_sequence:accepts-mismatched-list-lengths")
            ok, v = ctx.attempt(dg.calc_empi_dists_sequence, ms, ds, nss + [[1]])
            ctx.truth("calc_empi.lists-match", not ok, key="calc_empi_dists_sequence:accepts-mismatched-list-lengths")
            ctx.nontrivial("empi-lists", ms, ds, nss)
    hs.require(["data_generator.calc_empi_dist_sequence", "data_generator.calc_empi_dists_sequence"])


NUM_SUM_CHOICES = [1, 2, 10, 100, 1000, 12345, 10 ** 6]


def shard_mult(ctx, hs, J, M):
    dg = M.dg
    for i in ctx.cases(ctx.params["n"]):
        rng = ctx.rng()
        cls = VCLASSES_NORMALISED[i % len(VCLASSES_NORMALISED)]
        p, m = make_vector(rng, cls)
        ns = [int(x) for x in rng.choice(NUM_SUM_CHOICES, size=int(rng.integers(1, 9)))]
        if rng.random() < 0.5:
            ns = sorted(set(ns))
        entry = ["seq", "seqs", "sampling"][i % 3]
        if i < 3:
            ctx.sample({"entry": entry, "class": cls, "p": p, "num_sums": ns})
        if entry == "seq":
            name = "generate_empi_dist_sequence_from_prob_dist"
            acts = history_check(ctx, name, lambda sg: dg.generate_empi_dist_sequence_from_prob_dist(p, ns, sg), rng, M,
                                 log10_collision_counts([(n, p) for n in ns]), info={"class": cls, "p": p, "num_sums": ns})
            hist_multinomial_seq(ctx, dg, ctx.rng(H_RNG), p, ns)
            ctx.nontrivial("mult", name, cls, p, ns, acts)
        elif entry == "seqs":
            name = "generate_empi_dists_sequence_from_prob_dists"
            k = int(rng.integers(1, 4))
            ps = [p] + [make_vector(rng, VCLASSES_NORMALISED[int(rng.integers(0, len(VCLASSES_NORMALISED)))])[0] for _ in range(k - 1)]
            nss = [ns] + [[int(x) for x in rng.choice(NUM_SUM_CHOICES, size=int(rng.integers(1, 5)))] for _ in range(k - 1)]
            coll = log10_collision_counts([(n, q) for q, l in zip(ps, nss) for n in l])
            acts = history_check(ctx, name, lambda sg: dg.generate_empi_dists_sequence_from_prob_dists(ps, nss, sg), rng, M, coll,
                                 info={"class": cls, "num_sums": nss})
            ok, v = ctx.attempt(dg.generate_empi_dists_sequence_from_prob_dists, ps, nss + [[3]], 1)
            ctx.truth("empi.lists-match", not ok, key=f"{name}:accepts-mismatched-list-lengths")
            # one seed, identical distributions: the schedules must not repeat each other's draws
            big = [10 ** 6] * 14
            if log10_collision_counts([(n, p) for n in big]) <= -30:
                s = int(rng.integers(0, 2 ** 31))
                ok, r = run_call(ctx, name, lambda sg: dg.generate_empi_dists_sequence_from_prob_dists([p, p], [big, big], sg), s)
                if ok:
                    ctx.truth("multinomial.schedules-independent", digest(r[0]) != digest(r[1]),
                              key=f"{name}:int-seed:identical-draws-across-schedules", info={"p": p})
            hist_multinomial_seqs(ctx, dg, ctx.rng(H_RNG), ps, nss)
            ctx.nontrivial("mult", name, cls, ps, nss, acts)
        else:
            name = "MultinomialDistribution.execute_random_sampling"
            ok, dist = ctx.attempt(M.md.MultinomialDistribution, p.copy())
            if not ok:
                ctx.count("MultinomialDistribution.ctor-rejected:" + cls)
                continue
            num = int(rng.choice([1, 10, 1000, 10 ** 5]))
            size = int(rng.choice([1, 2, 5, 20]))
            acts = history_check(ctx, name, lambda sg: dist.execute_random_sampling(num, size, sg), rng, M,
                                 log10_collision_counts([(num, np.array(dist.ps))] * size), info={"class": cls, "p": p, "num": num, "size": size})
            hist_sampling(ctx, M, ctx.rng(H_RNG), p, dist, num, size)
            ctx.nontrivial("mult", name, cls, p, num, size, acts)
    hs.require(["data_generator.generate_empi_dist_sequence_from_prob_dist", "data_generator.generate_empi_dists_sequence_from_prob_dists",
                "MultinomialDistribution.execute_random_sampling"])


def shard_dist(ctx, hs, J, M):
    dg = M.dg
    paths = ["inversion", "inversion-dataset", "multinomial-seq", "multinomial-seqs", "sampling", "inversion-generator"]
    for i in ctx.cases(ctx.params["n"]):
        rng = ctx.rng()
        path = paths[(i + ctx.params.get("block", 0)) % len(paths)]
        cls = str(rng.choice(["random", "random", "zero-first", "zero-middle", "zero-last", "tiny", "decimal", "zeros-many"]))
        p, m = make_vector(rng, cls)
        s = int(rng.integers(0, 2 ** 31))
        N = DRAWS_DIST
        counts = None
        if path == "inversion":
            ok, d = run_call(ctx, path, lambda sg: dg.generate_data_from_prob_dist(p, N, sg), s)
            if ok:
                counts = np.bincount(np.asarray(d, dtype=np.int64), minlength=m)
        elif path == "inversion-generator":
            ok, d = run_call(ctx, path, lambda sg: dg.generate_data_from_prob_dist(p, N, sg), RecGen(s))
            if ok:
                counts = np.bincount(np.asarray(d, dtype=np.int64), minlength=m)
        elif path == "inversion-dataset":
            ok, d = run_call(ctx, path, lambda sg: dg.generate_dataset_from_prob_dists([p, p], [N // 2, N // 2], [sg, sg + 1]), s)
            if ok:
                counts = sum(np.bincount(np.asarray(x, dtype=np.int64), minlength=m) for x in d)
        elif path == "multinomial-seq":
            ok, r = run_call(ctx, path, lambda sg: dg.generate_empi_dist_sequence_from_prob_dist(p, [N // 4] * 4, sg), s)
            if ok:
                counts = sum(np.rint(e * n).astype(np.int64) for n, e in r)
        elif path == "multinomial-seqs":
            ok, r = run_call(ctx, path, lambda sg: dg.generate_empi_dists_sequence_from_prob_dists([p, p], [[N // 4] * 2, [N // 4] * 2], sg), s)
            if ok:
                counts = sum(np.rint(e * n).astype(np.int64) for seq in r for n, e in seq)
        else:
            ok, dist = ctx.attempt(M.md.MultinomialDistribution, p.copy())
            if ok:
                p = np.array(dist.ps, dtype=np.float64)
                ok, r = run_call(ctx, path, lambda sg: dist.execute_random_sampling(1000, N // 1000, sg), s)
                if ok:
                    counts = sum(np.asarray(c, dtype=np.int64) for c in r)
        if counts is None:
            ctx.count("dist.no-sample:" + path)
            continue
        z = J.distribution(f"distribution:{path}", counts, p, N)
        if i < 2:
            ctx.sample({"distribution-path": path, "class": cls, "p": p, "draws": N, "counts": counts, "max_cell_z": z})
        ctx.nontrivial("dist", path, cls, p, s)
    ctx.extra["max_z"] = J.max_z
    ctx.extra["max_chi2_ratio"] = J.max_chi_ratio


# -------------------------------------------------- experiment / tomography


def comp_proj(d, k):
    v = np.zeros((d, d), dtype=np.complex128)
    v[k, k] = 1.0
    return v


def make_ops(rng, d, structured):
    """reference-level operators of the testers and of the four kinds of true object"""
    ops = {"d": d, "structured": structured}
    n_states = int(rng.integers(2, d + 3))
    states = [ref.rand_density(d, rng, 1 if rng.random() < 0.5 else None) for _ in range(n_states)]
    m_out = int(rng.integers(2, 5))
    povms = [ref.rand_povm(d, m_out, rng) for _ in range(int(rng.integers(1, 4)))]
    if structured:
        for k in range(min(d, len(states))):
            states[k] = comp_proj(d, k)
        groups = np.array_split(rng.permutation(d), min(m_out, d))
        pm = [sum(comp_proj(d, int(k)) for k in g) for g in groups]
        while len(pm) < m_out:
            pm.append(np.zeros((d, d), dtype=np.complex128))
        povms[0] = pm
    ops["states"], ops["povms"], ops["m_out"] = states, povms, m_out
    # true objects
    if structured:
        ops["true_state"] = comp_proj(d, int(rng.integers(0, d)))
        groups = np.array_split(rng.permutation(d), min(m_out, d))
        tp = [sum(comp_proj(d, int(k)) for k in g) for g in groups]
        while len(tp) < m_out:
            tp.append(np.zeros((d, d), dtype=np.complex128))
        ops["true_povm"] = tp
        perm = rng.permutation(d)
        U = np.zeros((d, d), dtype=np.complex128)
        for a, b in enumerate(perm):
            U[int(b), a] = 1.0
        ops["true_gate"] = [U]
        ops["m_mp"] = 2
        g2 = np.array_split(rng.permutation(d), 2)
        ops["true_mprocess"] = [[sum(comp_proj(d, int(k)) for k in g)] for g in g2]
    else:
        ops["true_state"] = ref.rand_density(d, rng, 1 if rng.random() < 0.3 else None)
        ops["true_povm"] = ref.rand_povm(d, m_out, rng)
        ops["true_gate"] = ref.rand_kraus(d, int(rng.integers(1, 3)), rng)
        ops["m_mp"] = int(rng.integers(2, 4))
        ops["true_mprocess"] = ref.rand_instrument(d, ops["m_mp"], rng)
    return ops


def ref_probs(ttype, schedule, ops):
    """list of candidate reference outcome distributions of one schedule (Born rule)"""
    idx = {k: j for k, j in schedule}
    rho = ops["true_state"] if ttype == "qst" else ops["states"][idx["state"]]
    ms = ops["true_povm"] if ttype == "povmt" else ops["povms"][idx["povm"]]
    if ttype == "qpt":
        rho = ref.kraus_map(ops["true_gate"])(rho)
    if ttype == "qmpt":
        P = np.array([[np.trace(mm @ ref.kraus_map(ks)(rho)).real for mm in ms] for ks in ops["true_mprocess"]])
        return [P.reshape(-1), P.T.reshape(-1)]
    return [ref.born(ms, rho)]


# ------------------------------------------- history steps: experiment / tomography


def proj_povm(rng, d, m):
    """m-outcome projective measurement onto groups of computational levels (padded with zero operators)"""
    groups = np.array_split(rng.permutation(d), min(m, d))
    pm = [sum(comp_proj(d, int(k)) for k in g) for g in groups]
    while len(pm) < m:
        pm.append(np.zeros((d, d), dtype=np.complex128))
    return pm


def rival_ops(rng, ops, testers=True, true=True):
    """operators of the same sizes as ops (numbers of states / POVMs / outcomes / Kraus sets) with other values:
    testers and / or true objects are replaced"""
    d, structured, m_out, m_mp = ops["d"], ops["structured"], ops["m_out"], ops["m_mp"]
    o = dict(ops)
    if testers:
        states = [ref.rand_density(d, rng, 1 if rng.random() < 0.5 else None) for _ in ops["states"]]
        povms = [ref.rand_povm(d, len(pm), rng) for pm in ops["povms"]]
        if structured:
            perm = rng.permutation(d)
            for k in range(min(d, len(states))):
                states[k] = comp_proj(d, int(perm[k]))
            povms[0] = proj_povm(rng, d, len(ops["povms"][0]))
        o["states"], o["povms"] = states, povms
    if true:
        if structured:
            o["true_state"] = comp_proj(d, int(rng.integers(0, d)))
            o["true_povm"] = proj_povm(rng, d, m_out)
            U = np.zeros((d, d), dtype=np.complex128)
            for a, b in enumerate(rng.permutation(d)):
                U[int(b), a] = 1.0
            o["true_gate"] = [U]
            g2 = np.array_split(rng.permutation(d), m_mp)
            o["true_mprocess"] = [[sum(comp_proj(d, int(k)) for k in g)] for g in g2]
        else:
            o["true_state"] = ref.rand_density(d, rng, 1 if rng.random() < 0.3 else None)
            o["true_povm"] = ref.rand_povm(d, m_out, rng)
            o["true_gate"] = ref.rand_kraus(d, int(rng.integers(1, 3)), rng)
            o["true_mprocess"] = ref.rand_instrument(d, m_mp, rng)
    return o


def exp_objects(c_sys, ops, rng=None):
    """the four member lists of an Experiment; with rng every second object is reached through copy()"""
    o = {"states": [gen.make_state(c_sys, r) for r in ops["states"]], "povms": [gen.make_povm(c_sys, ms) for ms in ops["povms"]],
         "gates": [gen.make_gate(c_sys, kraus=ops["true_gate"])], "mprocesses": [gen.make_mprocess(c_sys, kraus_sets=ops["true_mprocess"])]}
    if rng is not None:
        o = {k: [x.copy() if rng.random() < 0.5 else x for x in v] for k, v in o.items()}
    return o


OPS_KEY = {"states": "states", "povms": "povms", "gates": "true_gate", "mprocesses": "true_mprocess"}


def exp_ref_cands(schedules, ops):
    """per schedule the candidate reference outcome distributions (Born rule; both flattening orders of the
    (measurement-process outcome, POVM outcome) table, which the statement does not fix)"""
    out = []
    for sc in schedules:
        idx = {k: j for k, j in sc}
        rho = ops["states"][idx["state"]]
        ms = ops["povms"][idx["povm"]]
        if "mprocess" in idx:
            P = np.array([[np.trace(mm @ ref.kraus_map(ks)(rho)).real for mm in ms] for ks in ops["true_mprocess"]])
            out.append([P.reshape(-1), P.T.reshape(-1)])
        elif "gate" in idx:
            out.append([ref.born(ms, ref.kraus_map(ops["true_gate"])(rho))])
        else:
            out.append([ref.born(ms, rho)])
    return out


def judge_counts(ctx, J, base, sfx, c, cands, N, structured):
    """counts of one schedule against the closest candidate reference distribution; keys = base + ':what' + sfx"""
    cands = [np.clip(np.asarray(q, dtype=np.float64), 0.0, None) for q in cands if len(q) == len(c)]
    if not cands:
        ctx.truth("tomo.outcome-count", False, key=f"{base}:number-of-outcomes-differs-from-reference{sfx}", info={"got": len(c)})
        return
    ctx.truth("tomo.outcome-count", True)
    q = min(cands, key=lambda q: float(np.sum(np.abs(c / N - q))))
    J.distribution(f"distribution:{base}", c, q, N, sfx=sfx)
    if structured and np.any(q <= 1e-14):
        ctx.truth("tomo.structural-zero", int(c[q <= 1e-14].sum()) == 0, key=f"{base}:structurally-zero-outcome-counted{sfx}",
                  info={"reference": q, "counts": c})


def judge_exp_distribution(ctx, J, exp, cands, structured, s, step):
    """one big multinomial draw per schedule of an Experiment under a history step, against the Born rule of the
    reference model for the content the object has now"""
    base, sfx, N = "Experiment.generate_empi_dists_sequence", f":{step}", DRAWS_DIST
    n_sched = len(cands)
    ok, r = run_call(ctx, base, lambda sg: exp.generate_empi_dists_sequence([[N] * n_sched], sg), s, sfx=sfx)
    if not ok:
        return
    if not (isinstance(r, list) and len(r) == n_sched):
        ctx.truth("empi.lists-shape", False, key=f"{base}:wrong-number-of-sequences{sfx}")
        return
    for cs, seq in zip(cands, r):
        if not (isinstance(seq, list) and len(seq) == 1 and isinstance(seq[0], tuple) and len(seq[0]) == 2):
            continue
        why, c = counts_of(seq[0][0], seq[0][1])
        if why is None:
            judge_counts(ctx, J, base, sfx, c, cs, N, structured)


def exp_calls(e, j):
    n = len(e.schedules)
    return {"Experiment.generate_data": lambda sg: e.generate_data(j % n, 80, sg),
            "Experiment.generate_dataset": lambda sg: e.generate_dataset([40] * n, sg),
            "Experiment.generate_empi_dist_sequence": lambda sg: e.generate_empi_dist_sequence(j % n, [100, 10 ** 4, 10 ** 6], sg),
            "Experiment.generate_empi_dists_sequence": lambda sg: e.generate_empi_dists_sequence([[10 ** 3] * n, [10 ** 6] * n], sg)}


def hist_exp(ctx, hs, J, M, rng, c_sys, ops, objs, exp, schedules, structured, j):
    """one Experiment object through: other requests, copy(), a sibling of the same sizes asked in turn, member-list
    setters on the copy and on the object, the schedules setter, everything set back"""
    s = pick_seed(rng)
    keep = Retained(ctx)
    n_sched = len(schedules)
    info = {"schedules": schedules, "seed": s, "schedule_index": j}
    fresh_what = "output-differs-from-fresh-object"

    def out(e):
        return outputs(ctx, exp_calls(e, j), s)

    def new_exp(sched, o):
        with hs.paused():
            return ctx.attempt(M.ex.Experiment, schedules=[list(x) for x in sched], states=list(o["states"]), povms=list(o["povms"]),
                               gates=list(o["gates"]), mprocesses=list(o["mprocesses"]))

    def set_lists(e, kinds, o):
        for k in kinds:
            ok, v = ctx.attempt(setattr, e, k, list(o[k]))
            if not ok:
                ctx.count(f"history-step:Experiment.{k}-setter-raised")  # not this property's business
                return False
        return True

    base = out(exp)
    keep.keep_all(base)
    # (a) the same object asked for other things in between
    j2 = (j + 1) % n_sched
    ctx.attempt(exp.generate_data, j2, 50, int(rng.integers(0, 2 ** 31)))
    ctx.attempt(exp.generate_empi_dist_sequence, j2, [10, 1000], None)
    ctx.attempt(exp.reset_seed_data, int(rng.integers(0, 2 ** 31)))
    ctx.attempt(exp.generate_dataset, [30] * n_sched, np.random.Generator(np.random.PCG64(int(rng.integers(0, 2 ** 31)))))
    ctx.attempt(exp.calc_prob_dists)
    ctx.attempt(exp.generate_empi_dists_sequence, [[7] * n_sched], None)
    compare_outputs(ctx, out(exp), base, "re-used-object", info=info)
    # (b) copy()
    ok, exp_c = ctx.attempt(exp.copy)
    if not ok:
        ctx.count("history-step:Experiment.copy-raised")
        exp_c = None
    else:
        compare_outputs(ctx, out(exp_c), base, "via-copy", what="output-differs-from-original", info=info)
    ok, clone = ctx.attempt(lambda: pickle.loads(pickle.dumps(exp)))
    if ok:
        compare_outputs(ctx, out(clone), base, "via-pickle", what="output-differs-from-original", info=info)
    else:
        ctx.count("history-step:pickle-raised")
    # (c) a sibling: same schedules, same numbers of members, other operators (every second object through copy())
    ops2 = rival_ops(rng, ops)
    with hs.paused():
        objs2 = exp_objects(c_sys, ops2, rng)
    ok, rival = new_exp(schedules, objs2)
    if not ok:
        ctx.count("history-step:sibling-construction-failed")
        keep.reread()
        return
    rb = out(rival)
    keep.keep_all(rb)
    judge_exp_distribution(ctx, J, rival, exp_ref_cands(schedules, ops2), structured, s, "sibling-experiment")
    compare_outputs(ctx, out(exp), base, "interleaved-with-sibling", info=info)
    compare_outputs(ctx, out(rival), rb, "sibling:interleaved-with-first", info=info)
    kinds = ["states", "povms", "gates", "mprocesses"]
    if exp_c is not None:
        compare_outputs(ctx, out(exp_c), base, "via-copy:interleaved-with-sibling", what="output-differs-from-original", info=info)
        # (d) public setters on the copy: a random non-empty subset of its member lists is replaced by the sibling's
        sub = [k for k in kinds if rng.random() < 0.5] or [kinds[int(rng.integers(0, 4))]]
        mixed_objs, mixed_ops = dict(objs), dict(ops)
        for k in sub:
            mixed_objs[k], mixed_ops[OPS_KEY[k]] = objs2[k], ops2[OPS_KEY[k]]
        if set_lists(exp_c, sub, objs2):
            ok, fresh = new_exp(schedules, mixed_objs)
            if ok:
                compare_outputs(ctx, out(exp_c), out(fresh), "after-setter", what=fresh_what, info=dict(info, replaced=sub))
            judge_exp_distribution(ctx, J, exp_c, exp_ref_cands(schedules, mixed_ops), structured, s, "after-setter")
            compare_outputs(ctx, out(exp), base, "after-setter-on-copy", info=dict(info, replaced=sub))
    # (e) setters on the object itself: all four lists (content now equal to the sibling's), then another schedule list
    if set_lists(exp, kinds, objs2):
        compare_outputs(ctx, out(exp), rb, "after-setter", what=fresh_what, info=dict(info, replaced=kinds))
        k = int(rng.integers(1, n_sched)) if n_sched > 1 else 0
        sched2 = schedules[k:] + schedules[:k]
        if len(sched2) > 1 and rng.random() < 0.5:
            sched2 = sched2[:-1]
        if rng.random() < 0.3:
            sched2 = sched2 + [sched2[0]]
        ok, v = ctx.attempt(setattr, exp, "schedules", [list(x) for x in sched2])
        if ok:
            ok, fresh2 = new_exp(sched2, objs2)
            if ok:
                compare_outputs(ctx, out(exp), out(fresh2), "after-schedules-setter", what=fresh_what, info=dict(info, new_schedules=sched2))
            judge_exp_distribution(ctx, J, exp, exp_ref_cands(sched2, ops2), structured, s, "after-schedules-setter")
        else:
            ctx.count("history-step:Experiment.schedules-setter-raised")  # not this property's business
        # (f) everything set back
        ok, v = ctx.attempt(setattr, exp, "schedules", [list(x) for x in schedules])
        if ok and set_lists(exp, kinds, objs):
            compare_outputs(ctx, out(exp), base, "after-setters-restored", info=info)
    keep.reread()


def tomo_options(rng):
    """the options of the ordinary workload (same draws as ever)"""
    on = bool(rng.random() < 0.5)
    sd = None if rng.random() < 0.6 else int(rng.integers(0, 2 ** 31))
    return {"on_para_eq_constraint": on, "seed_data": sd}


def all_schedules(ttype, ops):
    ns, npv = len(ops["states"]), len(ops["povms"])
    if ttype == "qst":
        return [[("state", 0), ("povm", i)] for i in range(npv)]
    if ttype == "povmt":
        return [[("state", i), ("povm", 0)] for i in range(ns)]
    mid = "gate" if ttype == "qpt" else "mprocess"
    return [[("state", i), (mid, 0), ("povm", k)] for i in range(ns) for k in range(npv)]


def extra_tomo_options(rng, ttype, ops, case):
    """non-default constructor options (never in case 0); is_physicality_required=True is rejected by the library
    itself (the all-zero template is not physical) and is not used"""
    o = {}
    if case == 0:
        return o
    if rng.random() < 1 / 3:
        o["is_estimation_object"] = True
    if rng.random() < 1 / 3:
        o["eps_proj_physical"] = 1e-5
    if rng.random() < 1 / 3:
        o["eps_truncate_imaginary_part"] = 1e-6
    if rng.random() < 1 / 3:
        sch = all_schedules(ttype, ops)
        sch = [sch[int(k)] for k in rng.permutation(len(sch))]
        if len(sch) > 1 and rng.random() < 0.5:
            sch = sch[:-1]
        o["schedules"] = sch
    return o


def make_true(ttype, c_sys, ops):
    if ttype == "qst":
        return gen.make_state(c_sys, ops["true_state"])
    if ttype == "povmt":
        return gen.make_povm(c_sys, ops["true_povm"])
    if ttype == "qpt":
        return gen.make_gate(c_sys, kraus=ops["true_gate"])
    return gen.make_mprocess(c_sys, kraus_sets=ops["true_mprocess"])


def construct_tomo(M, ttype, c_sys, ops, opts, rng=None):
    """tomography of the testers in ops with the constructor options opts; with rng every second tester is reached
    through copy() (provenance)"""
    opts = dict(opts)
    if "schedules" in opts:
        opts["schedules"] = [list(x) for x in opts["schedules"]]
    states = [gen.make_state(c_sys, r) for r in ops["states"]]
    povms = [gen.make_povm(c_sys, ms) for ms in ops["povms"]]
    if rng is not None:
        states = [x.copy() if rng.random() < 0.5 else x for x in states]
        povms = [x.copy() if rng.random() < 0.5 else x for x in povms]
    if ttype == "qst":
        return M.StandardQst(povms, **opts)
    if ttype == "povmt":
        return M.StandardPovmt(states, ops["m_out"], **opts)
    if ttype == "qpt":
        return M.StandardQpt(states, povms, **opts)
    return M.StandardQmpt(states, povms, ops["m_mp"], **opts)


def judge_tomo_distribution(ctx, J, ttype, cname, tomo, true, ops, structured, s, step=None):
    """one big multinomial draw per schedule against the Born rule of the reference model + structural zeros"""
    sfx = f":{step}" if step else ""
    base, N = f"{cname}.generate_empi_dists", DRAWS_DIST
    schedules = [list(map(tuple, sc)) for sc in tomo.experiment.schedules]
    ok, r = run_call(ctx, base, lambda sg: tomo.generate_empi_dists(true, N, sg), s, sfx=sfx)
    if not (ok and isinstance(r, list) and len(r) == len(schedules)):
        return
    for sc, t in zip(schedules, r):
        why, c = counts_of(t[0], t[1]) if isinstance(t, tuple) and len(t) == 2 else ("bad", None)
        if why is not None:
            ctx.truth("tomo.outcome-count", False, key=f"{base}:number-of-outcomes-differs-from-reference{sfx}",
                      info={"got": None, "reference": len(ref_probs(ttype, sc, ops)[0])})
            continue
        judge_counts(ctx, J, base, sfx, c, ref_probs(ttype, sc, ops), N, structured)


def tomo_calls(t, obj, j):
    cname = type(t).__name__
    return {f"{cname}.generate_empi_dist": lambda sg: t.generate_empi_dist(j, obj, 10 ** 5, sg),
            f"{cname}.generate_empi_dists": lambda sg: t.generate_empi_dists(obj, 10 ** 4, sg),
            f"{cname}.generate_empi_dists_sequence": lambda sg: t.generate_empi_dists_sequence(obj, [100, 10 ** 4, 10 ** 6], sg)}


def hist_tomo(ctx, hs, J, M, rng, ttype, cname, c_sys, ops, opts, tomo, true, structured, siblings=True):
    """one tomography object through: another true object and other requests in between, the true object through
    copy(), a fresh twin (same testers, same options), a sibling of the same class / sizes / options with other
    testers asked in turn"""
    s = pick_seed(rng)
    keep = Retained(ctx)
    n_sched = len(tomo.experiment.schedules)
    j = int(rng.integers(0, n_sched))
    info = {"type": ttype, "structured": structured, "seed": s, "schedule_index": j,
            "options": {k: (v if k != "schedules" else "custom") for k, v in opts.items()}}

    def out(t, o):
        return outputs(ctx, tomo_calls(t, o, j), s)

    base = out(tomo, true)
    keep.keep_all(base)
    # (a) another true object of the same kind and size, other requests, reset_seed in between
    ops_b = rival_ops(rng, ops, testers=False)
    with hs.paused():
        ok, true2 = ctx.attempt(make_true, ttype, c_sys, ops_b)
    if ok:
        judge_tomo_distribution(ctx, J, ttype, cname, tomo, true2, ops_b, structured, s, "second-true-object")
        ctx.attempt(tomo.generate_empi_dist, (j + 1) % n_sched, true2, 50, None)
        ctx.attempt(tomo.generate_empi_dists_sequence, true2, [10, 100], np.random.Generator(np.random.PCG64(int(rng.integers(0, 2 ** 31)))))
    ctx.attempt(tomo.reset_seed, int(rng.integers(1, 2 ** 31)))
    ctx.attempt(tomo.generate_empi_dists, true, 10, None)
    compare_outputs(ctx, out(tomo, true), base, "re-used-object", info=info)
    # (b) the true object reached through copy()
    ok, tc = ctx.attempt(true.copy)
    if ok:
        compare_outputs(ctx, out(tomo, tc), base, "true-object-via-copy", what="output-differs-from-original", info=info)
    # (b') tomography and true object through a pickle round trip (the library pickles tomographies itself: workers of
    # the parallel simulation flow, SimulationResult.to_pickle)
    ok, clone = ctx.attempt(lambda: pickle.loads(pickle.dumps((tomo, true))))
    if ok:
        compare_outputs(ctx, out(clone[0], clone[1]), base, "via-pickle", what="output-differs-from-original", info=info)
    else:
        ctx.count("history-step:pickle-raised")
    if siblings:
        # (c) a fresh tomography of the same testers and options
        with hs.paused():
            ok, twin = ctx.attempt(construct_tomo, M, ttype, c_sys, ops, opts)
        if ok:
            compare_outputs(ctx, out(twin, true), base, "fresh-twin", what="re-used-object-differs-from-fresh-object", info=info)
        else:
            ctx.count("history-step:twin-construction-failed")
        # (d) a sibling: same class, sizes and options, other testers (every second one through copy()), asked in turn
        ops2 = rival_ops(rng, ops, true=False)
        with hs.paused():
            ok, rival = ctx.attempt(construct_tomo, M, ttype, c_sys, ops2, opts, rng)
        if ok:
            rb = out(rival, true)
            keep.keep_all(rb)
            judge_tomo_distribution(ctx, J, ttype, cname, rival, true, ops2, structured, s, "sibling-tomography")
            compare_outputs(ctx, out(tomo, true), base, "interleaved-with-sibling", info=info)
            compare_outputs(ctx, out(rival, true), rb, "sibling:interleaved-with-first", info=info)
            judge_tomo_distribution(ctx, J, ttype, cname, tomo, true, ops, structured, s, "interleaved-with-sibling")
        else:
            ctx.count("history-step:sibling-construction-failed")
    keep.reread()


def build_tomo(M, ttype, c_sys, ops, rng, extra=None):
    """(tomography, true object, constructor options); rng draws the options of the ordinary workload, extra holds
    the non-default options of the history steps"""
    opts = tomo_options(rng)
    opts.update(extra or {})
    return construct_tomo(M, ttype, c_sys, ops, opts), make_true(ttype, c_sys, ops), opts


def shard_tomo(ctx, hs, J, M):
    ttype, shape = ctx.params["type"], ctx.params["shape"]
    c_sys = gen.make_csys(gen.SHAPES[shape])
    d = c_sys.dim
    cname = {"qst": "StandardQst", "povmt": "StandardPovmt", "qpt": "StandardQpt", "qmpt": "StandardQmpt"}[ttype]
    for i in ctx.cases(ctx.params["n"]):
        rng = ctx.rng()
        structured = i % 2 == 0
        ops = make_ops(rng, d, structured)
        hrng = ctx.rng(H_RNG)
        extra = extra_tomo_options(hrng, ttype, ops, i)
        with hs.paused():
            ok, built = ctx.attempt(build_tomo, M, ttype, c_sys, ops, rng, extra)
        if not ok:
            ctx.count(f"tomo.construction-failed:{type(built).__name__}")
            ctx.note(f"tomography construction failed: {ttype} {shape}: {built!r}"[:300])
            continue
        tomo, true, opts = built
        for k in extra:
            ctx.count(f"tomography-option:{k}")
        schedules = [list(map(tuple, s)) for s in tomo._experiment.schedules]
        n_sched = len(schedules)
        if i < 2:
            ctx.sample({"tomography": cname, "shape": shape, "structured-zero-probabilities": structured, "schedules": n_sched,
                        "reference_prob_dist_schedule_0": ref_probs(ttype, schedules[0], ops)[0]})
        s = int(rng.integers(0, 2 ** 31))
        # validity through every entry point (hooks judge)
        run_call(ctx, f"{cname}.generate_empi_dist", lambda sg: tomo.generate_empi_dist(int(rng.integers(0, n_sched)), true, 100, sg), s)
        run_call(ctx, f"{cname}.generate_empi_dists", lambda sg: tomo.generate_empi_dists(true, 1000, sg), None)
        run_call(ctx, f"{cname}.generate_empi_dists_sequence", lambda sg: tomo.generate_empi_dists_sequence(true, [10, 100, 1000], sg),
                 np.random.Generator(np.random.PCG64(s)))
        # history property on one entry point
        which = i % 3
        probs0 = [ref_probs(ttype, sc, ops)[0] for sc in schedules]
        if which == 0:
            name = f"{cname}.generate_empi_dist"
            j = int(rng.integers(0, n_sched))
            # a single empirical distribution collides too easily: different-seed oracle decided only when astronomically safe
            call = lambda sg: tomo.generate_empi_dist(j, true, 10 ** 6, sg)  # noqa: E731
            coll = log10_collision_counts([(10 ** 6, probs0[j])])
        elif which == 1:
            name = f"{cname}.generate_empi_dists"
            call = lambda sg: tomo.generate_empi_dists(true, 10 ** 5, sg)  # noqa: E731
            coll = log10_collision_counts([(10 ** 5, q) for q in probs0])
        else:
            name = f"{cname}.generate_empi_dists_sequence"
            nsq = [100, 10 ** 4, 10 ** 5, 10 ** 6]
            call = lambda sg: tomo.generate_empi_dists_sequence(true, nsq, sg)  # noqa: E731
            coll = log10_collision_counts([(n, q) for q in probs0 for n in nsq])
        acts = history_check(ctx, name, call, rng, M, coll, info={"type": ttype, "shape": shape, "structured": structured})
        # distribution + structural zeros: one big multinomial draw per schedule
        judge_tomo_distribution(ctx, J, ttype, cname, tomo, true, ops, structured, s)
        # history steps: the same tomography used again (other true object, copy(), fresh twin, sibling in turn)
        hist_tomo(ctx, hs, J, M, hrng, ttype, cname, c_sys, ops, opts, tomo, true, structured)
        ctx.nontrivial("tomo", ttype, shape, structured, np.hstack([np.ravel(x) for x in ops["states"]]), s, acts, sorted(extra))
    ctx.extra["max_z"] = J.max_z
    ctx.extra["max_chi2_ratio"] = J.max_chi_ratio
    hs.require([f"{cname}.generate_empi_dist", f"{cname}.generate_empi_dists", f"{cname}.generate_empi_dists_sequence",
                "Experiment.generate_empi_dist_sequence", "Experiment.generate_empi_dists_sequence"])


def shard_exp(ctx, hs, J, M):
    shape = ["S1", "S3", "S2"][ctx.params.get("block", 0) % 3]
    c_sys = gen.make_csys(gen.SHAPES[shape])
    d = c_sys.dim
    for i in ctx.cases(ctx.params["n"]):
        rng = ctx.rng()
        structured = i % 2 == 0
        ops = make_ops(rng, d, structured)
        with hs.paused():
            states = [gen.make_state(c_sys, r) for r in ops["states"]]
            povms = [gen.make_povm(c_sys, ms) for ms in ops["povms"]]
            gate = gen.make_gate(c_sys, kraus=ops["true_gate"])
            mp = gen.make_mprocess(c_sys, kraus_sets=ops["true_mprocess"])
            schedules, refs = [], []
            for _ in range(int(rng.integers(1, 5))):
                si, pj = int(rng.integers(0, len(states))), int(rng.integers(0, len(povms)))
                kind = int(rng.integers(0, 3))
                rho = ops["states"][si]
                if kind == 0:
                    schedules.append([("state", si), ("povm", pj)])
                    refs.append(ref.born(ops["povms"][pj], rho))
                elif kind == 1:
                    schedules.append([("state", si), ("gate", 0), ("povm", pj)])
                    refs.append(ref.born(ops["povms"][pj], ref.kraus_map(ops["true_gate"])(rho)))
                else:
                    schedules.append([("state", si), ("mprocess", 0), ("povm", pj)])
                    refs.append(None)
            sd = None if rng.random() < 0.5 else int(rng.integers(0, 2 ** 31))
            ok, exp = ctx.attempt(M.ex.Experiment, schedules=schedules, states=states, povms=povms, gates=[gate], mprocesses=[mp], seed_data=sd)
            pds = None
            if ok:
                ok, pds = ctx.attempt(exp.calc_prob_dists)
        if not ok:
            ctx.count("experiment.construction-failed")
            ctx.note(f"experiment construction failed: {pds!r}"[:300])
            continue
        n_sched = len(schedules)
        if i < 2:
            ctx.sample({"experiment-schedules": schedules, "shape": shape, "structured": structured, "prob_dist_0": np.asarray(pds[0])})
        s = int(rng.integers(0, 2 ** 31))
        j = int(rng.integers(0, n_sched))
        # validity: all four entry points, with a recording generator / adversarial stub where uniform numbers are used
        run_call(ctx, "Experiment.generate_data", lambda g: exp.generate_data(j, 500, g), RecGen(s))
        vals = adversarial_values(np.asarray(pds[j], dtype=np.float64))
        stub = StubGen(vals)
        run_call(ctx, "Experiment.generate_data", lambda g: exp.generate_data(j, len(vals), g), stub)
        ctx.truth("adversarial.stream-consumed", stub.qv_calls >= 1, key="Experiment.generate_data:generator-argument-not-used")
        run_call(ctx, "Experiment.generate_dataset", lambda g: exp.generate_dataset([300] * n_sched, g), RecGen(s + 1))
        run_call(ctx, "Experiment.generate_empi_dist_sequence", lambda g: exp.generate_empi_dist_sequence(j, [10, 100, 1000], g), s)
        run_call(ctx, "Experiment.generate_empi_dists_sequence", lambda g: exp.generate_empi_dists_sequence([[10] * n_sched, [100] * n_sched], g), None)
        which = i % 4
        pj = np.asarray(pds[j], dtype=np.float64)
        if which == 0:
            name, call, coll, draws = "Experiment.generate_data", (lambda sg: exp.generate_data(j, 400, sg)), log10_collision_data(pj, 400), 400
        elif which == 1:
            name, call, draws = "Experiment.generate_dataset", (lambda sg: exp.generate_dataset([250] * n_sched, sg)), 250 * n_sched
            coll = sum(log10_collision_data(np.asarray(q), 250) for q in pds)
        elif which == 2:
            nsq = [100, 10 ** 4, 10 ** 5, 10 ** 6, 10 ** 6, 10 ** 6]
            name, call, draws = "Experiment.generate_empi_dist_sequence", (lambda sg: exp.generate_empi_dist_sequence(j, nsq, sg)), 1
            coll = log10_collision_counts([(n, pj) for n in nsq])
        else:
            rows = [[10 ** 4] * n_sched, [10 ** 5] * n_sched, [10 ** 6] * n_sched]
            name, call, draws = "Experiment.generate_empi_dists_sequence", (lambda sg: exp.generate_empi_dists_sequence(rows, sg)), 1
            coll = log10_collision_counts([(row[0], np.asarray(q)) for q in pds for row in rows])
        acts = history_check(ctx, name, call, rng, M, coll, info={"shape": shape, "schedules": schedules, "draws": draws})
        # one int seed, several schedules: the schedules share one advancing stream (identical schedules => different data)
        with hs.paused():
            ok2, exp2 = ctx.attempt(M.ex.Experiment, schedules=[schedules[j], schedules[j]], states=states, povms=povms, gates=[gate], mprocesses=[mp])
        if ok2:
            if log10_collision_data(pj, 400) <= -30:
                okd, ds = run_call(ctx, "Experiment.generate_dataset", lambda sg: exp2.generate_dataset([400, 400], sg), s)
                if okd:
                    ctx.truth("experiment.schedules-independent", ds[0] != ds[1], key="Experiment.generate_dataset:int-seed:identical-data-across-schedules")
            rows = [[10 ** 6, 10 ** 6]] * 14
            if log10_collision_counts([(10 ** 6, pj)] * 14) <= -30:
                oke, r = run_call(ctx, "Experiment.generate_empi_dists_sequence", lambda sg: exp2.generate_empi_dists_sequence(rows, sg), s)
                if oke:
                    ctx.truth("experiment.schedules-independent", digest(r[0]) != digest(r[1]),
                              key="Experiment.generate_empi_dists_sequence:int-seed:identical-draws-across-schedules")
        # distribution against the Born rule of the reference model
        N = DRAWS_DIST
        ok, r = run_call(ctx, "Experiment.generate_empi_dists_sequence", lambda sg: exp.generate_empi_dists_sequence([[N] * n_sched], sg), s)
        if ok and isinstance(r, list) and len(r) == n_sched:
            for q, seq in zip(refs, r):
                if q is None or not (isinstance(seq, list) and len(seq) == 1):
                    continue
                why, c = counts_of(seq[0][0], seq[0][1])
                if why is None and len(c) == len(q):
                    q = np.clip(q, 0.0, None)
                    J.distribution("distribution:Experiment.generate_empi_dists_sequence", c, q, N)
                    if structured and np.any(q <= 1e-14):
                        ctx.truth("tomo.structural-zero", int(c[q <= 1e-14].sum()) == 0,
                                  key="Experiment.generate_empi_dists_sequence:structurally-zero-outcome-counted", info={"reference": q, "counts": c})
        if refs[j] is not None:
            ok, dat = run_call(ctx, "Experiment.generate_data", lambda sg: exp.generate_data(j, 20000, sg), s)
            if ok and len(refs[j]) == len(pj):
                c = np.bincount(np.asarray(dat, dtype=np.int64), minlength=len(pj))
                q = np.clip(refs[j], 0.0, None)
                J.distribution("distribution:Experiment.generate_data", c, q, 20000)
                if structured and np.any(q <= 1e-14):
                    ctx.truth("tomo.structural-zero", int(c[q <= 1e-14].sum()) == 0,
                              key="Experiment.generate_data:structurally-zero-outcome-generated", info={"reference": q, "counts": c})
        # history steps: the same Experiment used again (other requests, copy(), sibling, setters, set back)
        hist_exp(ctx, hs, J, M, ctx.rng(H_RNG), c_sys, ops, {"states": states, "povms": povms, "gates": [gate], "mprocesses": [mp]},
                 exp, schedules, structured, j)
        ctx.nontrivial("exp", shape, structured, schedules, np.hstack([np.ravel(x) for x in ops["states"]]), s, acts)
    ctx.extra["max_z"] = J.max_z
    ctx.extra["max_chi2_ratio"] = J.max_chi_ratio
    hs.require(["Experiment.generate_data", "Experiment.generate_dataset", "Experiment.generate_empi_dist_sequence",
                "Experiment.generate_empi_dists_sequence"])


SHARD_FUNCS = {"inv": shard_inv, "adv": shard_adv, "empi": shard_empi, "mult": shard_mult, "dist": shard_dist,
               "tomo": shard_tomo, "exp": shard_exp}


def run_shard(ctx):
    bad = ref.self_test()
    if bad:
        ctx.mark_inconclusive(f"reference self-test failed: {bad[:3]}")
        return
    hs, J, M = install(ctx)
    state0 = np.random.get_state()
    try:
        SHARD_FUNCS[ctx.params["kind"]](ctx, hs, J, M)
    finally:
        hs.uninstall()
        np.random.set_state(state0)
    ctx.extra["hook_counts"] = dict(hs.counts)
    ctx.extra.setdefault("max_z", J.max_z)
    ctx.extra.setdefault("max_chi2_ratio", J.max_chi_ratio)


def finalize(merged, ctx):
    zs = [e["extra"].get("max_z", 0.0) for e in merged["extra"]]
    cs = [e["extra"].get("max_chi2_ratio", 0.0) for e in merged["extra"]]
    hooks = {}
    for e in merged["extra"]:
        for k, v in (e["extra"].get("hook_counts") or {}).items():
            hooks[k] = hooks.get(k, 0) + v
    ctx.note(f"worst per-cell z over all pooled samples: {max(zs or [0]):.3f} (pass <= {Z_PASS}, violation >= {Z_FAIL}); "
             f"worst chi-square / isf(1e-12): {max(cs or [0]):.3f}")
    ctx.note("hook evaluations: " + ", ".join(f"{k}={v}" for k, v in sorted(hooks.items())))
    # hooks on private helpers are optional observation points (see REQUIRED_REACH)
    missing = [k for k, v in hooks.items() if v == 0 and not k.split(".")[-1].startswith("_")]
    if missing:
        ctx.mark_inconclusive(f"hooks never evaluated in any shard: {missing}")
