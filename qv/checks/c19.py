"""C19  Analytical error formulas equal exact expectations.

Contracts on the analytical formulas of `StandardQTomography` (covariance of the
empirical distributions, MSE of the empirical distributions, covariance / MSE of
the linear estimate in variable and in object parametrisation, Fisher matrix,
Cramer-Rao bound, incl. the `StandardPovmt` overrides), on the `matrix_util`
helpers they are built from and on the sample-statistics helpers of
`data_analysis` / `mean_squared_error`.

Oracle = EXACT EXPECTATION BY ENUMERATION.  For schedule j with m outcomes and
n_j shots all C(n_j+m-1, m-1) count vectors c are enumerated with their
multinomial weights w(c) = n_j!/prod c_x! * prod p_jx^c_x (integer coefficient),
p_j being the reference Born-rule distribution computed from raw coefficient
arrays (never from quara's A, b).

Decomposition used for the linear estimate (proved here, not assumed):
the estimator is affine in the data, est(f) = L f + c0 with f = (f_1..f_K)
stacked, hence with `centre` := est(p_1..p_K)
    est(f) - centre = sum_j L_j (f_j - p_j),        L_j = columns of L of schedule j.
Schedules are sampled independently and E[f_j] = p_j, so for every true value v
    E|est(f) - v|^2 = |centre - v|^2 + sum_j E|L_j (f_j - p_j)|^2
(the cross terms E[(f_j-p_j)^T L_j^T L_k (f_k-p_k)], j != k, factorise into
products of zero means; the term linear in (f_j - p_j) has zero mean), and
L_j (f_j - p_j) = est(p_1,..,f_j,..,p_K) - centre.  The same holds for the
second-moment matrix and, the object being an affine function of the variables,
for the object stacked vector.  So one schedule is enumerated at a time and the
per-schedule term is obtained by running the REAL LinearEstimator on
(p_1,..,f_j,..,p_K); nothing about L is taken from quara's formulas.
Each per-schedule term is exactly proportional to 1/n_j (Cov f_j = Sigma_j/n_j),
which gives the closed-form scaling used for sample sizes beyond enumeration.

HISTORY / COMBINATION steps (`run_history`, after the ordinary part of every case, own random stream ctx.rng(1)).
The statement holds "for every true object and every list of sample sizes" of every tomography, whatever was asked
before, so all answers below are judged by the same hook oracles; a key that only the history produced carries the
step's name as suffix (`PhaseKeys`), provenance / constructor options go into the witness.
  second-call            same tomography, same true object, asked again (other order, known and new lists) after the
                         estimator runs, the sampled-data helpers and the 3-sigma checkers have used them
  second-true-object     a second true object (non-default constructor options, or reached through copy() /
                         generate_from_var / the tomography's convert_var_to_qoperation / pickle) on the same tomography,
                         asked alternately with the first one with the SAME remaining arguments
  transient-true-object  true objects created, asked and dropped one after the other (id() re-use)
  twin-tomography        second tomography of the same class / flag / sizes built from the SAME tester objects with
                         explicit reversed schedules and non-default constructor options, asked alternately with the
                         first about the same true object and lists; for POVM tomography also a sibling with another
                         number of outcomes
  via-pickle             pickle round trip of (tomography, true object), clones and originals mixed
  helpers:re-query       helper functions: same input / other option, another input of the same shape in between
  returned-arrays-stable every array a formula or helper returned still has the bytes it had when it was returned
                         (`Keeper`); the sample-size lists and variable arrays passed in are what the caller wrote
Besides: the hooks judge against the arguments AS THEY WERE WHEN THE CALL WAS MADE (pre-hook snapshot of lists /
arrays), the true objects the driver builds are pinned (`Judge.pin`: reference = parameters at construction, so an
object modified behind the caller's back no longer drags the reference along), and the monitor's own copies of A, b and
of the tester arrays are real copies.  Cost: every case runs second-call + helpers + stability; the other four steps
rotate over the cases (two per case for state / POVM tomography, one per case for process / measurement-process
tomography).
"""
import contextlib
import math
import os
import pickle
import time
import types
from collections import OrderedDict

import numpy as np

from qv import gen, ref
from qv.monitor import HookSet

ID = "C19"
RULE = ("tomography instances of 4 types (QST, POVMT, QPT, QMPT) x on_para_eq_constraint in {F,T} on S1 (+S3 QST/POVMT in "
        "thorough) with random informationally complete tester sets (tester POVMs with 2..4 outcomes, equal counts within "
        "one tomography, minimal or over-complete by 1..2 testers, cond(A) <= 100) and a true object that is interior / "
        "rank-deficient / aligned with a tester so that some probability is exactly 0; per instance 4 sample-size lists "
        "(mixed 1..8 per schedule with at least two different values, equal, mixed scaled by 10 or 1000, mixed 10..1e5) x "
        "all formulas x both error modes, Fisher matrix / Cramer-Rao bound for object and array arguments and two values "
        "of N, plus sampled data sets through the sample-statistics helpers; a case is distinct by (type, shape, flag, "
        "tester counts, outcome counts, true-object kind, rounded true parameters, sample sizes) and non-trivial because "
        "every generated case has >= 2 schedules with different sample sizes and a non-degenerate true distribution; after "
        "the ordinary part every case runs history steps judged by the same oracles (second call on the same objects, a "
        "second true object with non-default options or reached through copy / generate_from_var / convert_var_to_qoperation "
        "/ pickle, transient true objects, a twin tomography from the same tester objects with explicit reversed schedules "
        "and non-default constructor options, pickle round trip, helper re-queries, stability of returned arrays and of "
        "the caller's arguments)")
_SQ = "quara/protocol/qtomography/standard/standard_qtomography.py:StandardQTomography."
_PV = "quara/protocol/qtomography/standard/standard_povmt.py:StandardPovmt."
_MU = "quara/utils/matrix_util.py:"
_DA = "quara/data_analysis/data_analysis.py:"
_MS = "quara/loss_function/mean_squared_error.py:"
ANCHORS = [
    _SQ + "calc_covariance_mat_single", _SQ + "calc_covariance_mat_total", _SQ + "calc_covariance_linear_mat_total",
    _SQ + "calc_mse_linear_analytical", _SQ + "_calc_mse_linear_analytical_mode_var",
    _SQ + "_calc_mse_linear_analytical_mode_qoperation", _PV + "_calc_mse_linear_analytical_mode_qoperation",
    _SQ + "calc_mse_empi_dists_analytical", _SQ + "calc_fisher_matrix", _SQ + "calc_fisher_matrix_total",
    _SQ + "calc_cramer_rao_bound", _PV + "calc_cramer_rao_bound", _PV + "_generate_matS",
    _MU + "calc_covariance_mat", _MU + "calc_covariance_mat_total", _MU + "calc_direct_sum", _MU + "calc_conjugate",
    _MU + "calc_left_inv", _MU + "calc_fisher_matrix", _MU + "calc_fisher_matrix_total", _MU + "replace_prob_dist",
    _MU + "calc_se", _MU + "calc_mse_prob_dists",
    _DA + "calc_mse_qoperations", _DA + "calc_covariance_matrix_of_prob_dist", _DA + "calc_covariance_matrix_of_prob_dists",
    _DA + "calc_mse_general_norm",
    _MS + "check_mse_of_empirical_distributions", _MS + "compare_to_analytical",
]
REQUIRED_REACH = ANCHORS
REQUIRED_ORACLES = [
    "covariance_single=enumeration", "covariance_total=enumeration", "covariance_linear=enumeration",
    "mse_linear:var=enumeration", "mse_linear:qoperation=enumeration", "mse_empi_dists=enumeration",
    "fisher_single=E[score.score^T]", "fisher_total=weighted-sum", "cramer_rao=Tr(F^-1)", "cramer_rao:povm-object-bound",
    "scaling-law", "matrix_util.calc_covariance_mat", "matrix_util.calc_direct_sum", "matrix_util.calc_left_inv",
    "matrix_util.calc_conjugate", "matrix_util.calc_fisher_matrix", "matrix_util.replace_prob_dist", "matrix_util.calc_se",
    "matrix_util.calc_mse_prob_dists", "data_analysis.calc_mse_qoperations", "fisher:boundary-rule", "cramer_rao:boundary-rule",
    "returned-array-unchanged-by-later-calls", "arguments-unchanged-by-the-formulas",
]
MIN_EVALS = {"quick": 20000, "thorough": 200000}
WATCHDOG = {"quick": 900, "thorough": 3600}
ASSUMPTIONS = [
    "true distributions come from the reference Born rule on raw coefficient arrays of testers and true object; the "
    "gradient of the (affine) forward model is read from calc_matA(), sliced by the outcome counts (its agreement with "
    "the circuit is C08's business)",
    "the per-schedule expectation of the linear estimate is obtained by running the real LinearEstimator on "
    "(p_1,..,f_j,..,p_K) for every count vector (its exactness on exact data is C09's business; a bias would enter the "
    "reference as |centre - true|^2, so the decomposition stays exact)",
    "testers use identity-first orthonormal Hermitian bases; cond(A) <= 100 (tolerances scale with cond(A)^2 for the "
    "linear estimate and with cond(F) for the Cramer-Rao bound)",
    "true objects carry the same on_para_eq_constraint flag as the tomography (the library re-creates them that way "
    "before calling the formulas)",
    "sizes beyond enumeration are judged through the exact 1/n_j proportionality of every per-schedule term",
    "history steps use supported operations only (public formulas, constructors with documented options, copy(), "
    "generate_from_var, convert_var_to_qoperation, pickle, explicit schedule lists); a provenance that does not keep the "
    "type or the on_para_eq_constraint flag, a constructor refusing an option and a failing pickle round trip are "
    "recorded, not judged (other properties' business)",
]

TOMOS = ["qst", "povmt", "qpt", "qmpt"]
KAPPA_MAX = 100.0
ENUM_BUDGET = 220
EPS_FISHER = 1e-8


def shards(tier, seed):
    out = []
    if tier == "quick":
        n_of = {("S1", "qst"): 96, ("S1", "povmt"): 84, ("S1", "qpt"): 48, ("S1", "qmpt"): 32}
        parts = {("S1", "qst"): 2, ("S1", "povmt"): 2, ("S1", "qpt"): 4, ("S1", "qmpt"): 4}
    else:
        n_of = {("S1", "qst"): 500, ("S1", "povmt"): 440, ("S1", "qpt"): 200, ("S1", "qmpt"): 120,
                ("S3", "qst"): 120, ("S3", "povmt"): 60}
        parts = {("S1", "qst"): 2, ("S1", "povmt"): 2, ("S1", "qpt"): 4, ("S1", "qmpt"): 4, ("S3", "qst"): 2, ("S3", "povmt"): 2}
    tcost = {"qst": 1, "povmt": 1.3, "qpt": 3.5, "qmpt": 7}
    scost = {"S1": 1, "S3": 5}
    for (shape, tomo), n in n_of.items():
        for flag in (False, True):
            k = parts.get((shape, tomo), 1)
            per = int(math.ceil(n / k))
            for part in range(k):
                out.append({"tomo": tomo, "shape": shape, "flag": flag, "n": per, "start": part * per,
                            "weight": tcost[tomo] * scost[shape] * per})
    return out


# =========================================================================
# reference: enumeration of the multinomial distribution
# =========================================================================


def n_enum_max(m):
    """largest n <= 8 whose number of count vectors C(n+m-1, m-1) stays within the budget"""
    best = 1
    for n in range(1, 9):
        if math.comb(n + m - 1, m - 1) <= ENUM_BUDGET:
            best = n
    return best


def enum_n(n, m):
    """sample size at which a schedule is enumerated: n itself when feasible, otherwise a small size derived from n
    (the result is then scaled by n0/n, exact because every per-schedule term is proportional to 1/n)"""
    n = int(n)
    nm = n_enum_max(m)
    return n if n <= nm else 1 + (n % nm)


_COMP = {}


def comp_table(n, m):
    """(C, coef): all count vectors of n shots over m outcomes with their integer multinomial coefficients"""
    t = _COMP.get((n, m))
    if t is None:
        rows = list(ref.compositions(n, m))
        coef = []
        for c in rows:
            k = math.factorial(n)
            for x in c:
                k //= math.factorial(x)
            coef.append(k)
        t = (np.array(rows, dtype=np.int64), np.array(coef, dtype=np.float64))
        _COMP[(n, m)] = t
    return t


def clean_dist(p):
    p = np.clip(np.asarray(p, dtype=np.float64).ravel(), 0.0, None)
    return p / p.sum()


def enum_weights(n, p):
    C, coef = comp_table(int(n), len(p))
    w = coef * np.prod(np.power(p[None, :], C), axis=1)  # 0**0 = 1
    return C, w


def cov_enum(p, n):
    """E[(f-p)(f-p)^T] of the empirical distribution f = c/n, c ~ Multinomial(n, p)"""
    p = clean_dist(p)
    n0 = enum_n(n, len(p))
    C, w = enum_weights(n0, p)
    D = C / n0 - p[None, :]
    return np.einsum("k,ki,kj->ij", w, D, D) * (n0 / float(n))


def is_prob_vector(q):
    q = np.asarray(q)
    return bool(q.ndim == 1 and q.size >= 2 and np.all(np.isfinite(q)) and np.all(q >= 0) and abs(float(q.sum()) - 1.0) <= 1e-12)


def replace_rule(p, eps):
    """the rule of matrix_util.replace_prob_dist written out: entries below eps become eps, the others give up
    eps*(number replaced)/(number kept) each, so that the kept mass is conserved"""
    p = [float(x) for x in p]
    small = [x < eps for x in p]
    cnt = sum(small)
    out = []
    for x, s in zip(p, small):
        out.append(eps if s else x - (eps * cnt) / (len(p) - cnt))
    return np.array(out, dtype=np.float64)


def fisher_ref(p, G, eps=EPS_FISHER):
    """one-shot Fisher matrix E[score score^T], score_x = grad p_x / p_x, under the (replaced) distribution"""
    pt = replace_rule(p, eps)
    G = np.asarray(G, dtype=np.float64)
    S = G / pt[:, None]
    return np.einsum("x,xi,xj->ij", pt, S, S)


def dist_class(p):
    p = np.asarray(p, dtype=np.float64)
    if np.all(p >= 1e-6):
        return "interior"
    if np.all((p >= 1e-6) | (p <= 1e-10)):
        return "boundary"
    return "free"


def rel(a, b, floor=1e-300):
    a = np.asarray(a, dtype=np.float64)
    b = np.asarray(b, dtype=np.float64)
    if a.shape != b.shape:
        return float("inf")
    if a.size == 0:
        return 0.0
    if not np.all(np.isfinite(a)):
        return float("nan")
    s = max(float(np.max(np.abs(b))), floor)
    return float(np.max(np.abs(a - b))) / s


# =========================================================================
# reference: parametrisation and Born rule on raw arrays
# =========================================================================


def raw_list(obj):
    t = gen.type_of(obj)
    if t == "State":
        return [np.asarray(obj.vec, dtype=np.float64)]
    if t == "Povm":
        return [np.asarray(v, dtype=np.float64) for v in obj.vecs]
    if t == "Gate":
        return [np.asarray(obj.hs, dtype=np.float64)]
    if t == "MProcess":
        return [np.asarray(h, dtype=np.float64) for h in obj.hss]
    raise TypeError(t)


def raw_flat(obj):
    return np.hstack([np.ravel(a) for a in raw_list(obj)])


def ref_var(t, raws, flag):
    """variable vector from raw arrays (stated convention: with the equality constraint built in, the dependent
    parameters - first state coefficient, last POVM element, first HS row (of the last element) - are dropped)"""
    if not flag:
        return np.hstack([np.ravel(a) for a in raws])
    if t == "State":
        return np.ravel(raws[0])[1:]
    if t == "Povm":
        return np.hstack([np.ravel(a) for a in raws[:-1]])
    if t == "Gate":
        return np.ravel(raws[0][1:, :])
    if t == "MProcess":
        return np.hstack([np.ravel(a) for a in raws[:-1]] + [np.ravel(raws[-1][1:, :])])
    raise TypeError(t)


def ref_obj_from_var(t, var, flag, d, m):
    """stacked raw parameters of the object with variable vector var (inverse of ref_var; identity-first
    orthonormal basis: I = sqrt(d) B_0, trace preservation = first HS row (1,0,..,0))"""
    var = np.asarray(var, dtype=np.float64)
    dd = d * d
    if not flag:
        return var.copy()
    if t == "State":
        return np.hstack([[1.0 / np.sqrt(d)], var])
    if t == "Povm":
        pre = var.reshape(m - 1, dd)
        last = -pre.sum(axis=0)
        last[0] += np.sqrt(d)
        return np.hstack([pre.ravel(), last])
    if t == "Gate":
        first = np.zeros(dd)
        first[0] = 1.0
        return np.hstack([first, var])
    if t == "MProcess":
        k = (m - 1) * dd * dd
        pre = var[:k].reshape(m - 1, dd, dd)
        rest = var[k:].reshape(dd - 1, dd)
        first = -pre[:, 0, :].sum(axis=0) if m > 1 else np.zeros(dd)
        first[0] += 1.0
        return np.hstack([pre.ravel(), first, rest.ravel()])
    raise TypeError(t)


def jacobian_obj_var(t, nvar, flag, d, m):
    """d(stacked object)/d(var): the map is affine, so unit differences are exact"""
    z = ref_obj_from_var(t, np.zeros(nvar), flag, d, m)
    cols = []
    for k in range(nvar):
        e = np.zeros(nvar)
        e[k] = 1.0
        cols.append(ref_obj_from_var(t, e, flag, d, m) - z)
    return np.array(cols).T


class Forward:
    """Reference Born rule on raw coefficient arrays for one tomography object."""

    def __init__(self, qt):
        exp = qt.experiment
        self.tomo = type(qt).__name__
        self.schedules = [list(map(tuple, s)) for s in exp.schedules]
        # copies: the reference must not follow a later in-place change of a tester's arrays
        self.states = [None if s is None else np.array(s.vec, dtype=np.float64) for s in exp.states]
        self.povms = [None if p is None else [np.array(v, dtype=np.float64) for v in p.vecs] for p in exp.povms]
        tester = next(x for x in list(exp.states) + list(exp.povms) if x is not None)
        B = gen.basis_of(tester.composite_system)
        F = np.array([b.reshape(-1) for b in B])
        Ft = np.array([b.T.reshape(-1) for b in B])
        self.G = (Ft @ F.T)  # G[a,b] = Tr[B_a B_b]
        self.dim = int(tester.composite_system.dim)

    def _pair(self, mvec, svec):
        return complex(mvec @ self.G @ svec).real

    def predict(self, raws):
        out = []
        for sch in self.schedules:
            idx = {k: i for k, i in sch}
            if self.tomo == "StandardQst":
                q = [self._pair(m, raws[0]) for m in self.povms[idx["povm"]]]
            elif self.tomo == "StandardPovmt":
                s = self.states[idx["state"]]
                q = [self._pair(m, s) for m in raws]
            elif self.tomo == "StandardQpt":
                s = raws[0] @ self.states[idx["state"]]
                q = [self._pair(m, s) for m in self.povms[idx["povm"]]]
            elif self.tomo == "StandardQmpt":
                q = []
                for h in raws:  # mprocess outcome first, tester outcome second
                    s = h @ self.states[idx["state"]]
                    q += [self._pair(m, s) for m in self.povms[idx["povm"]]]
            else:
                raise TypeError(self.tomo)
            out.append(np.array(q, dtype=np.float64))
        return out


def lin_info(A):
    A = np.asarray(A, dtype=np.float64)
    rows, cols = A.shape
    s = np.linalg.svd(A, compute_uv=False)
    smax = float(s[0]) if s.size else 0.0
    if rows < cols or s[cols - 1] <= 1e-11 * smax:
        return {"ic": False, "kappa": float("inf"), "smax": smax}
    return {"ic": True, "kappa": smax / float(s[cols - 1]), "smax": smax}


EST_TYPE = {"StandardQst": "State", "StandardPovmt": "Povm", "StandardQpt": "Gate", "StandardQmpt": "MProcess"}


# =========================================================================
# monitor state
# =========================================================================


class Model:
    """what the monitor reads off one tomography object"""

    def __init__(self, qt):
        self.qt = qt
        self.cls = type(qt).__name__
        self.flag = bool(qt.on_para_eq_constraint)
        self.tag = f"{self.cls}:para_eq={'T' if self.flag else 'F'}"
        self.K = int(qt.num_schedules)
        self.sizes = [int(qt.num_outcomes(j)) for j in range(self.K)]
        # copies taken when the tomography is first seen (np.asarray would alias an array that the library caches and
        # later modifies, and the reference would follow the fault)
        self.A = np.array(qt.calc_matA(), dtype=np.float64)
        self.b = np.array(qt.calc_vecB(), dtype=np.float64)
        self.off = np.concatenate([[0], np.cumsum(self.sizes)]).astype(int)
        self.li = lin_info(self.A) if self.A.shape[0] == self.off[-1] else {"ic": False, "kappa": float("inf"), "smax": 0.0}
        self.fwd = Forward(qt)
        self.t = EST_TYPE.get(self.cls)
        self.d = self.fwd.dim

    def rows(self, j):
        return slice(int(self.off[j]), int(self.off[j + 1]))


class Judge:
    def __init__(self, ctx, est):
        self.ctx = ctx
        self.est = est
        self.models = OrderedDict()
        self.truths = OrderedDict()
        self.pins = {}
        self.worst = {}
        self.kappas = []
        self.condF = []

    # ------------------------------------------------------------ verdicts
    def num(self, oracle, err, tp, tf, key=None, info=None):
        try:
            r = float(err) / tp if tp > 0 else (0.0 if float(err) == 0.0 else float("inf"))
            if math.isfinite(r):
                self.worst[oracle] = max(self.worst.get(oracle, 0.0), r)
        except Exception:  # noqa: BLE001
            pass
        return self.ctx.num(oracle, err, tp, tf, key=key, info=info)

    # ------------------------------------------------------------- caches
    def model(self, qt):
        c = self.models.get(id(qt))
        if c is None or c.qt is not qt:
            c = Model(qt)
            self.models[id(qt)] = c
            while len(self.models) > 8:
                self.models.popitem(last=False)
        return c

    def clear_case(self):
        self.truths.clear()
        self.pins.clear()

    def pin(self, qope):
        """remember the parameters a true object has NOW (copies).  Later calls with this very object are judged against
        these: the statement is about the object the caller built, so if anything modifies it behind the caller's back
        the formulas' answers stop being the expectations for it (without the pin the reference would silently follow)"""
        self.pins[id(qope)] = (qope, [np.array(a, dtype=np.float64) for a in raw_list(qope)])

    def truth(self, qt, qope):
        """per (tomography, true object): reference distributions, centre of the linear estimate, and a table of
        per-schedule enumeration terms filled on demand"""
        M = self.model(qt)
        if M.t is None or gen.type_of(qope) != M.t:
            return None
        pinned = self.pins.get(id(qope))
        raws = pinned[1] if (pinned is not None and pinned[0] is qope) else raw_list(qope)
        key = (id(qt), b"".join(np.ascontiguousarray(a).tobytes() for a in raws))
        T = self.truths.get(key)
        if T is not None and T["qt"] is qt:
            return T
        ps = [clean_dist(q) for q in M.fwd.predict(raws)]
        if [len(q) for q in ps] != M.sizes:
            return None
        m_obj = len(raws) if M.t in ("Povm", "MProcess") else 1
        T = {"qt": qt, "M": M, "raws": raws, "ps": ps, "cls": [dist_class(q) for q in ps], "m_obj": m_obj,
             "v_true": ref_var(M.t, raws, M.flag), "o_true": np.hstack([np.ravel(a) for a in raws]), "terms": {},
             "emp": {}, "centre": None}
        self.truths[key] = T
        while len(self.truths) > 16:
            self.truths.popitem(last=False)
        return T

    def _centre(self, T):
        if T["centre"] is None:
            qt = T["qt"]
            res = self.est.calc_estimate(qt, [(1, q) for q in T["ps"]])
            v = np.array(res.estimated_var, dtype=np.float64)
            o = raw_flat(res.estimated_qoperation)
            T["centre"] = (v, o)
        return T["centre"]

    def _lin_term(self, T, j, n0):
        """(V, O): E[dv dv^T] and E|do|^2 of est(p_1..f_j..p_K) - centre over f_j = c/n0, c ~ Multinomial(n0, p_j)"""
        t = T["terms"].get((j, n0))
        if t is None:
            qt, ps = T["qt"], T["ps"]
            cv, co = self._centre(T)
            C, w = enum_weights(n0, ps[j])
            seq = []
            for c in C:
                ds = [(1, q) for q in ps]
                ds[j] = (n0, c / float(n0))
                seq.append(ds)
            res = self.est.calc_estimate_sequence(qt, seq)
            dv = np.array([np.asarray(v, dtype=np.float64) for v in res.estimated_var_sequence]) - cv[None, :]
            do = np.array([raw_flat(o) for o in res.estimated_qoperation_sequence]) - co[None, :]
            V = np.einsum("k,ki,kj->ij", w, dv, dv)
            O = float(np.einsum("k,ki,ki->", w, do, do))
            mean_v = float(np.max(np.abs(w @ dv))) if dv.size else 0.0
            t = (V, O, mean_v, abs(float(w.sum()) - 1.0))
            T["terms"][(j, n0)] = t
        return t

    def linear_truth(self, T, ns):
        """reference second-moment matrix and MSEs (variable / object space) of the linear estimate"""
        M = T["M"]
        cv, co = self._centre(T)
        cov = np.zeros((cv.size, cv.size))
        obj = 0.0
        unb = 0.0
        wsum = 0.0
        for j in range(M.K):
            n0 = enum_n(ns[j], M.sizes[j])
            V, O, mean_v, wdef = self._lin_term(T, j, n0)
            f = n0 / float(ns[j])
            cov += f * V
            obj += f * O
            unb = max(unb, mean_v)
            wsum = max(wsum, wdef)
        bias_v = float(np.sum((cv - T["v_true"]) ** 2)) if cv.shape == T["v_true"].shape else float("nan")
        bias_o = float(np.sum((co - T["o_true"]) ** 2)) if co.shape == T["o_true"].shape else float("nan")
        return {"cov": cov, "mse_var": bias_v + float(np.trace(cov)), "mse_obj": bias_o + obj, "bias_v": bias_v,
                "bias_o": bias_o, "mean_dev": unb, "weight_defect": wsum}

    def emp_truth(self, T, ns):
        """sum_j E|f_j - p_j|^2 by enumeration"""
        M = T["M"]
        tot = 0.0
        for j in range(M.K):
            n0 = enum_n(ns[j], M.sizes[j])
            e = T["emp"].get((j, n0))
            if e is None:
                C, w = enum_weights(n0, T["ps"][j])
                D = C / float(n0) - T["ps"][j][None, :]
                e = float(np.einsum("k,ki,ki->", w, D, D))
                T["emp"][(j, n0)] = e
            tot += e * n0 / float(ns[j])
        return tot


def valid_ns(ns, K):
    try:
        ns = list(ns)
    except TypeError:
        return None
    if len(ns) != K:
        return None
    out = []
    for n in ns:
        if isinstance(n, (bool, np.bool_)) or not isinstance(n, (int, np.integer)) or n < 1:
            return None
        out.append(int(n))
    return out


def tol_lin(kappa):
    """linear-estimate quantities involve (A^T A)^-1 twice over (library: pinv, estimator: inv): relative rounding
    ~ cond(A)^2 * eps.  Measured on the unchanged tree: err <= 2e-16 * cond^2."""
    tp = max(1e-11, 2e-14 * kappa * kappa)
    return tp, max(1e-8, 1e3 * tp)


def tol_fisher(p_min):
    """the library evaluates p = A v + b, the reference the Born rule: they differ by a few ulp, which 1/p amplifies to
    ~1e-15/p_min relative (measured: 3e-12 at p_min ~ 1e-4)"""
    tp = max(1e-11, 1e-13 / p_min)
    return tp, max(1e-8, 1e3 * tp)


def tol_inv(cond, boundary=False):
    tp = max(1e-6 if boundary else 1e-11, 1e-14 * cond)
    return tp, max(1e-4 if boundary else 1e-8, 1e3 * tp)


# =========================================================================
# hooks on the tomography formulas
# =========================================================================


def install_tomography_hooks(hs, J):
    from quara.objects.qoperation import QOperation
    from quara.protocol.qtomography.standard.standard_povmt import StandardPovmt
    from quara.protocol.qtomography.standard.standard_qtomography import StandardQTomography

    ctx = J.ctx
    SQ = StandardQTomography

    def arg(a, kw, pos, name, default=None):
        if name in kw:
            return kw[name]
        return a[pos] if len(a) > pos else default

    def snap_args(qt, *a, **kw):
        """the arguments as they are when the call is made (lists / arrays copied): the formulas are judged for what the
        caller asked, also when the callee re-orders or rescales a list in place before using it"""
        def cp(x):
            if isinstance(x, np.ndarray):
                return x.copy()
            return list(x) if isinstance(x, list) else x
        return tuple(cp(x) for x in a), {k: cp(v) for k, v in kw.items()}

    def hook(cls, name, post):
        def post_on_call_time_args(result, snap, qt, *a, **kw):
            if snap is not None:
                a, kw = snap
            return post(result, None, qt, *a, **kw)
        hs.method(cls, name, post=post_on_call_time_args, pre=snap_args)

    # ---- covariance of one empirical distribution -----------------------------
    def post_cov_single(result, snap, qt, *a, **kw):
        qope, j, n = arg(a, kw, 0, "qope"), arg(a, kw, 1, "schedule_index"), arg(a, kw, 2, "data_num")
        T = J.truth(qt, qope)
        if T is None or not isinstance(j, (int, np.integer)) or not (0 <= j < T["M"].K) or valid_ns([n], 1) is None:
            ctx.skip("covariance_single=enumeration")
            return
        refc = cov_enum(T["ps"][j], n)
        r = np.asarray(result, dtype=np.float64)
        err = float(np.max(np.abs(r - refc))) * n if r.shape == refc.shape else float("inf")
        J.num("covariance_single=enumeration", err, 1e-11, 1e-8,
              key=f"calc_covariance_mat_single:{T['M'].tag}:differs-from-enumeration",
              info={"n": int(n), "route": "enumerated" if enum_n(n, len(T['ps'][j])) == n else "scaled", "schedule": "first" if j == 0 else "later"})

    hook(SQ, "calc_covariance_mat_single", post_cov_single)

    def post_cov_total(result, snap, qt, *a, **kw):
        qope, ns = arg(a, kw, 0, "qope"), arg(a, kw, 1, "data_num_list")
        T = J.truth(qt, qope)
        ns_ = valid_ns(ns, T["M"].K) if T is not None else None
        if ns_ is None:
            ctx.skip("covariance_total=enumeration")
            return
        M = T["M"]
        tot = int(M.off[-1])
        refc = np.zeros((tot, tot))
        for j in range(M.K):
            refc[M.rows(j), M.rows(j)] = cov_enum(T["ps"][j], ns_[j]) * ns_[j]
        r = np.asarray(result, dtype=np.float64)
        if r.shape != refc.shape:
            err = float("inf")
        else:
            scale = np.zeros(tot)
            for j in range(M.K):
                scale[M.rows(j)] = ns_[j]
            err = float(np.max(np.abs(r * np.sqrt(np.outer(scale, scale)) - refc)))  # every block in units of 1/n_j
        J.num("covariance_total=enumeration", err, 1e-11, 1e-8,
              key=f"calc_covariance_mat_total:{M.tag}:differs-from-enumeration", info={"ns": ns_[:12]})

    hook(SQ, "calc_covariance_mat_total", post_cov_total)

    # ---- linear estimate -----------------------------------------------------
    def lin_ready(qt, qope, ns, oracle):
        T = J.truth(qt, qope)
        ns_ = valid_ns(ns, T["M"].K) if T is not None else None
        if ns_ is None or not T["M"].li["ic"] or T["M"].li["kappa"] > 1e3:
            ctx.skip(oracle)
            return None
        L = J.linear_truth(T, ns_)
        k = T["M"].li["kappa"]
        # sanity of the decomposition's premises (these are facts about the estimator / the enumeration, recorded as
        # their own oracles): weights sum to one, E[est] = centre, centre = true variables
        J.num("enumeration:weights-sum-to-1", L["weight_defect"], 1e-12, 1e-9, key="reference:enumeration-weights")
        tp, tf = tol_lin(k)
        scale = max(1.0, float(np.max(np.abs(T["v_true"]))))
        J.num("linear-estimate:mean=centre", L["mean_dev"] / scale, tp, tf, key=f"LinearEstimator:not-affine-in-data:{T['M'].tag}")
        J.num("linear-estimate:centre=true", math.sqrt(L["bias_v"]) / scale, tp * 10, tf * 10,
              key=f"LinearEstimator:biased-on-exact-data:{T['M'].tag}")
        return T, ns_, L, tp, tf

    def post_cov_linear(result, snap, qt, *a, **kw):
        got = lin_ready(qt, arg(a, kw, 0, "qope"), arg(a, kw, 1, "data_num_list"), "covariance_linear=enumeration")
        if got is None:
            return
        T, ns_, L, tp, tf = got
        J.num("covariance_linear=enumeration", rel(result, L["cov"]), tp, tf,
              key=f"calc_covariance_linear_mat_total:{T['M'].tag}:differs-from-enumeration", info={"ns": ns_[:12], "kappa": T["M"].li["kappa"]})

    hook(SQ, "calc_covariance_linear_mat_total", post_cov_linear)

    def post_mse_linear(result, snap, qt, *a, **kw):
        mode = arg(a, kw, 2, "mode", "qoperation")
        if mode not in ("qoperation", "var"):
            return
        oracle = f"mse_linear:{mode}=enumeration"
        got = lin_ready(qt, arg(a, kw, 0, "qope"), arg(a, kw, 1, "data_num_list"), oracle)
        if got is None:
            return
        T, ns_, L, tp, tf = got
        want = L["mse_var"] if mode == "var" else L["mse_obj"]
        try:
            val = float(result)
        except Exception:  # noqa: BLE001
            val = float("nan")
        err = abs(val - want) / max(abs(want), 1e-300)
        what = "differs-from-enumeration"
        if mode == "qoperation" and abs(L["mse_obj"] - L["mse_var"]) > 1e-6 * abs(L["mse_obj"]) and \
                abs(val - L["mse_var"]) <= 1e3 * tp * abs(L["mse_var"]):
            # mechanism class: the variable-space value is returned although the object has implied parameters
            what = "returns-variable-space-mse:implied-parameters-ignored"
        J.num(oracle, err, tp, tf, key=f"calc_mse_linear_analytical:{T['M'].tag}:mode={mode}:{what}",
              info={"ns": ns_[:12], "got": val, "enumeration": want, "enumeration_var_space": L["mse_var"], "kappa": T["M"].li["kappa"]})

    hook(SQ, "calc_mse_linear_analytical", post_mse_linear)

    def post_mse_empi(result, snap, qt, *a, **kw):
        qope, ns = arg(a, kw, 0, "qope"), arg(a, kw, 1, "data_num_list")
        T = J.truth(qt, qope)
        ns_ = valid_ns(ns, T["M"].K) if T is not None else None
        if ns_ is None:
            ctx.skip("mse_empi_dists=enumeration")
            return
        want = J.emp_truth(T, ns_)
        try:
            val = float(result)
        except Exception:  # noqa: BLE001
            val = float("nan")
        J.num("mse_empi_dists=enumeration", abs(val - want) / max(abs(want), 1e-300), 1e-11, 1e-8,
              key=f"calc_mse_empi_dists_analytical:{T['M'].tag}:differs-from-enumeration", info={"ns": ns_[:12], "got": val, "enumeration": want})

    hook(SQ, "calc_mse_empi_dists_analytical", post_mse_empi)

    # ---- Fisher matrix / Cramer-Rao bound ---------------------------------------
    def fisher_inputs(qt, var):
        """(M, list of reference distributions, class per schedule) for an object or an array argument"""
        M = J.model(qt)
        if M.A.shape[0] != M.off[-1]:
            return None
        if isinstance(var, QOperation):
            T = J.truth(qt, var)
            if T is None:
                return None
            return M, T["ps"], T["cls"], "object"
        v = np.asarray(var, dtype=np.float64)
        if v.ndim != 1 or v.shape[0] != M.A.shape[1]:
            return None
        q = M.A @ v + M.b
        ps = [q[M.rows(j)] for j in range(M.K)]
        return M, ps, [dist_class(x) for x in ps], "array"

    def ref_fisher_j(M, ps, j):
        return fisher_ref(ps[j], M.A[M.rows(j)])

    def post_fisher(result, snap, qt, *a, **kw):
        j, var = arg(a, kw, 0, "j"), arg(a, kw, 1, "var")
        got = fisher_inputs(qt, var)
        if got is None or not isinstance(j, (int, np.integer)) or not (0 <= j < got[0].K) or got[2][j] == "free":
            ctx.skip("fisher_single=E[score.score^T]")
            return
        M, ps, cls, kind = got
        want = ref_fisher_j(M, ps, j)
        if cls[j] == "interior":
            tp, tf = tol_fisher(float(np.min(ps[j])))
            J.num("fisher_single=E[score.score^T]", rel(result, want), tp, tf,
                  key=f"calc_fisher_matrix:{M.tag}:differs-from-E[score.score^T]", info={"arg": kind, "p_min": float(np.min(ps[j]))})
        else:
            J.num("fisher:boundary-rule", rel(result, want), 1e-6, 1e-4,
                  key=f"calc_fisher_matrix:{M.tag}:p=0:differs-from-replace_prob_dist-rule", info={"arg": kind})

    hook(SQ, "calc_fisher_matrix", post_fisher)

    def post_fisher_total(result, snap, qt, *a, **kw):
        var, weights = arg(a, kw, 0, "var"), arg(a, kw, 1, "weights")
        got = fisher_inputs(qt, var)
        try:
            ws = [float(w) for w in weights]
        except Exception:  # noqa: BLE001
            ws = None
        if got is None or ws is None or len(ws) != got[0].K or "free" in got[2]:
            ctx.skip("fisher_total=weighted-sum")
            return
        M, ps, cls, kind = got
        want = sum(ws[j] * ref_fisher_j(M, ps, j) for j in range(M.K))
        if all(c == "interior" for c in cls):
            tp, tf = tol_fisher(min(float(np.min(q)) for q in ps))
            J.num("fisher_total=weighted-sum", rel(result, want), tp, tf,
                  key=f"calc_fisher_matrix_total:{M.tag}:differs-from-weighted-sum", info={"arg": kind})
        else:
            J.num("fisher_total:boundary-rule", rel(result, want), 1e-6, 1e-4,
                  key=f"calc_fisher_matrix_total:{M.tag}:p=0:differs-from-replace_prob_dist-rule", info={"arg": kind})

    hook(SQ, "calc_fisher_matrix_total", post_fisher_total)

    def crb_truth(qt, var, list_N):
        got = fisher_inputs(qt, var)
        if got is None:
            return None
        M, ps, cls, kind = got
        ns_ = valid_ns(list_N, M.K)
        if ns_ is None or "free" in cls:
            return None
        FN = sum(ns_[j] * ref_fisher_j(M, ps, j) for j in range(M.K))  # information of independent samples adds
        FN = (FN + FN.T) / 2
        w, U = np.linalg.eigh(FN)
        if w[0] <= 0:
            return None
        cond = float(w[-1] / w[0])
        inv = (U / w) @ U.T
        t = M.t
        m_obj = None
        if isinstance(var, QOperation):
            m_obj = len(raw_list(var)) if t in ("Povm", "MProcess") else 1
        elif t == "Povm":
            dd = M.d * M.d
            m_obj = M.A.shape[1] // dd + (1 if M.flag else 0)
        elif t == "MProcess":
            dd = M.d * M.d
            m_obj = (M.A.shape[1] + (dd if M.flag else 0)) // (dd * dd)
        else:
            m_obj = 1
        try:
            Jm = jacobian_obj_var(t, M.A.shape[1], M.flag, M.d, m_obj)
        except ValueError:  # number of variables does not fit (type, flag, outcomes): no reference for this call
            return None
        if Jm.ndim != 2 or Jm.shape[1] != inv.shape[0]:
            return None
        return {"M": M, "var_bound": float(np.sum(1.0 / w)), "obj_bound": float(np.trace(Jm @ inv @ Jm.T)), "cond": cond,
                "boundary": any(c == "boundary" for c in cls), "kind": kind, "ns": ns_}

    def post_crb(povm_override):
        fn = "StandardPovmt.calc_cramer_rao_bound" if povm_override else "calc_cramer_rao_bound"

        def post(result, snap, qt, *a, **kw):
            var, N, list_N = arg(a, kw, 0, "var"), arg(a, kw, 1, "N"), arg(a, kw, 2, "list_N")
            R = crb_truth(qt, var, list_N)
            oracle = "cramer_rao:povm-object-bound" if (povm_override and bool(qt.on_para_eq_constraint)) else "cramer_rao=Tr(F^-1)"
            if R is None or R["cond"] > 1e13:
                ctx.skip(oracle)
                return
            M = R["M"]
            J.condF.append(R["cond"])
            try:
                val = float(result)
            except Exception:  # noqa: BLE001
                val = float("nan")
            # documented quantities: the base class returns Tr[F^-1]/N on the variables; the POVM override adds
            # Tr[S F^-1 S^T]/N for the implied last element, i.e. the bound on the stacked object parameters
            want = R["obj_bound"] if oracle.endswith("object-bound") else R["var_bound"]
            err = abs(val - want) / max(abs(want), 1e-300)
            tp, tf = tol_inv(R["cond"], R["boundary"])
            what = "differs-from-Tr(F^-1)"
            if oracle.endswith("object-bound"):
                what = "differs-from-Tr(J.F^-1.J^T)"
                if abs(val - R["var_bound"]) <= 1e3 * tp * abs(R["var_bound"]):
                    what = "returns-variable-space-bound:implied-last-element-ignored"
            if R["boundary"]:
                oracle_b = "cramer_rao:boundary-rule"
                J.num(oracle_b, err, tp, tf, key=f"{fn}:{M.tag}:p=0:{what}", info={"arg": R["kind"], "cond_F": R["cond"], "got": val, "want": want})
            else:
                J.num(oracle, err, tp, tf, key=f"{fn}:{M.tag}:{what}",
                      info={"arg": R["kind"], "cond_F": R["cond"], "got": val, "want": want, "N": N, "ns": R["ns"][:12]})
        return post

    hook(SQ, "calc_cramer_rao_bound", post_crb(False))
    hook(StandardPovmt, "calc_cramer_rao_bound", post_crb(True))
    return crb_truth


# =========================================================================
# hooks on the helper functions
# =========================================================================

H_TP, H_TF = 1e-12, 1e-9
SIZED_BY_OUTCOMES = "matrix_util.calc_fisher_matrix_total:num-variables!=num-outcomes:result-sized-by-num-outcomes(raises-or-broadcasts)"


def as_float_list(xs):
    return [np.asarray(x, dtype=np.float64) for x in xs]


def se_loops(xs, ys):
    """sum_i sum_k (x_ik - y_ik)^2 by explicit loops"""
    tot = []
    for x, y in zip(xs, ys):
        x = np.asarray(x, dtype=np.float64).ravel()
        y = np.asarray(y, dtype=np.float64).ravel()
        if x.shape != y.shape:
            return None
        tot += [(float(a) - float(b)) ** 2 for a, b in zip(x, y)]
    return math.fsum(tot)


def mean_std_loops(vals):
    """(mean, unbiased sample standard deviation: divisor len-1)"""
    n = len(vals)
    mean = math.fsum(vals) / n
    if n < 2:
        return mean, None
    return mean, math.sqrt(math.fsum((v - mean) ** 2 for v in vals) / (n - 1))


def direct_sum_loops(mats):
    tot = sum(m.shape[0] for m in mats)
    out = [[0.0] * tot for _ in range(tot)]
    o = 0
    for m in mats:
        for i in range(m.shape[0]):
            for j in range(m.shape[1]):
                out[o + i][o + j] = float(m[i, j])
        o += m.shape[0]
    return np.array(out, dtype=np.float64).reshape(tot, tot)


def install_helper_hooks(hs, J):
    import quara.data_analysis.data_analysis as da
    import quara.utils.matrix_util as mu

    ctx = J.ctx

    def real_arrays(*xs):
        try:
            for x in xs:
                a = np.asarray(x)
                if a.dtype == object or np.iscomplexobj(a) or not np.all(np.isfinite(a.astype(np.float64))):
                    return False
            return True
        except Exception:  # noqa: BLE001
            return False

    # ---- covariance --------------------------------------------------------------
    def cov_judge(label, result, q, n, keyfn):
        if not real_arrays(q) or np.asarray(q).ndim != 1 or valid_ns([n], 1) is None:
            ctx.skip(label)
            return
        q = np.asarray(q, dtype=np.float64)
        r = np.asarray(result, dtype=np.float64)
        if is_prob_vector(q):
            want = cov_enum(q, n)
            what = "differs-from-enumeration"
        else:  # not a distribution: only the documented closed form (diag(q) - q q^T)/n is defined
            want = np.array([[((q[i] if i == k else 0.0) - q[i] * q[k]) / n for k in range(q.size)] for i in range(q.size)])
            what = "differs-from-documented-formula"
        err = float(np.max(np.abs(r - want))) * n / max(1.0, float(np.max(np.abs(q))) ** 2) if r.shape == want.shape else float("inf")
        J.num(label, err, 1e-11, 1e-8, key=f"{keyfn}:{what}", info={"n": int(n), "m": int(q.size)})

    hs.function(mu, "calc_covariance_mat", post=lambda res, snap, q, n: cov_judge("matrix_util.calc_covariance_mat", res, q, n, "matrix_util.calc_covariance_mat"))
    hs.function(da, "calc_covariance_matrix_of_prob_dist",
                post=lambda res, snap, prob_dist, data_num: cov_judge("data_analysis.calc_covariance_matrix_of_prob_dist", res, prob_dist, data_num,
                                                                      "data_analysis.calc_covariance_matrix_of_prob_dist"))

    def cov_blocks(label, result, pairs, keyfn):
        """pairs = [(n, q)]: block diagonal of enumerated covariances"""
        ok = all(real_arrays(q) and is_prob_vector(np.asarray(q, dtype=np.float64)) and valid_ns([n], 1) is not None for n, q in pairs)
        if not ok or not pairs:
            ctx.skip(label)
            return
        want = direct_sum_loops([cov_enum(q, n) * n for n, q in pairs])
        scale = np.hstack([[float(n)] * len(q) for n, q in pairs])
        r = np.asarray(result, dtype=np.float64)
        err = float(np.max(np.abs(r * np.sqrt(np.outer(scale, scale)) - want))) if r.shape == want.shape else float("inf")
        J.num(label, err, 1e-11, 1e-8, key=f"{keyfn}:differs-from-enumeration", info={"blocks": len(pairs)})

    hs.function(mu, "calc_covariance_mat_total",
                post=lambda res, snap, empi_dists: cov_blocks("matrix_util.calc_covariance_mat_total", res, [(e[0], e[1]) for e in empi_dists],
                                                              "matrix_util.calc_covariance_mat_total"))
    hs.function(da, "calc_covariance_matrix_of_prob_dists",
                post=lambda res, snap, prob_dists, data_num: cov_blocks("data_analysis.calc_covariance_matrix_of_prob_dists", res,
                                                                        [(data_num, q) for q in prob_dists], "data_analysis.calc_covariance_matrix_of_prob_dists"))

    # ---- direct sum / conjugate / left inverse -----------------------------------------
    def well_formed_blocks(mats):
        try:
            return all(isinstance(m, np.ndarray) and m.ndim == 2 and m.shape[0] == m.shape[1] and real_arrays(m) for m in mats) and len(mats) > 0
        except Exception:  # noqa: BLE001
            return False

    def post_dsum(result, snap, matrices):
        if well_formed_blocks(matrices):
            want = direct_sum_loops(matrices)
            r = np.asarray(result)
            ok = r.shape == want.shape and np.array_equal(r.astype(np.float64), want)
            ctx.truth("matrix_util.calc_direct_sum", ok, key="matrix_util.calc_direct_sum:differs-from-block-diagonal", info={"blocks": len(matrices)})
        else:
            shapes = [tuple(np.shape(m)) for m in matrices]
            cls = "non-2d" if any(len(s) != 2 for s in shapes) else "non-square"
            ctx.truth("matrix_util.calc_direct_sum:rejects-malformed", False, key=f"matrix_util.calc_direct_sum:{cls}-accepted",
                      info={"shapes": shapes, "documented": "ValueError"})

    def exc_dsum(exc, snap, matrices):
        if well_formed_blocks(matrices):
            ctx.truth("matrix_util.calc_direct_sum", False, key=f"matrix_util.calc_direct_sum:raises-{type(exc).__name__}-on-square-blocks")
        else:
            ctx.truth("matrix_util.calc_direct_sum:rejects-malformed", isinstance(exc, ValueError),
                      key=f"matrix_util.calc_direct_sum:malformed-raises-{type(exc).__name__}-not-ValueError")

    hs.function(mu, "calc_direct_sum", post=post_dsum, on_exc=exc_dsum)

    def post_conj(result, snap, x, v):
        if not real_arrays(x, v) or np.ndim(x) != 2 or np.ndim(v) != 2:
            ctx.skip("matrix_util.calc_conjugate")
            return
        x = np.asarray(x, dtype=np.float64)
        v = np.asarray(v, dtype=np.float64)
        want = np.einsum("ia,ab,jb->ij", x, v, x)
        sc = max(1e-300, float(np.max(np.abs(x))) ** 2 * float(np.max(np.abs(v))) * x.shape[1] ** 2) if x.size and v.size else 1.0
        r = np.asarray(result, dtype=np.float64)
        err = float(np.max(np.abs(r - want))) / sc if r.shape == want.shape else float("inf")
        J.num("matrix_util.calc_conjugate", err, H_TP, H_TF, key="matrix_util.calc_conjugate:differs-from-x.v.x^T")

    hs.function(mu, "calc_conjugate", post=post_conj)

    def left_inv_class(A):
        A = np.asarray(A, dtype=np.float64)
        if A.ndim != 2 or A.shape[0] < A.shape[1]:
            return "wide", None
        s = np.linalg.svd(A, compute_uv=False)
        if s[-1] <= 1e-13 * s[0]:
            return "rank-deficient", None
        if s[-1] <= 1e-7 * s[0]:
            return "free", None
        return "full", float(s[0] / s[-1])

    def post_linv(result, snap, matrix):
        if not real_arrays(matrix):
            ctx.skip("matrix_util.calc_left_inv")
            return
        cls, kappa = left_inv_class(matrix)
        if cls == "full":
            A = np.asarray(matrix, dtype=np.float64)
            L = np.asarray(result, dtype=np.float64)
            err = float(np.max(np.abs(L @ A - np.eye(A.shape[1])))) if L.shape == A.T.shape else float("inf")
            tp, tf = tol_lin(kappa)
            J.num("matrix_util.calc_left_inv", err, tp, tf, key="matrix_util.calc_left_inv:L.A!=I", info={"kappa": kappa, "shape": list(A.shape)})
        elif cls == "rank-deficient":
            ctx.truth("matrix_util.calc_left_inv:rejects-rank-deficient", False, key="matrix_util.calc_left_inv:rank-deficient-accepted",
                      info={"shape": list(np.shape(matrix))})
        else:
            ctx.skip("matrix_util.calc_left_inv")

    def exc_linv(exc, snap, matrix):
        if not real_arrays(matrix):
            return
        cls, kappa = left_inv_class(matrix)
        if cls == "full":
            ctx.truth("matrix_util.calc_left_inv", False, key=f"matrix_util.calc_left_inv:raises-{type(exc).__name__}-on-full-column-rank")
        elif cls == "rank-deficient":
            ctx.truth("matrix_util.calc_left_inv:rejects-rank-deficient", isinstance(exc, ValueError),
                      key=f"matrix_util.calc_left_inv:rank-deficient-raises-{type(exc).__name__}-not-ValueError")

    hs.function(mu, "calc_left_inv", post=post_linv, on_exc=exc_linv)

    # ---- Fisher helpers ---------------------------------------------------------------
    def post_replace(result, snap, prob_dist, eps=None):
        e = 1e-8 if eps is None else eps
        if not real_arrays(prob_dist) or np.ndim(prob_dist) != 1 or np.count_nonzero(np.asarray(prob_dist) < e) == len(prob_dist):
            ctx.skip("matrix_util.replace_prob_dist")
            return
        p = np.asarray(prob_dist, dtype=np.float64)
        want = replace_rule(p, e)
        r = np.asarray(result, dtype=np.float64)
        J.num("matrix_util.replace_prob_dist", float(np.max(np.abs(r - want))) if r.shape == want.shape else float("inf"), 1e-15, 1e-12,
              key="matrix_util.replace_prob_dist:differs-from-rule")
        # what the rule is for: small entries lifted to eps, kept mass conserved
        kept = float(sum(x for x in p if x >= e))
        J.num("matrix_util.replace_prob_dist:mass-conserved", abs(float(r.sum()) - kept), 1e-14, 1e-11,
              key="matrix_util.replace_prob_dist:mass-not-conserved")

    hs.function(mu, "replace_prob_dist", post=post_replace)

    def fisher_args_ok(p, G, eps):
        try:
            p = np.asarray(p, dtype=np.float64)
            G = np.asarray([np.asarray(g, dtype=np.float64) for g in G])
        except Exception:  # noqa: BLE001
            return None
        if p.ndim != 1 or G.ndim != 2 or G.shape[0] != p.shape[0] or not (eps > 0):
            return None
        if np.any(p < -eps) or abs(float(p.sum()) - 1.0) > eps or np.count_nonzero(p < eps) == p.size:
            return None
        return p, G

    def post_fisher(result, snap, prob_dist, grad_prob_dist, eps=None):
        e = 1e-8 if eps is None else eps
        ok = fisher_args_ok(prob_dist, grad_prob_dist, e)
        if ok is None:
            ctx.skip("matrix_util.calc_fisher_matrix")
            return
        p, G = ok
        want = fisher_ref(p, G, e)
        boundary = bool(np.any(p < e))
        J.num("matrix_util.calc_fisher_matrix", rel(result, want), 1e-6 if boundary else 1e-11, 1e-4 if boundary else 1e-8,
              key="matrix_util.calc_fisher_matrix:" + ("p<eps:differs-from-replace_prob_dist-rule" if boundary else "differs-from-E[score.score^T]"))

    def exc_fisher(exc, snap, prob_dist, grad_prob_dist, eps=None):
        e = 1e-8 if eps is None else eps
        try:
            ok = fisher_args_ok(prob_dist, grad_prob_dist, e)
        except Exception:  # noqa: BLE001
            ok = None
        if ok is not None:
            ctx.truth("matrix_util.calc_fisher_matrix", False, key=f"matrix_util.calc_fisher_matrix:raises-{type(exc).__name__}-on-valid-input")

    hs.function(mu, "calc_fisher_matrix", post=post_fisher, on_exc=exc_fisher)

    def ftot_args(prob_dists, grads, weights, eps):
        e = 1e-8 if eps is None else eps
        try:
            if not (len(prob_dists) == len(grads) == len(weights)) or len(prob_dists) == 0:
                return None
            items = [fisher_args_ok(p, G, e) for p, G in zip(prob_dists, grads)]
            ws = [float(w) for w in weights]
        except Exception:  # noqa: BLE001
            return None
        if any(i is None for i in items) or any(w < 0 for w in ws) or len({i[1].shape[1] for i in items}) != 1:
            return None
        return items, ws, e

    def shape_class(items):
        return "num-variables=num-outcomes" if items[0][1].shape[1] == items[0][0].shape[0] else "num-variables!=num-outcomes"

    def post_ftot(result, snap, prob_dists, grad_prob_dists, weights, eps=None):
        ok = ftot_args(prob_dists, grad_prob_dists, weights, eps)
        if ok is None:
            ctx.skip("matrix_util.calc_fisher_matrix_total")
            return
        items, ws, e = ok
        want = sum(w * fisher_ref(p, G, e) for w, (p, G) in zip(ws, items))
        boundary = any(bool(np.any(p < e)) for p, _ in items)
        m0, nv = items[0][0].shape[0], items[0][1].shape[1]
        if nv != m0 and np.shape(result) == (m0, m0):
            # mechanism class: the accumulator is allocated with the number of outcomes of the first distribution
            ctx.truth("matrix_util.calc_fisher_matrix_total", False, key=SIZED_BY_OUTCOMES, info={"num_outcomes": m0, "num_variables": nv, "how": "broadcast"})
            return
        J.num("matrix_util.calc_fisher_matrix_total", rel(result, want), 1e-6 if boundary else 1e-11, 1e-4 if boundary else 1e-8,
              key=f"matrix_util.calc_fisher_matrix_total:{shape_class(items)}:differs-from-weighted-sum")

    def exc_ftot(exc, snap, prob_dists, grad_prob_dists, weights, eps=None):
        ok = ftot_args(prob_dists, grad_prob_dists, weights, eps)
        if ok is not None:
            m0, nv = int(ok[0][0][0].shape[0]), int(ok[0][0][1].shape[1])
            key = f"matrix_util.calc_fisher_matrix_total:{shape_class(ok[0])}:raises-{type(exc).__name__}-on-valid-input"
            if nv != m0 and isinstance(exc, ValueError) and "broadcast" in str(exc):
                key = SIZED_BY_OUTCOMES
            ctx.truth("matrix_util.calc_fisher_matrix_total", False, key=key, info={"num_outcomes": m0, "num_variables": nv, "how": "raises " + type(exc).__name__})

    hs.function(mu, "calc_fisher_matrix_total", post=post_ftot, on_exc=exc_ftot)

    # ---- sample statistics --------------------------------------------------------------
    def post_se(result, snap, xs, ys):
        try:
            ok = len(xs) == len(ys) and all(real_arrays(x, y) for x, y in zip(xs, ys))
            want = se_loops(xs, ys) if ok else None
        except Exception:  # noqa: BLE001
            want = None
        if want is None:
            ctx.skip("matrix_util.calc_se")
            return
        J.num("matrix_util.calc_se", abs(float(result) - want) / max(want, 1e-300) if want > 0 else abs(float(result)), H_TP, H_TF,
              key="matrix_util.calc_se:differs-from-sum-of-squared-differences", info={"n_arrays": len(xs)})

    hs.function(mu, "calc_se", post=post_se)

    def post_mse_pd(result, snap, xs_list, ys_list):
        try:
            ses = [se_loops(xs, ys) if len(xs) == len(ys) else None for xs, ys in zip(xs_list, ys_list)]
            ok = len(xs_list) == len(ys_list) and len(ses) >= 2 and all(s is not None for s in ses)
        except Exception:  # noqa: BLE001
            ok = False
        if not ok:
            ctx.skip("matrix_util.calc_mse_prob_dists")
            return
        mean, std = mean_std_loops(ses)
        try:
            gm, gs = float(result[0]), float(result[1])
        except Exception:  # noqa: BLE001
            gm = gs = float("nan")
        sc = max(mean, 1e-300)
        J.num("matrix_util.calc_mse_prob_dists", abs(gm - mean) / sc, H_TP, H_TF, key="matrix_util.calc_mse_prob_dists:mean-differs", info={"n_rep": len(ses)})
        J.num("matrix_util.calc_mse_prob_dists:std", abs(gs - std) / sc, 1e-11, 1e-8,
              key="matrix_util.calc_mse_prob_dists:std-is-not-the-unbiased-sample-std(ddof=1)", info={"n_rep": len(ses), "got": gs, "want": std})

    hs.function(mu, "calc_mse_prob_dists", post=post_mse_pd)

    def post_mse_qops(result, snap, xs, ys, mode="qoperation", with_std=True):
        if mode != "qoperation":
            return
        try:
            pts = []
            for x, y in zip(xs, ys):
                a, b = raw_flat(x), raw_flat(y)
                if a.shape != b.shape:
                    raise ValueError
                pts.append(math.fsum((float(u) - float(v)) ** 2 for u, v in zip(a, b)))
        except Exception:  # noqa: BLE001
            pts = []
        if len(pts) < (2 if with_std else 1) or len(xs) != len(ys):
            ctx.skip("data_analysis.calc_mse_qoperations")
            return
        mean, std = mean_std_loops(pts)
        sc = max(mean, 1e-300)
        try:
            gm = float(result[0]) if with_std else float(result)
            gs = float(result[1]) if with_std else None
        except Exception:  # noqa: BLE001
            gm, gs = float("nan"), float("nan")
        J.num("data_analysis.calc_mse_qoperations", abs(gm - mean) / sc, H_TP, H_TF,
              key="data_analysis.calc_mse_qoperations:mean-differs-from-mean-squared-distance-of-stacked-vectors",
              info={"n": len(pts), "type": gen.type_of(xs[0])})
        if with_std:
            J.num("data_analysis.calc_mse_qoperations:std", abs(gs - std) / sc, 1e-11, 1e-8,
                  key="data_analysis.calc_mse_qoperations:std-is-not-the-unbiased-sample-std(ddof=1)", info={"n": len(pts)})

    hs.function(da, "calc_mse_qoperations", post=post_mse_qops)

    def post_gen_norm(result, snap, xs, y, norm_function):
        try:
            with hs.paused():
                vals = [float(norm_function(x, y)) ** 2 for x in xs]
        except Exception:  # noqa: BLE001
            vals = []
        if not vals:
            ctx.skip("data_analysis.calc_mse_general_norm")
            return
        mean = math.fsum(vals) / len(vals)
        J.num("data_analysis.calc_mse_general_norm", abs(float(result) - mean) / max(mean, 1e-300), H_TP, H_TF,
              key="data_analysis.calc_mse_general_norm:differs-from-mean-of-squared-norms")

    hs.function(da, "calc_mse_general_norm", post=post_gen_norm)


def install_checker_hooks(hs, J):
    """quara.loss_function.mean_squared_error: the yardstick comparisons |MSE_sample - MSE_analytical| < 3 sigma.
    Judged: the sample statistics and the comparison, given the library's own analytical value (which is judged by
    its own contract above, so that a wrong formula is reported once, under its own key)."""
    import quara.loss_function.mean_squared_error as mse_mod

    ctx = J.ctx

    def verdict(label, key, got, triples):
        """triples = [(sample mse, sigma, analytical)]"""
        want = True
        for m, s, a in triples:
            gap = abs(m - a) - 3.0 * s
            if abs(gap) <= 1e-9 * max(abs(m), abs(a), 3.0 * s, 1e-300):
                ctx.skip(label)
                return
            want = want and (gap < 0)
        ctx.truth(label, bool(got) == want, key=key + (":accepts-beyond-3-sigma" if got else ":rejects-within-3-sigma"),
                  info={"triples": [[float(x) for x in t] for t in triples][:6]})

    def post_cmp(result, snap, simulation_setting, estimation_results, qtomography, show_detail=True):
        try:
            qt, true = qtomography, simulation_setting.true_object
            K = qt.num_schedules
            o_true = raw_flat(true)
            triples = []
            for i, num in enumerate(simulation_setting.num_data):
                pts = [float(np.sum((raw_flat(r.estimated_qoperation_sequence[i]) - o_true) ** 2)) for r in estimation_results]
                mean, std = mean_std_loops(pts)
                ana = float(qt.calc_mse_linear_analytical(true, [num] * K))
                triples.append((mean, std, ana))
        except Exception:  # noqa: BLE001
            ctx.skip("mean_squared_error.compare_to_analytical")
            return
        verdict("mean_squared_error.compare_to_analytical", "mean_squared_error.compare_to_analytical", result, triples)

    hs.function(mse_mod, "compare_to_analytical", post=post_cmp)

    def post_emp(result, snap, simulation_result, show_detail=True):
        try:
            st = simulation_result.simulation_setting
            qt, true = simulation_result.qtomography, st.true_object
            K = qt.num_schedules
            ps = [np.asarray(q, dtype=np.float64) for q in qt.calc_prob_dists(true)]
            triples = []
            for i, num in enumerate(st.num_data):
                ses = [se_loops([d[1] for d in rep[i]], ps) for rep in simulation_result.empi_dists_sequences]
                mean, std = mean_std_loops(ses)
                ana = float(qt.calc_mse_empi_dists_analytical(true, [num] * K))
                triples.append((mean, std, ana))
        except Exception:  # noqa: BLE001
            ctx.skip("mean_squared_error.check_mse_of_empirical_distributions")
            return
        verdict("mean_squared_error.check_mse_of_empirical_distributions", "mean_squared_error.check_mse_of_empirical_distributions", result, triples)

    hs.function(mse_mod, "check_mse_of_empirical_distributions", post=post_emp)


# =========================================================================
# workload
# =========================================================================


def n_povms_min(d, m):
    return int(math.ceil((d * d - 1) / (m - 1)))


def projective_sets(d, m, rng):
    u = ref.rand_unitary(d, rng)
    groups = np.array_split(np.arange(d), min(m, d))
    ps = [sum(np.outer(u[:, i], u[:, i].conj()) for i in g) for g in groups]
    while len(ps) < m:
        ps.append(np.zeros((d, d), dtype=complex))
    return ps


def draw_true(tomo, d, m, rng, kind):
    """operators of the true object; kinds: interior (full rank), rankdef (boundary of the physical set, all
    probabilities positive for generic testers), sharp (pure / rank-one elements / unitary / projective)"""
    if tomo == "qst":
        if kind == "interior":
            return {"rho": ref.rand_density(d, rng)}
        if kind == "rankdef":
            return {"rho": ref.rand_density(d, rng, max(1, d - 1))}
        return {"rho": ref.rand_density(d, rng, 1)}
    if tomo == "povmt":
        if kind == "interior":
            return {"ms": ref.rand_povm(d, m, rng)}
        if kind == "rankdef" or m > d:
            return {"ms": ref.rand_povm(d, m, rng, max(1, int(math.ceil(d / m))))}
        return {"ms": projective_sets(d, m, rng)}
    if tomo == "qpt":
        if kind == "interior":
            return {"sets": [ref.rand_kraus(d, d * d, rng)]}
        if kind == "rankdef":
            return {"sets": [ref.rand_kraus(d, 2, rng)]}
        return {"sets": [[ref.rand_unitary(d, rng)]]}
    if kind == "interior":
        return {"sets": ref.rand_instrument(d, m, rng, [d * d] * m)}
    if kind == "rankdef":
        return {"sets": ref.rand_instrument(d, m, rng, [int(rng.integers(1, 3)) for _ in range(m)])}
    return {"sets": [[p] for p in projective_sets(d, m, rng)]}


def make_true(tomo, c_sys, ops, **kw):
    if tomo == "qst":
        return gen.make_state(c_sys, ops["rho"], **kw)
    if tomo == "povmt":
        return gen.make_povm(c_sys, ops["ms"], **kw)
    if tomo == "qpt":
        return gen.make_gate(c_sys, kraus=ops["sets"][0], **kw)
    return gen.make_mprocess(c_sys, kraus_sets=ops["sets"], **kw)


def build_qt(tomo, states, povms, m_true, flag):
    from quara.protocol.qtomography.standard.standard_povmt import StandardPovmt
    from quara.protocol.qtomography.standard.standard_qmpt import StandardQmpt
    from quara.protocol.qtomography.standard.standard_qpt import StandardQpt
    from quara.protocol.qtomography.standard.standard_qst import StandardQst

    if tomo == "qst":
        return StandardQst(povms, on_para_eq_constraint=flag, schedules="all")
    if tomo == "povmt":
        return StandardPovmt(states, m_true, on_para_eq_constraint=flag, schedules="all")
    if tomo == "qpt":
        return StandardQpt(states, povms, on_para_eq_constraint=flag, schedules="all")
    return StandardQmpt(states, povms, m_true, on_para_eq_constraint=flag, schedules="all")


def kernel_vector(M):
    """unit eigenvector of the smallest eigenvalue of a PSD matrix, and that eigenvalue"""
    w, v = np.linalg.eigh(ref.herm_part(M))
    return v[:, 0], float(w[0])


def aligned_povm(d, m, phi, rng):
    """m-outcome POVM whose first element is a multiple of |phi><phi| (so a state orthogonal to phi never
    gives outcome 0)"""
    P = np.outer(phi, phi.conj())
    a = 1.0 if (m == 2 and rng.random() < 0.5) else float(rng.uniform(0.3, 0.9))
    E0 = a * P
    S = np.eye(d) - E0
    Sh = ref.sqrtm_psd(S)
    rest = ref.rand_povm(d, m - 1, rng) if m > 2 else [np.eye(d, dtype=complex)]
    return [E0] + [ref.herm_part(Sh @ R @ Sh) for R in rest]


def draw_testers(tomo, d, m_pv, rng, extra_s, extra_p, ops, aligned):
    """(state matrices, POVM matrices).  With `aligned`, the first tester is chosen so that the true object gives
    probability exactly 0 to some outcome of every schedule that uses it."""
    uses_states, uses_povms = tomo != "qst", tomo != "povmt"
    st = []
    pv = []
    if uses_states:
        kind = str(rng.choice(["random", "pure", "mixed-rank"]))
        for _ in range(d * d + extra_s):
            r = 1 if kind == "pure" else (int(rng.integers(1, d + 1)) if kind == "mixed-rank" else None)
            st.append(ref.rand_density(d, rng, r))
    if uses_povms:
        for _ in range(n_povms_min(d, m_pv) + extra_p):
            pv.append(ref.rand_povm(d, m_pv, rng, 1 if (m_pv >= d and rng.random() < 0.25) else None))
    if aligned:
        if tomo == "qst":
            phi, _ = kernel_vector(ops["rho"])
            pv[0] = aligned_povm(d, m_pv, phi, rng)
        elif tomo == "povmt":
            x = int(rng.integers(0, len(ops["ms"])))
            phi, _ = kernel_vector(ops["ms"][x])
            st[0] = np.outer(phi, phi.conj())
        elif tomo == "qpt":
            psi = ref.rand_density(d, rng, 1)
            st[0] = psi
            out = ref.kraus_map(ops["sets"][0])(psi)
            phi, _ = kernel_vector(out)
            pv[0] = aligned_povm(d, m_pv, phi, rng)
        else:
            x = int(rng.integers(0, len(ops["sets"])))
            G = sum(ref.dag(k) @ k for k in ops["sets"][x])  # Tr[K rho K^+] = Tr[G rho]
            phi, _ = kernel_vector(G)
            st[0] = np.outer(phi, phi.conj())
    return st, pv


def sample_sizes(rng, K, sizes):
    """the four sample-size lists of a case"""
    nm = [n_enum_max(m) for m in sizes]
    mixed = [int(rng.integers(1, nm[j] + 1)) for j in range(K)]
    if K >= 2 and len(set(mixed)) == 1 and min(nm) >= 2:
        j = int(rng.integers(0, K))
        mixed[j] = mixed[j] % nm[j] + 1
    eq = int(rng.integers(1, min(nm) + 1))
    c = int(rng.choice([10, 1000]))
    large = [int(round(10 ** rng.uniform(1, 5))) for _ in range(K)]
    return {"mixed": mixed, "equal": [eq] * K, "scaled": [c * n for n in mixed], "large": large}, c


def drive_helpers(ctx, rng, tag):
    """direct calls of the helper functions on random inputs (judged by their hooks)"""
    import quara.data_analysis.data_analysis as da
    import quara.utils.matrix_util as mu

    def call(label, fn, *a, expect_raise=False, **kw):
        ok, val = ctx.attempt(fn, *a, **kw)
        if not ok and not expect_raise:
            ctx.count(f"helper-raised:{label}:{type(val).__name__}")
        return ok, val

    # squared error / mean / std
    k = int(rng.integers(1, 5))
    xs = [rng.standard_normal(int(rng.integers(1, 6))) for _ in range(k)]
    ys = [x + rng.standard_normal(x.shape) * 10 ** rng.uniform(-6, 0) for x in xs]
    call("calc_se", mu.calc_se, xs, ys)
    R = int(rng.integers(2, 7))
    m = int(rng.integers(2, 5))
    pl = [[rng.dirichlet(np.ones(m)) for _ in range(k)] for _ in range(R)]
    ql = [[rng.dirichlet(np.ones(m)) for _ in range(k)]] * R
    call("calc_mse_prob_dists", mu.calc_mse_prob_dists, pl, ql)
    y = rng.standard_normal(3)
    order = int(rng.integers(1, 3))
    call("calc_mse_general_norm", da.calc_mse_general_norm, [y + rng.standard_normal(3) for _ in range(R)], y,
         lambda a, b: float(np.linalg.norm(a - b, ord=order)))
    # direct sum
    blocks = [rng.standard_normal((s, s)) for s in rng.integers(1, 5, size=int(rng.integers(1, 5)))]
    call("calc_direct_sum", mu.calc_direct_sum, blocks)
    bad = int(rng.integers(0, 4))
    if bad == 0:
        call("calc_direct_sum", mu.calc_direct_sum, [rng.standard_normal((3, 1)), np.eye(2)], expect_raise=True)
    elif bad == 1:
        call("calc_direct_sum", mu.calc_direct_sum, [np.eye(2), rng.standard_normal((2, 3))], expect_raise=True)
    elif bad == 2:
        call("calc_direct_sum", mu.calc_direct_sum, [np.eye(2), rng.standard_normal(3)], expect_raise=True)
    # conjugate / left inverse
    r, c = int(rng.integers(1, 6)), int(rng.integers(1, 6))
    call("calc_conjugate", mu.calc_conjugate, rng.standard_normal((r, c)), rng.standard_normal((c, c)))
    c = int(rng.integers(1, 6))
    r = c + int(rng.integers(0, 5))
    A = rng.standard_normal((r, c))
    if np.linalg.cond(A) < 100:
        call("calc_left_inv", mu.calc_left_inv, A)
    if c >= 2 and rng.random() < 0.5:
        A2 = A.copy()
        A2[:, -1] = A2[:, 0] * 2.0  # exactly rank deficient
        call("calc_left_inv", mu.calc_left_inv, A2, expect_raise=True)
    # covariance of a distribution
    m = int(rng.integers(2, 5))
    q = rng.dirichlet(np.ones(m))
    if rng.random() < 0.3:
        q[int(rng.integers(0, m))] = 0.0
        q = q / q.sum()
    n = int(rng.integers(1, 9)) if rng.random() < 0.7 else int(round(10 ** rng.uniform(1, 5)))
    call("calc_covariance_mat", mu.calc_covariance_mat, q, n)
    call("calc_covariance_matrix_of_prob_dist", da.calc_covariance_matrix_of_prob_dist, q, n)
    if rng.random() < 0.3:
        call("calc_covariance_mat", mu.calc_covariance_mat, rng.standard_normal(m), n)
    dists = [rng.dirichlet(np.ones(int(rng.integers(2, 5)))) for _ in range(int(rng.integers(1, 4)))]
    call("calc_covariance_mat_total", mu.calc_covariance_mat_total, [(int(rng.integers(1, 9)), p) for p in dists])
    call("calc_covariance_matrix_of_prob_dists", da.calc_covariance_matrix_of_prob_dists, dists, n)
    # Fisher helpers: number of variables independent of the number of outcomes
    nv = int(rng.integers(1, 6))
    S = int(rng.integers(1, 4))
    m = int(rng.integers(2, 5))
    ps, gs = [], []
    for _ in range(S):
        p = rng.dirichlet(np.ones(m))
        if rng.random() < 0.3:
            p[int(rng.integers(0, m))] = 0.0
            p = p / p.sum()
        ps.append(p)
        gs.append([rng.standard_normal(nv) for _ in range(m)])
    eps = None if rng.random() < 0.6 else float(10 ** rng.uniform(-10, -4))
    call("replace_prob_dist", mu.replace_prob_dist, ps[0]) if eps is None else call("replace_prob_dist", mu.replace_prob_dist, ps[0], eps)
    call("calc_fisher_matrix", mu.calc_fisher_matrix, ps[0], gs[0], eps=eps)
    ws = list(rng.uniform(0.1, 3.0, size=S))
    call("calc_fisher_matrix_total", mu.calc_fisher_matrix_total, ps, gs, ws, eps=eps)
    gs2 = [[rng.standard_normal(m) for _ in range(m)] for _ in range(S)]
    call("calc_fisher_matrix_total", mu.calc_fisher_matrix_total, ps, gs2, ws, eps=eps)


# =========================================================================
# history / combination steps
# =========================================================================

HISTORY_STEPS = ["second-call", "second-true-object", "transient-true-object", "twin-tomography", "via-pickle",
                 "helpers:re-query", "returned-arrays-stable"]
PROVENANCES = ["ctor-options", "via-copy", "via-generate_from_var", "via-convert_var_to_qoperation", "via-pickle"]


class PhaseKeys:
    """Key suffixes for history steps.  While a step is active (`with ph.step(name)`) every violation recorded through
    ctx.num / ctx.truth / ctx.violation - by a hook or by the driver - whose key was NOT already produced by the ordinary
    (fresh-object, first-call) part of the same case gets the suffix ':<name>': such a key can only come from the
    history.  Within a case a key keeps the suffix of the step that showed it first."""

    def __init__(self, ctx):
        self.ctx, self.cur, self.detail, self.fresh, self.first = ctx, None, None, set(), {}
        self.cpu = {}  # CPU seconds per step: cost information for the evidence, never used in a verdict
        self._orig = ctx.violation
        ctx.violation = self._violation  # instance attribute: ctx.num / ctx.truth call self.violation

    def _violation(self, key, info=None):
        if self.cur is None:
            self.fresh.add(key)
        elif key not in self.fresh:
            if isinstance(info, dict):
                info = dict(info, history_step=self.cur + (f"[{self.detail}]" if self.detail else ""))
            key = f"{key}:{self.first.setdefault(key, self.cur)}"
        self._orig(key, info)

    def new_case(self):
        self.cur, self.fresh, self.first = None, set(), {}

    @contextlib.contextmanager
    def step(self, name, detail=None):
        """`detail` (provenance of an object, constructor options used) goes into the witness, not into the key"""
        prev, self.cur, self.detail = (self.cur, self.detail), name, detail
        self.ctx.count("history-step:" + name)
        if detail:
            self.ctx.count(f"history-step:{name}[{detail}]")
        t0 = time.process_time()
        try:
            yield
        finally:
            self.cur, self.detail = prev
            self.cpu[name] = self.cpu.get(name, 0.0) + time.process_time() - t0

    def restore(self):
        self.ctx.__dict__.pop("violation", None)


class Keeper:
    """array results handed out by the library, with their bytes at the time they were returned.  A matrix that was
    the exact expectation when it was returned and is something else after later library calls (a result aliasing a
    cache or a re-used buffer) is no longer what the statement says it is; nothing is recomputed here, the array is
    compared with its own earlier bytes."""

    def __init__(self):
        self.items = []

    def clear(self):
        self.items = []

    def add(self, label, tag, val):
        if isinstance(val, np.ndarray) and val.size and len(self.items) < 400:
            self.items.append((label, tag, val, val.tobytes()))

    def judge(self, ctx):
        for label, tag, val, b in self.items:
            ctx.truth("returned-array-unchanged-by-later-calls", val.tobytes() == b,
                      key=f"{label}:{tag}:returned-array-changed-by-later-calls")


def hist_sizes(rh, sizes):
    """sample sizes for the history steps: every schedule is enumerated at n0 = 1 or 2 shots (directly, or through the
    1/n scaling from a size beyond the enumeration range), so a NEW (tomography, true object) pair costs K small
    enumerations; at least two different values"""
    ns = []
    for m in sizes:
        nm = n_enum_max(m)
        n0 = 2 if (nm >= 2 and rh.random() < 0.3) else 1
        n = n0 if rh.random() < 0.5 else nm * int(rh.integers(2, 40)) + (n0 - 1)
        ns.append(int(n) if enum_n(n, m) == n0 else n0)
    if len(ns) >= 2 and len(set(ns)) == 1:
        ns[0] = n_enum_max(sizes[0]) * 41
    return ns


TRUE_OPTIONS = [
    {"is_estimation_object": True},
    {"on_algo_eq_constraint": False, "on_algo_ineq_constraint": False},
    {"mode_proj_order": "ineq_eq"},
    {"eps_proj_physical": 1e-3},
    {"eps_truncate_imaginary_part": 1e-9},
]


def second_true_object(ctx, rh, tomo, c_sys, d, m_true, flag, qt, true, prov):
    """a true object of another kind that is NOT a plain constructor call with default options"""
    kind = str(rh.choice(["interior", "rankdef", "sharp"]))
    ops2 = draw_true(tomo, d, m_true, rh, kind)
    kw = {}
    for o in TRUE_OPTIONS:
        if rh.random() < 0.4:
            kw.update(o)
    ok, o2 = ctx.attempt(make_true, tomo, c_sys, ops2, on_para_eq_constraint=flag, **kw)
    if not ok:  # a constructor that refuses an option is not this property's business
        ctx.count(f"recorded-not-judged:true-object-ctor-refuses-options:{type(o2).__name__}")
        o2 = make_true(tomo, c_sys, ops2, on_para_eq_constraint=flag)
    if prov == "ctor-options":
        return o2
    if prov == "via-copy":
        fn = lambda: o2.copy()  # noqa: E731
    elif prov == "via-generate_from_var":
        fn = lambda: true.generate_from_var(np.array(o2.to_var()))  # noqa: E731
    elif prov == "via-convert_var_to_qoperation":
        fn = lambda: qt.convert_var_to_qoperation(np.array(o2.to_var()))  # noqa: E731
    else:
        fn = lambda: pickle.loads(pickle.dumps(o2))  # noqa: E731
    ok, o3 = ctx.attempt(fn)
    if not ok:
        ctx.count(f"recorded-not-judged:true-object-{prov}-raises:{type(o3).__name__}")
        return o2
    return o3


def build_twin(ctx, rh, tomo, qt, states, povms, m_true, flag):
    """second tomography of the same class, flag and sizes from the SAME tester objects, schedules given explicitly in
    reversed order (rows of A permuted: same rank, same condition number), non-default constructor options"""
    from quara.protocol.qtomography.standard.standard_povmt import StandardPovmt
    from quara.protocol.qtomography.standard.standard_qmpt import StandardQmpt
    from quara.protocol.qtomography.standard.standard_qpt import StandardQpt
    from quara.protocol.qtomography.standard.standard_qst import StandardQst

    kw = {"on_para_eq_constraint": flag, "schedules": [list(s) for s in qt.experiment.schedules][::-1]}
    opts = []
    for name, val in (("is_estimation_object", True), ("eps_proj_physical", 1e-3), ("eps_truncate_imaginary_part", 1e-9),
                      ("seed_data", int(rh.integers(0, 2**31)))):
        if rh.random() < 0.5:
            kw[name] = val
            opts.append(name)
    if tomo == "qst":
        fn = lambda: StandardQst(povms, **kw)  # noqa: E731
    elif tomo == "povmt":
        fn = lambda: StandardPovmt(states, m_true, **kw)  # noqa: E731
    elif tomo == "qpt":
        fn = lambda: StandardQpt(states, povms, **kw)  # noqa: E731
    else:
        fn = lambda: StandardQmpt(states, povms, m_true, **kw)  # noqa: E731
    ok, q2 = ctx.attempt(fn)
    return (q2 if ok else None), opts, (None if ok else q2)


def ask_all(call, tag, qt, obj, ns, N, ws, js, var_arr=None, level="full"):
    """formulas for (qt, obj, ns); `js` = schedules for the per-schedule formulas.
    full : every public formula once;
    lite : object-space MSE of the linear estimate (its nested calls - variable-space MSE, covariance of the linear
           estimate, total and per-schedule covariance of every schedule - are judged by their own hooks), MSE of the
           empirical distributions, Cramer-Rao bound (nested: total and per-schedule Fisher matrices), one direct
           per-schedule covariance and Fisher matrix;
    micro: no linear-estimate formula (nothing has to be enumerated through the estimator for a new pair)"""
    for j in (js if level == "full" else js[:1]):
        call("calc_covariance_mat_single", tag, qt.calc_covariance_mat_single, obj, j, ns[j])
        call("calc_fisher_matrix", tag, qt.calc_fisher_matrix, j, obj)
    if level == "full":
        call("calc_covariance_mat_total", tag, qt.calc_covariance_mat_total, obj, ns)
        call("calc_covariance_linear_mat_total", tag, qt.calc_covariance_linear_mat_total, obj, ns)
        call("calc_mse_linear_analytical", tag, qt.calc_mse_linear_analytical, obj, ns, mode="var")
        call("calc_fisher_matrix_total", tag, qt.calc_fisher_matrix_total, obj, ws)
    if level != "micro":
        call("calc_mse_linear_analytical", tag, qt.calc_mse_linear_analytical, obj, ns, mode="qoperation")
        call("calc_mse_empi_dists_analytical", tag, qt.calc_mse_empi_dists_analytical, obj, ns)
    call("calc_cramer_rao_bound", tag, qt.calc_cramer_rao_bound, obj, N, ns)
    if var_arr is not None:
        call("calc_fisher_matrix", tag, qt.calc_fisher_matrix, js[0], var_arr)
        if level != "micro":
            call("calc_cramer_rao_bound", tag, qt.calc_cramer_rao_bound, var_arr, N, ns)


def drive_helpers_history(ctx, rh, keep):
    """helper functions asked again: same input with another option / size, ANOTHER input of the same shape in between,
    then the first input again (every call is judged by the helper's own hook; array results are kept for the
    returned-arrays-stable step)"""
    import quara.data_analysis.data_analysis as da
    import quara.utils.matrix_util as mu

    def call(label, fn, *a, **kw):
        ok, val = ctx.attempt(fn, *a, **kw)
        if not ok:
            ctx.count(f"helper-raised:{label}:{type(val).__name__}")
            return None
        keep.add("matrix_util." + label if fn.__module__.endswith("matrix_util") else "data_analysis." + label, "helper", val)
        return val

    m = int(rh.integers(2, 5))
    q1, q2 = rh.dirichlet(np.ones(m)), rh.dirichlet(np.ones(m))
    n1, n2 = int(rh.integers(1, 9)), int(rh.integers(9, 5000))
    for q, n in ((q1, n1), (q2, n1), (q1, n2), (q1, n1), (q2, n2)):
        call("calc_covariance_mat", mu.calc_covariance_mat, q, n)
        call("calc_covariance_matrix_of_prob_dist", da.calc_covariance_matrix_of_prob_dist, q, n)
    for qs, n in (([q1, q2], n1), ([q2, q1], n1), ([q1, q2], n2), ([q1, q2], n1)):
        call("calc_covariance_mat_total", mu.calc_covariance_mat_total, [(n, q) for q in qs])
        call("calc_covariance_matrix_of_prob_dists", da.calc_covariance_matrix_of_prob_dists, qs, n)
    sizes = [int(x) for x in rh.integers(1, 4, size=int(rh.integers(1, 4)))]
    b1 = [rh.standard_normal((s_, s_)) for s_ in sizes]
    b2 = [rh.standard_normal((s_, s_)) for s_ in sizes]
    for b in (b1, b2, b1):
        call("calc_direct_sum", mu.calc_direct_sum, b)
    c = int(rh.integers(1, 5))
    r = c + int(rh.integers(0, 4))
    A1, A2 = rh.standard_normal((r, c)), rh.standard_normal((r, c))
    V1, V2 = rh.standard_normal((c, c)), rh.standard_normal((c, c))
    for A, V in ((A1, V1), (A2, V1), (A1, V2), (A1, V1)):
        call("calc_conjugate", mu.calc_conjugate, A, V)
    if max(np.linalg.cond(A1), np.linalg.cond(A2)) < 100:
        for A in (A1, A2, A1):
            call("calc_left_inv", mu.calc_left_inv, A)
    k = int(rh.integers(1, 4))
    xs = [rh.standard_normal(3) for _ in range(k)]
    ys = [rh.standard_normal(3) for _ in range(k)]
    zs = [rh.standard_normal(3) for _ in range(k)]
    for a, b in ((xs, ys), (xs, zs), (ys, xs), (xs, ys)):
        call("calc_se", mu.calc_se, a, b)
    for a, b in (([xs, ys, zs], [zs, zs, zs]), ([ys, xs, zs], [xs, xs, xs]), ([xs, ys, zs], [zs, zs, zs])):
        call("calc_mse_prob_dists", mu.calc_mse_prob_dists, a, b)
    nv = int(rh.integers(1, 5))
    p1, p2 = rh.dirichlet(np.ones(m)), rh.dirichlet(np.ones(m))
    if rh.random() < 0.5:
        p1[int(rh.integers(0, m))] = 0.0
        p1 = p1 / p1.sum()
    G1 = [rh.standard_normal(nv) for _ in range(m)]
    G2 = [rh.standard_normal(nv) for _ in range(m)]
    eps = float(10 ** rh.uniform(-10, -4))
    for p_, G, e in ((p1, G1, None), (p2, G1, None), (p1, G1, eps), (p1, G2, None), (p1, G1, None)):
        if e is None:
            call("replace_prob_dist", mu.replace_prob_dist, p_)
        else:
            call("replace_prob_dist", mu.replace_prob_dist, p_, e)
        call("calc_fisher_matrix", mu.calc_fisher_matrix, p_, G, eps=e)
    ws = list(rh.uniform(0.1, 3.0, size=2))
    for ps, Gs, w, e in (([p1, p2], [G1, G2], ws, None), ([p2, p1], [G1, G2], ws, None), ([p1, p2], [G1, G2], ws[::-1], eps),
                         ([p1, p2], [G1, G2], ws, None)):
        call("calc_fisher_matrix_total", mu.calc_fisher_matrix_total, ps, Gs, w, eps=e)


def run_history(ctx, ph, J, hs, keep, call, S):
    """history / combination steps of one case (own random stream, so the ordinary workload is what it was)"""
    import quara.data_analysis.data_analysis as da
    import quara.loss_function.mean_squared_error as mse_mod

    rh = ctx.rng(1)
    tomo, c_sys, d, flag = S["tomo"], S["c_sys"], S["d"], S["flag"]
    qt, true, tag, K, sizes, lists = S["qt"], S["true"], S["tag"], S["K"], S["sizes"], S["lists"]
    m_true, i = S["m_true"], S["i"]
    heavy = tomo in ("qpt", "qmpt")
    # every case: second call + helpers + stability.  One-qubit state / POVM tomography: even cases second true object
    # and twin tomography, odd cases transient objects and pickle round trip.  Process / measurement-process tomography
    # (a formula call costs 5-10 times more there): one of the four per case, in turn.
    even = i % 2 == 0
    do_second, do_twin = (i % 4 == 0, i % 4 == 2) if heavy else (even, even)
    do_transient, do_pickle = (i % 4 == 1, i % 4 == 3) if heavy else (not even, not even)
    all_js = list(range(K))[::-1]
    some_js = sorted({int(x) for x in rh.integers(0, K, size=3)})
    hns = hist_sizes(rh, sizes)
    hns0 = tuple(hns)
    N = int(rh.choice([1, hns[0], max(hns), 1000]))
    ws = [float(x) for x in rh.uniform(0.1, 3.0, size=K)]
    var_arr = S["var_arr"]

    # ---- (a) the same tomography and the same true object asked again, after the estimator runs, the sampled-data
    # helpers and the 3-sigma checkers have used them; other order, known and new sample-size lists
    with ph.step("second-call"):
        call("calc_cramer_rao_bound", tag, qt.calc_cramer_rao_bound, true, N, lists["mixed"])
        ask_all(call, tag, qt, true, lists["mixed"], N, ws, all_js if i % 4 == 0 else some_js[::-1], var_arr=var_arr,
                level="full" if i % 4 == 0 else "lite")
        if i % 4 == 3:
            call("calc_mse_linear_analytical", tag, qt.calc_mse_linear_analytical, true, lists["large"], mode="qoperation")
        call("calc_cramer_rao_bound", tag, qt.calc_cramer_rao_bound, var_arr, N, lists["large"])
        if even:
            ask_all(call, tag, qt, true, hns, N, ws, some_js, var_arr=var_arr, level="lite")
        if S.get("sim") is not None and i % 4 == 1:
            setting, sim, results = S["sim"]
            call("compare_to_analytical", tag, mse_mod.compare_to_analytical, setting, results, qt, show_detail=False)
            call("check_mse_of_empirical_distributions", tag, mse_mod.check_mse_of_empirical_distributions, sim, show_detail=False)
            with hs.paused():
                objs = [r.estimated_qoperation_sequence[1] for r in results]
            call("calc_mse_qoperations", tag, da.calc_mse_qoperations, objs, [true] * len(objs))

    # ---- (b, d) a second true object (not a plain default-option constructor call) on the same tomography, the two
    # asked alternately with the SAME remaining arguments
    prov = PROVENANCES[int(rh.integers(0, len(PROVENANCES)))]
    true2 = second_true_object(ctx, rh, tomo, c_sys, d, m_true, flag, qt, true, prov) if do_second else None
    if true2 is None:
        pass
    elif bool(true2.on_para_eq_constraint) != flag or gen.type_of(true2) != gen.type_of(true):
        ctx.count(f"recorded-not-judged:second-true-object:{prov}:flag-or-type-not-kept")
    else:
        J.pin(true2)
        with ph.step("second-true-object", detail=prov):
            ask_all(call, tag, qt, true2, hns, N, ws, some_js, level="lite")
            ask_all(call, tag, qt, true, hns, N, ws, some_js, var_arr=var_arr, level="lite")
            ask_all(call, tag, qt, true2, hns, N, ws, some_js[::-1], level="micro" if heavy else "full")

    # ---- objects that are created, asked and dropped one after the other (an id()-keyed memo sees equal keys)
    if do_transient:
        with ph.step("transient-true-object"):
            for r in range(3):
                o = make_true(tomo, c_sys, draw_true(tomo, d, m_true, rh, ["interior", "rankdef", "sharp"][r]), on_para_eq_constraint=flag)
                ask_all(call, tag, qt, o, hns, N, ws, some_js[:1], level="lite" if (r == 0 and not heavy) else "micro")
                del o
            ask_all(call, tag, qt, true, hns, N, ws, some_js[:1], level="micro")

    # ---- (c, d) twin tomography: same class / flag / sizes, SAME tester objects, reversed explicit schedules,
    # non-default constructor options; the two asked alternately about the same true object with the same lists
    qt2, opts, err = build_twin(ctx, rh, tomo, qt, S["states"], S["povms"], m_true, flag) if do_twin else (None, None, None)
    if not do_twin:
        pass
    elif qt2 is None:  # which schedule lists / options a constructor accepts is not this property's business
        ctx.count(f"recorded-not-judged:twin-tomography-ctor-raises:{type(err).__name__}")
    else:
        with ph.step("twin-tomography", detail="non-default-ctor-options" if opts else None):
            ask_all(call, tag, qt2, true, hns, N, ws, some_js, var_arr=var_arr, level="lite")
            ask_all(call, tag, qt, true, hns, N, ws, some_js, var_arr=var_arr, level="lite")
            ask_all(call, tag, qt2, true, lists["mixed"], N, ws, some_js[::-1], level="micro")
            if tomo == "povmt":
                # sibling with another number of outcomes (the object-space corrections of StandardPovmt depend on it)
                m3 = [m for m in (2, 3, 4) if m != m_true][int(rh.integers(0, 2))]
                ok3, qt3 = ctx.attempt(build_qt, tomo, S["states"], S["povms"], m3, flag)
                if ok3:
                    true3 = make_true(tomo, c_sys, draw_true(tomo, d, m3, rh, "interior"), on_para_eq_constraint=flag)
                    ns3 = hist_sizes(rh, [m3] * K)
                    ask_all(call, tag, qt3, true3, ns3, N, ws, some_js[:1], level="lite")
                    ask_all(call, tag, qt, true, hns, N, ws, some_js[:1], level="lite")

    # ---- (b) pickle round trip of tomography and true object (the library pickles both: joblib workers, to_pickle)
    if do_pickle:
        okp, got = ctx.attempt(lambda: pickle.loads(pickle.dumps((qt, true))))
        if not okp:
            ctx.count(f"recorded-not-judged:pickle-round-trip-raises:{type(got).__name__}")
        else:
            qtp, truep = got
            with ph.step("via-pickle"):
                ask_all(call, tag, qtp, truep, hns, N, ws, some_js, var_arr=var_arr, level="lite")
                ask_all(call, tag, qt, truep, hns, N, ws, some_js[:1], level="micro")
                ask_all(call, tag, qtp, true, lists["mixed"], N, ws, some_js[:1], level="micro")

    # ---- helper functions asked again
    with ph.step("helpers:re-query"):
        drive_helpers_history(ctx, rh, keep)

    # ---- arguments and results as the caller holds them
    ctx.count("history-step:returned-arrays-stable")
    keep.judge(ctx)
    same = tuple(hns) == hns0 and all(tuple(v) == S["lists0"][k] for k, v in lists.items()) and np.array_equal(var_arr, S["var_arr0"])
    ctx.truth("arguments-unchanged-by-the-formulas", same, key=f"formulas:{tag}:argument-modified-in-place")


def run_shard(ctx):
    os.environ.setdefault("TQDM_DISABLE", "1")
    import quara.data_analysis.data_analysis as da
    import quara.loss_function.mean_squared_error as mse_mod
    import quara.utils.matrix_util as mu
    from quara.protocol.qtomography.standard.linear_estimator import LinearEstimator

    p = ctx.params
    tomo, shape, flag = p["tomo"], p["shape"], bool(p["flag"])
    dims = gen.SHAPES[shape]
    c_sys = gen.make_csys(dims)
    d = c_sys.dim
    est = LinearEstimator()
    hs = HookSet(ctx)
    J = Judge(ctx, est)
    crb_truth = install_tomography_hooks(hs, J)
    install_helper_hooks(hs, J)
    install_checker_hooks(hs, J)
    uses_states, uses_povms = tomo != "qst", tomo != "povmt"
    ph = PhaseKeys(ctx)
    keep = Keeper()

    def call(label, tag, fn, *a, **kw):
        ok, val = ctx.attempt(fn, *a, **kw)
        if not ok:
            ctx.violation(f"{label}:{tag}:" + ctx.exc_key(val), {"args": [x for x in a if isinstance(x, (int, list, str))][:3]})
            return None
        keep.add(label, tag, val)
        return val

    try:
        for i in ctx.cases(p["n"], start=p.get("start", 0)):
            rng = ctx.rng()
            J.clear_case()
            ph.new_case()
            keep.clear()
            kind = ["interior", "aligned", "rankdef", "interior", "sharp", "aligned"][i % 6]
            aligned = kind == "aligned"
            true_kind = "sharp" if aligned else kind
            m_pv = int(rng.integers(2, 5)) if uses_povms else 0
            if tomo == "povmt":
                m_true = int(rng.integers(2, 5))
            elif tomo == "qmpt":
                m_true = 2 if (m_pv > 2 or rng.random() < 0.7) else 3
            else:
                m_true = 0
            extra_s, extra_p = int(rng.choice([0, 0, 1, 2])), int(rng.choice([0, 0, 1, 2]))
            ops = draw_true(tomo, d, m_true, rng, true_kind)
            qt = None
            ok = True
            for _ in range(12):
                st_m, pv_m = draw_testers(tomo, d, m_pv, rng, extra_s, extra_p, ops, aligned)
                states = [gen.make_state(c_sys, r) for r in st_m]
                povms = [gen.make_povm(c_sys, ms) for ms in pv_m]
                ok, qt = ctx.attempt(build_qt, tomo, states, povms, m_true, flag)
                if not ok:
                    break
                with hs.paused():
                    li = lin_info(qt.calc_matA())
                if li["ic"] and li["kappa"] <= KAPPA_MAX:
                    break
                ctx.count("tester-set-redrawn:cond>%g" % KAPPA_MAX)
            if not ok:
                ctx.violation(f"{tomo}.ctor:" + ctx.exc_key(qt), {})
                continue
            if not (li["ic"] and li["kappa"] <= KAPPA_MAX):
                ctx.count("case-skipped:no-well-conditioned-draw")
                continue
            true = make_true(tomo, c_sys, ops, on_para_eq_constraint=flag)
            J.pin(true)
            M = J.model(qt)
            tag = M.tag
            K = M.K
            T = J.truth(qt, true)
            if T is None:
                ctx.mark_inconclusive(f"reference forward model does not fit {tag}")
                continue
            J.kappas.append(li["kappa"])
            cls = T["cls"]
            has_zero = any(c == "boundary" for c in cls)
            ctx.count("true-distribution:" + ("has-zero-probability" if has_zero else "free-zone" if "free" in cls else "all-positive"))
            lists, c = sample_sizes(rng, K, M.sizes)
            lists0 = {k: tuple(v) for k, v in lists.items()}
            vals = {}
            for name, ns in lists.items():
                j = int(rng.integers(0, K))
                call("calc_covariance_mat_single", tag, qt.calc_covariance_mat_single, true, j, ns[j])
                call("calc_covariance_mat_total", tag, qt.calc_covariance_mat_total, true, ns)
                call("calc_covariance_linear_mat_total", tag, qt.calc_covariance_linear_mat_total, true, ns)
                v = {"var": call("calc_mse_linear_analytical", tag, qt.calc_mse_linear_analytical, true, ns, mode="var"),
                     "qoperation": call("calc_mse_linear_analytical", tag, qt.calc_mse_linear_analytical, true, ns, mode="qoperation"),
                     "default": call("calc_mse_linear_analytical", tag, qt.calc_mse_linear_analytical, true, list(ns)),
                     "empi": call("calc_mse_empi_dists_analytical", tag, qt.calc_mse_empi_dists_analytical, true, ns)}
                if v["default"] is not None and v["qoperation"] is not None:
                    ctx.truth("mse_linear:default-mode-is-qoperation", float(v["default"]) == float(v["qoperation"]),
                              key=f"calc_mse_linear_analytical:{tag}:default-mode-is-not-qoperation")
                # Cramer-Rao bound for this list (object argument; N arbitrary)
                N = int(rng.choice([1, ns[0], max(ns), 1000]))
                v["crb"] = call("calc_cramer_rao_bound", tag, qt.calc_cramer_rao_bound, true, N, ns)
                vals[name] = v
            # ---- a true object carrying the other flag denotes the same object: where the library accepts it the
            # hooks judge the value; where it raises this is recorded, not judged (outside the library's own usage)
            if i % 4 == 0:
                other = make_true(tomo, c_sys, ops, on_para_eq_constraint=not flag)
                for mode in ("var", "qoperation"):
                    ok_o, val_o = ctx.attempt(qt.calc_mse_linear_analytical, other, lists["mixed"], mode=mode)
                    ctx.count(f"recorded-not-judged:true-object-with-other-flag:{tag}:mode={mode}:" + ("returns" if ok_o else f"raises-{type(val_o).__name__}"))
            # ---- scaling law n -> c n  =>  formula / c   (metamorphic, independent of the enumeration)
            Rm = crb_truth(qt, true, lists["mixed"])
            crb_tp, crb_tf = tol_inv(Rm["cond"], Rm["boundary"]) if Rm is not None else (None, None)
            for q in ("var", "qoperation", "empi", "crb"):
                a, b = vals["mixed"].get(q), vals["scaled"].get(q)
                if a is None or b is None or (q == "crb" and (Rm is None or Rm["cond"] > 1e13)):
                    continue
                a, b = float(a), float(b)
                tp_, tf_ = (10 * crb_tp, 10 * crb_tf) if q == "crb" else (1e-11, 1e-8)
                J.num("scaling-law", abs(b * c - a) / max(abs(a), 1e-300), tp_, tf_,
                      key=f"scaling-law:{'calc_cramer_rao_bound' if q == 'crb' else 'calc_mse_empi_dists_analytical' if q == 'empi' else 'calc_mse_linear_analytical:mode=' + q}:{tag}:"
                          "not-proportional-to-1/n", info={"c": c})
            ok_mode, val = ctx.attempt(qt.calc_mse_linear_analytical, true, lists["mixed"], mode="variable")
            ctx.truth("mse_linear:unknown-mode-raises-ValueError", (not ok_mode) and isinstance(val, ValueError),
                      key=f"calc_mse_linear_analytical:{tag}:unknown-mode-" + ("accepted" if ok_mode else f"raises-{type(val).__name__}"))
            # ---- Fisher matrix / Cramer-Rao bound: array arguments, weights, N
            ns = lists["mixed"]
            with hs.paused():
                v_true = np.array(true.to_var(), dtype=np.float64)
            same_var = v_true.shape == T["v_true"].shape and bool(np.allclose(v_true, T["v_true"], atol=1e-12, rtol=0))
            ctx.truth("true.to_var=reference-variables", same_var, key=f"to_var:{gen.type_of(true)}:para_eq={'T' if flag else 'F'}:differs-from-convention")
            var_arr = T["v_true"].copy()
            var_arr0 = var_arr.copy()
            j = int(rng.integers(0, K))
            call("calc_fisher_matrix", tag, qt.calc_fisher_matrix, j, true)
            call("calc_fisher_matrix", tag, qt.calc_fisher_matrix, int(rng.integers(0, K)), var_arr)
            ws = list(rng.uniform(0.1, 3.0, size=K))
            call("calc_fisher_matrix_total", tag, qt.calc_fisher_matrix_total, true, ws)
            call("calc_fisher_matrix_total", tag, qt.calc_fisher_matrix_total, var_arr, [n / 7.0 for n in ns])
            N1, N2 = int(rng.integers(1, 50)), int(rng.integers(50, 10**6))
            c1 = call("calc_cramer_rao_bound", tag, qt.calc_cramer_rao_bound, var_arr, N1, ns)
            c2 = call("calc_cramer_rao_bound", tag, qt.calc_cramer_rao_bound, var_arr, N2, ns)
            if c1 is not None and c2 is not None and Rm is not None and Rm["cond"] <= 1e13:
                # Tr[(sum_j (n_j/N) F_j)^-1]/N = Tr[(sum_j n_j F_j)^-1]: the representative N drops out
                J.num("cramer_rao:independent-of-N", abs(float(c1) - float(c2)) / max(abs(float(c1)), 1e-300), 10 * crb_tp,
                      10 * crb_tf, key=f"calc_cramer_rao_bound:{tag}:depends-on-representative-N")
            if flag and not has_zero and "free" not in cls and vals["mixed"]["var"] is not None:
                # proper statistical model (probabilities sum to one identically), unbiased estimator => Cramer-Rao inequality
                R = Rm
                if R is not None and R["cond"] < 1e10:
                    ctx.truth("mse_linear>=cramer_rao", float(vals["mixed"]["var"]) >= R["var_bound"] * (1 - 1e-9),
                              key=f"calc_mse_linear_analytical:{tag}:mode=var:below-the-Cramer-Rao-bound",
                              info={"mse": float(vals["mixed"]["var"]), "bound": R["var_bound"]})
            # ---- sampled data through the sample-statistics helpers and the 3-sigma checkers
            reps = int(rng.integers(3, 8))
            num_data = [int(rng.integers(2, 30)), int(rng.integers(30, 2000))]
            empi_seqs, results = [], []
            sim_objs = None
            for _ in range(reps):
                seq = [[(n, rng.multinomial(n, q) / float(n)) for q in T["ps"]] for n in num_data]
                empi_seqs.append(seq)
                results.append(call("LinearEstimator.calc_estimate_sequence", tag, est.calc_estimate_sequence, qt, seq, is_computation_time_required=True))
            if all(r is not None for r in results):
                with hs.paused():
                    objs = [r.estimated_qoperation_sequence[0] for r in results]
                    ps_lib = [np.asarray(q, dtype=np.float64) for q in qt.calc_prob_dists(true)]
                call("calc_mse_qoperations", tag, da.calc_mse_qoperations, objs, [true] * reps)
                call("calc_mse_qoperations", tag, da.calc_mse_qoperations, objs, [true] * reps, with_std=False)
                call("calc_mse_prob_dists", tag, mu.calc_mse_prob_dists, [[e[1] for e in s[0]] for s in empi_seqs], [ps_lib] * reps)
                setting = types.SimpleNamespace(num_data=num_data, n_rep=reps, true_object=true, estimator=est)
                sim = types.SimpleNamespace(simulation_setting=setting, qtomography=qt, empi_dists_sequences=empi_seqs, estimation_results=results)
                call("compare_to_analytical", tag, mse_mod.compare_to_analytical, setting, results, qt, show_detail=False)
                call("check_mse_of_empirical_distributions", tag, mse_mod.check_mse_of_empirical_distributions, sim, show_detail=False)
                sim_objs = (setting, sim, results)
            drive_helpers(ctx, rng, tag)
            run_history(ctx, ph, J, hs, keep, call,
                        {"tomo": tomo, "c_sys": c_sys, "d": d, "flag": flag, "qt": qt, "true": true, "tag": tag, "K": K,
                         "sizes": M.sizes, "lists": lists, "lists0": lists0, "m_true": m_true, "i": i, "states": states,
                         "povms": povms, "var_arr": var_arr, "var_arr0": var_arr0, "sim": sim_objs})
            ctx.nontrivial(tomo, shape, flag, len(st_m), len(pv_m), m_pv, m_true, kind, T["o_true"], lists["mixed"], lists["large"])
            if i < 2:
                ctx.sample({"tomo": tag, "shape": shape, "schedules": K, "outcomes_per_schedule": M.sizes[0], "cond_A": li["kappa"],
                            "true_kind": kind, "has_zero_probability": has_zero, "sample_sizes": {k: v[:8] for k, v in lists.items()},
                            "mse_linear_var": vals["mixed"]["var"], "mse_linear_qoperation": vals["mixed"]["qoperation"],
                            "mse_empi": vals["mixed"]["empi"], "cramer_rao": vals["mixed"]["crb"]})
    finally:
        hs.uninstall()
        ph.restore()
    ctx.extra["hook_counts"] = hs.counts
    ctx.extra["history_cpu_s"] = {k: round(v, 2) for k, v in ph.cpu.items()}
    ctx.extra["shard_cpu_s"] = round(time.process_time(), 2)
    ctx.extra["worst_ratios"] = J.worst
    ctx.extra["kappa_max"] = max(J.kappas) if J.kappas else None
    ctx.extra["condF_max"] = max(J.condF) if J.condF else None
    if ctx.only_case is None:
        need = ["StandardQTomography.calc_covariance_mat_single", "StandardQTomography.calc_covariance_mat_total",
                "StandardQTomography.calc_covariance_linear_mat_total", "StandardQTomography.calc_mse_linear_analytical",
                "StandardQTomography.calc_mse_empi_dists_analytical", "StandardQTomography.calc_fisher_matrix",
                "StandardQTomography.calc_fisher_matrix_total",
                "StandardPovmt.calc_cramer_rao_bound" if tomo == "povmt" else "StandardQTomography.calc_cramer_rao_bound",
                "matrix_util.calc_covariance_mat", "matrix_util.calc_covariance_mat_total", "matrix_util.calc_direct_sum",
                "matrix_util.calc_conjugate", "matrix_util.calc_left_inv", "matrix_util.calc_fisher_matrix",
                "matrix_util.calc_fisher_matrix_total", "matrix_util.replace_prob_dist", "matrix_util.calc_se",
                "matrix_util.calc_mse_prob_dists", "data_analysis.calc_mse_qoperations", "data_analysis.calc_mse_general_norm",
                "data_analysis.calc_covariance_matrix_of_prob_dist", "data_analysis.calc_covariance_matrix_of_prob_dists",
                "mean_squared_error.compare_to_analytical", "mean_squared_error.check_mse_of_empirical_distributions"]
        hs.require(need)


def finalize(merged, ctx):
    worst, kmax, fmax = {}, 0.0, 0.0
    for s in merged["extra"]:
        ex = s["extra"] or {}
        for k, v in (ex.get("worst_ratios") or {}).items():
            worst[k] = max(worst.get(k, 0.0), v)
        kmax = max(kmax, ex.get("kappa_max") or 0.0)
        fmax = max(fmax, ex.get("condF_max") or 0.0)
    for k, v in sorted(worst.items()):
        ctx.count(f"margin:worst-err-as-permille-of-tol_pass:{k}", int(math.ceil(1000 * v)))
    cpu, tot = {}, 0.0
    for s_ in merged["extra"]:
        ex = s_["extra"] or {}
        tot += ex.get("shard_cpu_s") or 0.0
        for k, v in (ex.get("history_cpu_s") or {}).items():
            cpu[k] = cpu.get(k, 0.0) + v
    ctx.count("cost:cpu-seconds:all-shards", int(round(tot)))  # information only
    for k, v in sorted(cpu.items()):
        ctx.count(f"cost:cpu-seconds:history-step:{k}", int(round(v)))
    for name in HISTORY_STEPS:
        if not merged.get("counters", {}).get("history-step:" + name):
            ctx.mark_inconclusive(f"history step never ran: {name}")
    ctx.count("largest-cond(A)-judged", int(math.ceil(kmax)))
    ctx.count("largest-cond(F)-judged:log10", int(math.ceil(math.log10(fmax))) if fmax > 0 else 0)
